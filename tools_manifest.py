#!/venv/bin/python
"""Regenerates MANIFEST.json from the table below (single source of truth)."""
import json, os
HERE = os.path.dirname(os.path.abspath(__file__))
import importlib.util
spec = importlib.util.spec_from_file_location('claims', os.path.join(HERE, 'claims.py'))
claims = importlib.util.module_from_spec(spec); spec.loader.exec_module(claims)

ALL = [f'C{i:02d}' for i in range(1, 21)]
checks = []
for pid in ALL:
    c = claims.CLAIMS.get(pid)
    if not c:
        continue
    checks.append({
        'property_id': pid,
        'quick_cmd': f'./check {pid} --tier quick',
        'thorough_cmd': f'./check {pid} --tier thorough',
        'evidence_file': f'/verif/evidence/{pid}.json',
        'replay_cmd_template': f'./check {pid} --replay {{path}}',
        'engine': c['engine'],
        'level_claimed': {'category': c['level'], 'text': c['text'], 'design_ref': f'DESIGN.md §3 {pid}'},
        'level_note': c['note'],
        'technique': c['technique'],
    })
na = [{'property_id': pid, 'reason': claims.NOT_CLAIMED.get(pid, 'check not built yet in this session; see DESIGN.md §7 for the construction order')}
      for pid in ALL if pid not in claims.CLAIMS]
m = {
    'version': 1,
    'setup_cmd': '/venv/bin/python -m compileall -q /verif/vp >/dev/null; /venv/bin/python -c "import sys; sys.path.insert(0, \'/repo\'); import bumble"',
    'hooks': {
        'guard': 'BUMBLE_VERIF',
        'enable': 'none needed: checks import bumble from /repo\'s working tree and wrap instance/module attributes from outside; BUMBLE_VERIF=1 is exported by ./check but no source in /repo reads it',
        'baseline_off_cmd': 'cd /repo && /venv/bin/python -m pytest -ra -q -p no:cacheprovider --timeout=900 --continue-on-collection-errors',
        'source_commits': [],
        'add_only': True,
    },
    'engines': claims.ENGINES,
    'checks': checks,
    'not_applicable': na,
    'notes': claims.NOTES,
}
with open(os.path.join(HERE, 'MANIFEST.json'), 'w') as f:
    json.dump(m, f, indent=1)
    f.write('\n')
print('checks:', [c['property_id'] for c in checks], 'not claimed:', [n['property_id'] for n in na])
