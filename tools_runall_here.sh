#!/bin/sh
# like tools_runall.sh but in the current directory (for `vp run` snapshots): tools_runall_here.sh <tier> [ids...]
tier=${1:-quick}; shift
ids=${@:-$(/venv/bin/python -c "import json; print(' '.join(c['property_id'] for c in json.load(open('MANIFEST.json'))['checks']))")}
mkdir -p .work
for p in $ids; do
  s=$(date +%s)
  ./check $p --tier $tier ${JOBS:+--jobs $JOBS} > .work/run_${tier}_$p.log 2>&1
  rc=$?
  e=$(date +%s)
  echo "$p rc=$rc $((e-s))s known=$(grep -c '^KNOWN-FINDING' .work/run_${tier}_$p.log) viol=$(grep -c '^VIOLATION' .work/run_${tier}_$p.log)"
done
