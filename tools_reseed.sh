#!/bin/sh
# tools_reseed.sh <name> [extra tools_seed args]: re-confirm a filed seeded change against the current checks
name=$1; shift
prop=$(echo $name | cut -c1-3)
cd /verif && ./tools_seed.py $prop /verif/seeded/$name x $name "$@"
