#!/venv/bin/python
"""tools_benign.py <PROPERTY> <dir-with-patchN.diff/noteN.txt> <N> <name> [--tier quick|thorough] [--checks C04,C16]

Runs our check(s) against a PROPERTY-PRESERVING change (a sub-agent's refactoring / legal alternative behaviour):
  1. patch applies to /repo HEAD in a fresh scratch worktree
  2. the full existing test suite passes with the patch
  3. our check(s) against the patched tree must stay silent (exit 0, no VIOLATION line); anything else is printed
Keeps it as /verif/benign/<name>/ (patch.diff, note.txt, meta.json). Removes the worktree.
"""
import json
import os
import shutil
import subprocess
import sys
import time

prop, src, n, name = sys.argv[1:5]
tier = 'quick'
checks = [prop]
args = sys.argv[5:]
while args:
    a = args.pop(0)
    if a == '--tier':
        tier = args.pop(0)
    elif a == '--checks':
        checks = args.pop(0).split(',')
patch = os.path.join(src, f'patch{n}.diff')
note = os.path.join(src, f'note{n}.txt')
if not os.path.exists(patch) and os.path.exists(os.path.join(src, 'patch.diff')):
    import tempfile

    tmp = tempfile.mkdtemp()
    for a in ('patch.diff', 'note.txt'):
        if os.path.exists(os.path.join(src, a)):
            shutil.copy(os.path.join(src, a), os.path.join(tmp, a))
    patch, note = (os.path.join(tmp, x) for x in ('patch.diff', 'note.txt'))
wt = f'/tmp/benchk_{name}'
meta = {'property': prop, 'name': name, 'ran': [], 'time': time.strftime('%Y-%m-%dT%H:%M:%SZ', time.gmtime())}


def sh(cmd, **kw):
    meta['ran'].append(cmd)
    return subprocess.run(cmd, shell=True, capture_output=True, text=True, **kw)


subprocess.run(['git', '-C', '/repo', 'worktree', 'remove', '--force', wt], capture_output=True)
subprocess.check_call(['git', '-C', '/repo', 'worktree', 'add', '-q', '--detach', wt, 'HEAD'])
try:
    meta['repo_head'] = subprocess.check_output(['git', '-C', '/repo', 'rev-parse', '--short', 'HEAD'], text=True).strip()
    r = sh(f'git -C {wt} apply {patch}')
    if r.returncode != 0:
        print('PATCH DOES NOT APPLY', r.stderr)
        sys.exit(3)
    env_p = dict(os.environ, PYTHONPATH=wt)
    if name.endswith('-x') or os.environ.get('BENIGN_SKIP_TESTS'):
        # cross-run of an already confirmed patch against other properties' checks: the suite was run before
        rt = subprocess.CompletedProcess('', 0, stdout='(not re-run) passed', stderr='')
    else:
        rt = sh(f'cd {wt} && /venv/bin/python -m pytest -q -p no:cacheprovider -n 8 tests 2>&1 | tail -3', env=env_p, timeout=3000)
    meta['test_suite_tail'] = rt.stdout.strip().splitlines()[-1] if rt.stdout.strip() else ''
    print('tests:', meta['test_suite_tail'])
    meta['tests_pass'] = not (' failed' in meta['test_suite_tail'] or 'error' in meta['test_suite_tail'].lower() or 'passed' not in meta['test_suite_tail'])
    meta['checks'] = {}
    silent = True
    for c in checks:
        t0 = time.time()
        rc = sh(f'cd /verif && VERIF_REPO={wt} ./check {c} --tier {tier}', timeout=7200)
        lines = [l for l in rc.stdout.splitlines() if l.startswith('VIOLATION') or l.strip().startswith('violation:')]
        nv = len([l for l in lines if l.startswith('VIOLATION')])
        meta['checks'][c] = {'tier': tier, 'exit': rc.returncode, 'violations': nv, 'first': [l.strip()[:400] for l in lines if l.strip().startswith('violation:')][:4], 'wall_s': round(time.time() - t0, 1)}
        print(f'check {c} ({tier}): exit {rc.returncode}, {nv} VIOLATION lines, {meta["checks"][c]["wall_s"]}s')
        if rc.returncode != 0 or nv:
            silent = False
            for l in meta['checks'][c]['first']:
                print('   ', l)
            if rc.returncode == 2:
                print(rc.stdout[-1500:], rc.stderr[-1500:])
    meta['silent'] = silent
    print('SILENT' if silent else 'ALARM', name)
    d = f'/verif/benign/{name}'
    os.makedirs(d, exist_ok=True)
    shutil.copy(patch, os.path.join(d, 'patch.diff'))
    if os.path.exists(note):
        shutil.copy(note, os.path.join(d, 'note.txt'))
    with open(os.path.join(d, 'meta.json'), 'w') as f:
        json.dump(meta, f, indent=1)
finally:
    subprocess.run(['git', '-C', '/repo', 'worktree', 'remove', '--force', wt], capture_output=True)
    shutil.rmtree('/verif/.work/alt/' + os.path.basename(wt), ignore_errors=True)
