#!/venv/bin/python
"""tools_mutant.py <CHECK> <file> <old> <new> [--only sub]  : apply a one-off textual mutant in a scratch worktree and run a check"""
import subprocess, sys, os, shutil
chk, f, old, new = sys.argv[1:5]
extra = sys.argv[5:]
wt = f'/tmp/quickmut_{os.getpid()}'
subprocess.check_call(['git', '-C', '/repo', 'worktree', 'add', '-q', '--detach', wt, 'HEAD'])
try:
    p = os.path.join(wt, f)
    s = open(p).read()
    assert s.count(old) >= 1, 'pattern not found'
    open(p, 'w').write(s.replace(old, new, 1))
    r = subprocess.run(['./check', chk, '--tier', 'quick'] + extra, cwd='/verif', env=dict(os.environ, VERIF_REPO=wt), capture_output=True, text=True)
    v = [l for l in r.stdout.splitlines() if l.strip().startswith('violation:')]
    print(f'{chk} {f}: {old.strip()[:50]!r} -> {new.strip()[:50]!r}: exit {r.returncode}, {len(v)} violations')
    for l in v[:2]:
        print('    ', l.strip()[:260])
    if r.returncode == 2:
        print(r.stdout[-600:])
finally:
    subprocess.run(['git', '-C', '/repo', 'worktree', 'remove', '--force', wt], capture_output=True)
    shutil.rmtree('/verif/.work/alt', ignore_errors=True)
