"""C08 — classic L2CAP connection-oriented channels (Basic / Enhanced
Retransmission) deliver every SDU exactly once, intact and in order.

Two real Device/Host/Controller stacks on one LocalLink under the virtual loop.
Device 0 is the client (`Connection.create_l2cap_channel(ClassicChannelSpec)`),
device 1 runs `create_l2cap_server(ClassicChannelSpec)`.  Every L2CAP frame is
observed twice from outside bumble — when a host hands it to its controller
(`Host.send_acl_sdu`) and when the peer host receives it (`Host.on_l2cap_pdu`) —
and decoded by the independent decoder/monitor in harness/c08_wire.py.

Sub-checks
  setup : spec pairs (all four mode pairs x FCS x MTU/MPS/window variants x link
          type) -> after create_l2cap_channel settles both ends are OPEN in the
          same mode, or both CLOSED and the caller got an exception; explored
          under order-preserving delivery delays.
  data  : configuration x SDU-size sequences (symbolic sizes around the peer's
          MPS / MTU, including 65*MPS+1 so TxSeq wraps) in both directions, echo
          sink, burst / paced writes, default schedule.
  sched : selected data cases under all order-preserving delays with <= d
          deviations.
  timer : selected ERTM data cases with the virtual clock jumping past the
          retransmission time-out before message k, for every k (= the peer's
          acknowledgement is delayed longer than the time-out, nothing is lost);
          thorough adds one more order-preserving delay on top of every jump
          index for two of the cases (timer_sched).
  timer_write : windows 1..3 with a backlog of window+2 segments; clock jump before
          message k (every k that makes the sender poll), then one more write of
          {1, mps} octets by either side before every later message index, i.e.
          an application write at every moment of the poll cycle.

Oracle (reference = the list of SDUs written + the frames on the wire):
  sink SDUs == written SDUs per direction; ERTM: TxSeq(n+1) = TxSeq(n)+1 mod 64,
  unacknowledged I-frames (sent - acknowledged by ReqSeq *delivered to the
  sender*) <= TxWindow in the peer's Configure Request, SAR sequences well
  formed with the announced SDU length, SDU data per I-frame <= peer MPS, SDU <=
  peer MTU, ReqSeq never ahead of what was delivered, FCS == independent CRC-16
  when either side requested FCS.
"""
from __future__ import annotations

import itertools

from .. import core, explore
from ..harness import c08_wire as wire
from ..harness.devices import World
from ..vloop import StepBudgetExceeded

LEVEL = 'exploration'

# library defaults of ClassicChannelSpec
D_MTU, D_MPS, D_WIN = 2048, 1010, 63
MTUS = [48, 256, 1000, 65535]
MPSS = [23, 24, 256, 1024]
WINS = [1, 2, 3]
RTO = 2.0  # DEFAULT_RETRANSMISSION_TIMEOUT
HORIZON = 200.0


def spec(mode='E', mtu=D_MTU, mps=D_MPS, win=D_WIN, fcs=False):
    return {'mode': mode, 'mtu': mtu, 'mps': mps, 'win': win, 'fcs': fcs}


def mk_spec(s, psm=None):
    from bumble import l2cap

    return l2cap.ClassicChannelSpec(
        psm=psm,
        mtu=s['mtu'],
        mps=s['mps'],
        tx_window_size=s['win'],
        mode=l2cap.TransmissionMode.ENHANCED_RETRANSMISSION if s['mode'] == 'E' else l2cap.TransmissionMode.BASIC,
        fcs_enabled=s['fcs'],
    )


# ---------------------------------------------------------------------------
# symbolic SDU sizes, resolved against the RECEIVER's advertised limits
# ---------------------------------------------------------------------------
E_SYMS = ['1', 'mps-1', 'mps', 'mps+1', '3mps', '65mps+1', 'mtu', '0']
B_SYMS = ['1', '0', '47', '48', 'mtu-1', 'mtu']


def sym_size(sym, rx):
    mps, mtu = rx['mps'], rx['mtu']
    return {
        '0': 0,
        '1': 1,
        '47': 47,
        '48': 48,
        'mps-1': mps - 1,
        'mps': mps,
        'mps+1': mps + 1,
        '3mps': 3 * mps,
        'win+2 segs': (rx['win'] + 2) * mps,  # a backlog two segments larger than the window
        '65mps+1': 65 * mps + 1,
        'mtu-1': mtu - 1,
        'mtu': mtu,
    }[sym]


def frames_needed(size, mps):
    return 1 if size <= mps else -(-size // mps)


def resolve(p):
    """[[sizes dir 0], [sizes dir 1]] or None when the case is outside the space (an SDU above the
    receiver's MTU, or above the frame budget)."""
    out = []
    total_frames = 0
    basic = p['spec'][0]['mode'] == 'B' and p['spec'][1]['mode'] == 'B'
    fcs = p['spec'][0]['fcs'] or p['spec'][1]['fcs']
    for d in (0, 1):
        rx = p['spec'][1 - d]
        sizes = []
        for sym in p['sdus'][d]:
            n = sym_size(sym, rx)
            if n > rx['mtu'] or n < 0:
                return None
            if basic and fcs and n > 65535 - 2:
                # a B-frame that also carries a 2-octet FCS cannot hold it: the Length field is 16 bits
                return None
            if p['echo'] and d == 0 and n > p['spec'][0]['mtu']:
                return None
            if sym == '65mps+1' and rx['mps'] > 24:
                return None
            sizes.append(n)
            if p['spec'][0]['mode'] == 'E':
                total_frames += frames_needed(n, rx['mps']) * (2 if p['echo'] else 1)
                if p['echo']:
                    total_frames += frames_needed(n, p['spec'][0]['mps'])
            else:
                total_frames += 1
        out.append(sizes)
    if total_frames > p.get('max_frames', 400):
        return None
    return out


def sdu_bytes(seed, d, i, n):
    salt = (seed * 29 + d * 101 + i * 37 + 11) & 0xFF
    block = bytes(((x * 7) + salt + (x >> 5)) & 0xFF for x in range(256))
    reps = n // 256 + 1
    out = bytearray()
    for r in range(reps):
        out += bytes((b + r) & 0xFF for b in block) if r else block
        if len(out) >= n:
            break
    return bytes(out[:n])


# ---------------------------------------------------------------------------
# one execution
# ---------------------------------------------------------------------------
def install_taps(w, mon, counter):
    for i, host in enumerate(w.hosts):
        orig_send = host.send_acl_sdu
        orig_rx = host.on_l2cap_pdu

        def send(handle, sdu, _o=orig_send, _i=i):
            mon.sent(_i, bytes(sdu))
            _o(handle, sdu)

        def rx(connection, cid, pdu, _o=orig_rx, _i=i):
            mon.delivered(_i, cid, bytes(pdu))
            _o(connection, cid, pdu)

        host.send_acl_sdu = send
        host.on_l2cap_pdu = rx


def case_defaults(p):
    q = {'link': 'classic', 'echo': False, 'pace': 'burst', 'jump': None, 'inject': None, 'explore': None, 'seed': 0, 'sdus': [[], []]}
    q.update(p)
    return q


def mode_tag(p):
    return p['spec'][0]['mode'] + '/' + p['spec'][1]['mode']


def run_case(p, prefix=None, fp=None):
    """Build a fresh world, open the channel, move the SDUs; returns
    {'viol': [(check, sig, msg)], 'obs': ..., 'points': [...], 'fp': [...], 'info': {...}}"""
    p = case_defaults(p)
    sizes = resolve(p)
    if sizes is None:
        return {'skip': True, 'viol': [], 'obs': None, 'points': [], 'fp': [], 'info': {}}
    viol = []
    info = {}
    classic = p['link'] == 'classic'
    w = World(2, seed=p['seed'], classic=True, le=False) if classic else World(2, seed=p['seed'])
    with w:
        loop = w.loop
        w.power_on()
        cc, pc = w.connect_classic() if classic else w.connect_le()
        loop.collect_exceptions()
        mon = wire.ChannelMonitor()
        install_taps(w, mon, None)
        sched = explore.Sched(prefix, hold=True, expect_fp=fp)
        loop.scheduler = sched
        srv_ch = []
        server = w.devices[1].create_l2cap_server(spec=mk_spec(p['spec'][1]), handler=srv_ch.append)
        task = loop.create_task(cc.create_l2cap_channel(spec=mk_spec(p['spec'][0], psm=server.psm)))
        loop.step()  # runs the task up to its first await: the Connection Request is queued, the channel registered
        mgr0 = w.devices[0].l2cap_channel_manager
        cli_ch = list(mgr0.channels.get(cc.handle, {}).values())
        try:
            sched.active = p['explore'] == 'setup'
            t0 = loop.time()
            loop.run_until(task.done, horizon=t0 + HORIZON, max_steps=100000)
            loop.run_quiescent(horizon=t0 + HORIZON, allow_timers=True, max_steps=100000)
            sched.active = False
        except StepBudgetExceeded:
            sched.active = False
            viol.append(('setup_livelock', {'modes': mode_tag(p)}, f'set-up did not quiesce in 100000 loop steps: {mon.log[-8:]}'))
            return {'viol': viol, 'obs': ['livelock'], 'points': sched.points, 'fp': sched.fp, 'info': info}
        excs = loop.collect_exceptions()

        # ---- set-up oracle ------------------------------------------------
        c = cli_ch[0] if cli_ch else None
        s = srv_ch[0] if srv_ch else None
        cstate = c.state.name if c is not None else 'NONE'
        sstate = s.state.name if s is not None else 'NONE'
        info['setup'] = [cstate, sstate]
        outcome = None
        if not task.done():
            task.cancel()
            outcome = 'pending'
            viol.append(
                (
                    'setup_pending',
                    {'modes': mode_tag(p), 'client': cstate, 'server': sstate},
                    f'create_l2cap_channel never completed (client {cstate}, server {sstate}); wire: {mon.log[-8:]} {excs[:1]}',
                )
            )
        elif task.cancelled() or task.exception() is not None:
            outcome = 'refused'
            info['error'] = repr(task.exception()) if not task.cancelled() else 'cancelled'
            if cstate not in ('CLOSED', 'NONE') or sstate not in ('CLOSED', 'NONE'):
                viol.append(
                    (
                        'setup_not_both_closed',
                        {'modes': mode_tag(p), 'client': cstate, 'server': sstate},
                        f'create_l2cap_channel raised {info["error"]} but client is {cstate} and server is {sstate}; wire: {mon.log[-8:]}',
                    )
                )
        else:
            outcome = 'open'
            same_mode = (
                c is not None
                and s is not None
                and int(c.mode) == int(s.mode)
                and type(c.processor).__name__ == type(s.processor).__name__
                and mon.channel_mode() is not None
            )
            if cstate != 'OPEN' or sstate != 'OPEN' or not same_mode:
                cm = f'{c.mode.name}/{type(c.processor).__name__}' if c is not None else '-'
                sm = f'{s.mode.name}/{type(s.processor).__name__}' if s is not None else '-'
                viol.append(
                    (
                        'setup_not_both_open',
                        {'modes': mode_tag(p), 'client': cstate, 'server': sstate, 'same_mode': bool(same_mode)},
                        f'create_l2cap_channel returned but client is {cstate} ({cm}) and server is {sstate} ({sm}); wire: {mon.log[-8:]}',
                    )
                )
                outcome = 'half'
        info['outcome'] = outcome
        written = [[], []]
        got = [[], []]
        msgs = 0
        if outcome == 'open' and (sizes[0] or sizes[1]):
            # ---- data phase -------------------------------------------------
            chans = [c, s]
            write_errors = []

            def make_sink(i):
                def sink(sdu):
                    got[i].append(bytes(sdu))
                    if p['echo'] and i == 1:
                        try:
                            chans[1].write(bytes(sdu))
                            written[1].append(bytes(sdu))
                        except Exception as e:  # noqa
                            write_errors.append((1, len(written[1]), repr(e)))

                return sink

            c.sink = make_sink(0)
            s.sink = make_sink(1)
            jump = p['jump']
            inject = p['inject']  # [message index, side, symbolic size]: one more application write at that moment
            state = {'msgs': 0, 'jumped': False, 'injected': False}
            prev = loop.on_step

            def on_step(handle):
                if prev:
                    prev(handle)
                if loop.classify(handle) is not None:
                    if jump is not None and not state['jumped'] and state['msgs'] == jump[0]:
                        state['jumped'] = True
                        loop._vtime += jump[1]
                    if inject is not None and not state['injected'] and state['msgs'] == inject[0]:
                        state['injected'] = True
                        d = inject[1]
                        data = sdu_bytes(p['seed'], d, 100, sym_size(inject[2], p['spec'][1 - d]))
                        try:
                            chans[d].write(data)
                            written[d].append(data)
                        except Exception as e:  # noqa
                            write_errors.append((d, 100, repr(e)))
                    state['msgs'] += 1

            loop.on_step = on_step

            def do_write(d, i):
                data = sdu_bytes(p['seed'], d, i, sizes[d][i])
                try:
                    chans[d].write(data)
                    written[d].append(data)
                except Exception as e:  # noqa
                    write_errors.append((d, i, repr(e)))

            horizon = loop.time() + HORIZON + (jump[1] if jump else 0)
            sched.active = p['explore'] == 'data'
            try:
                if p['pace'] == 'burst':
                    for i in range(max(len(sizes[0]), len(sizes[1]))):
                        for d in (0, 1):
                            if i < len(sizes[d]):
                                do_write(d, i)
                    loop.run_quiescent(horizon=horizon, allow_timers=True, max_steps=400000)
                else:
                    for i in range(max(len(sizes[0]), len(sizes[1]))):
                        for d in (0, 1):
                            if i < len(sizes[d]):
                                do_write(d, i)
                        loop.run_quiescent(horizon=horizon, allow_timers=True, max_steps=400000)
                if jump is not None and not state['jumped']:
                    info['jump_unused'] = True
                if inject is not None and not state['injected']:
                    info['inject_unused'] = True
            except StepBudgetExceeded:
                viol.append(('data_livelock', {'modes': mode_tag(p)}, f'data phase did not quiesce in 400000 loop steps: {mon.log[-8:]}'))
            sched.active = False
            loop.on_step = prev
            msgs = state['msgs']
            excs = loop.collect_exceptions()
            mode = 'ertm' if p['spec'][0]['mode'] == 'E' else 'basic'
            timer = jump is not None
            for d, i, e in write_errors:
                viol.append(('write_raised', {'mode': mode, 'error': e.split('(')[0], 'timer': timer}, f'write() of SDU #{i} in direction {d} raised {e}'))
            for d in (0, 1):
                r = 1 - d
                if got[r] == written[d]:
                    continue
                kind = classify_delivery(written[d], got[r])
                on_wire = mon.ep[d].sdus_sent
                where = 'receiver' if on_wire == written[d] else 'sender'
                overhead = 4 + (2 if mon.fcs_in_use() else 0)
                if mode == 'basic' and any(len(x) + overhead > 65535 for x in written[d]):
                    cause = 'l2cap_frame_over_65535_octets'
                elif mode == 'ertm' and where == 'sender' and mon.ep[d].unsolicited_final_s > 0 and mon.ep[d].polls_sent == 0:
                    cause = 'sender_sent_rr_with_F_and_no_P_then_stopped'
                else:
                    cause = ''
                diag = ''
                proc = chans[d].processor
                if all(hasattr(proc, a) for a in ('_pending_pdus', '_tx_window', '_monitor_handle', '_receiver_ready_poll_handle')):
                    diag = (
                        f' sender: {len(proc._pending_pdus)} I-frames never sent, {len(proc._tx_window)} unacknowledged, '
                        f'monitor timer {"armed" if proc._monitor_handle is not None else "idle"}, retransmission timer '
                        f'{"armed" if proc._receiver_ready_poll_handle is not None else "idle"};'
                    )
                viol.append(
                    (
                        'sdu_delivery',
                        {'kind': kind, 'mode': mode, 'where': where, 'timer': timer, 'cause': cause},
                        f'direction {d}->{r} [{mode}{", clock jumped %.3fs before message %d" % (jump[1], jump[0]) if jump else ""}]: '
                        f'wrote {[len(x) for x in written[d]]} octets, sink got {[len(x) for x in got[r]]}, '
                        f'frames on the wire carried {[len(x) for x in on_wire]} (unfinished: {mon.unfinished_sdu(d)});{diag} '
                        f'last frames: {mon.log[-8:]} {excs[:1] if excs else ""}',
                    )
                )
        viol.extend(mon.viol)
        info['msgs'] = msgs
        info['frames'] = mon.data_frames
        info['max_outstanding'] = [mon.ep[0].max_outstanding, mon.ep[1].max_outstanding]
        info['iframes'] = [mon.ep[0].iframes_sent, mon.ep[1].iframes_sent]
        info['sframes'] = [mon.ep[0].sframes_sent, mon.ep[1].sframes_sent]
        info['unsolicited_final'] = mon.ep[0].unsolicited_final + mon.ep[1].unsolicited_final
        info['polls'] = mon.ep[0].polls_sent + mon.ep[1].polls_sent
        info['fcs_checked'] = mon.counts.get('fcs_checked', 0)
        info['wire_mode'] = mon.channel_mode()
        info['fcs'] = mon.fcs_in_use()
        obs = [outcome, cstate, sstate, core.digest(mon.log), [len(x) for x in got[0]], [len(x) for x in got[1]]]
        # one violation per (check, signature)
        seen = set()
        uniq = []
        for ck, sig, msg in viol:
            k = (ck, core.canon_json(sig))
            if k not in seen:
                seen.add(k)
                uniq.append((ck, sig, msg))
        return {'viol': uniq, 'obs': obs, 'points': sched.points, 'fp': sched.fp, 'info': info}


def is_subsequence(small, big):
    it = iter(big)
    return all(any(x == y for y in it) for x in small)


def classify_delivery(written, got):
    if len(got) < len(written) and is_subsequence(got, written):
        return 'not_delivered'
    if len(got) > len(written) and got[: len(written)] == written:
        return 'extra_sdu'
    if sorted(got) == sorted(written):
        return 'reordered'
    if len(got) == len(written) and [len(x) for x in got] == [len(x) for x in written]:
        return 'corrupted'
    ws = set(written)
    if all(g in ws for g in got) and len(got) > len(set(got)):
        return 'duplicated'
    return 'wrong_sdus'


def run_explore(params, prefix, fp):
    return run_case(params, prefix, fp)


# ---------------------------------------------------------------------------
# enumeration of the spaces
# ---------------------------------------------------------------------------
def ertm_configs(k):
    """Spec pairs E/E with <= k parameters (of mtu/mps/window/fcs on either side) off the library default."""
    dims = []
    for side in (0, 1):
        dims.append(((side, 'mtu'), MTUS))
        dims.append(((side, 'mps'), MPSS))
        dims.append(((side, 'win'), WINS))
        dims.append(((side, 'fcs'), [True]))
    out = []
    for n in range(0, k + 1):
        for chosen in itertools.combinations(range(len(dims)), n):
            for vals in itertools.product(*[dims[i][1] for i in chosen]):
                pair = [spec('E'), spec('E')]
                for i, v in zip(chosen, vals):
                    side, name = dims[i][0]
                    pair[side][name] = v
                out.append(pair)
    return out


def ertm_receiver_grid():
    """k = 2..3 on ONE receiving side: every (mps, window) pair, FCS off/on — the parameters the sender's
    segmentation and window accounting depend on."""
    out = []
    for side in (0, 1):
        for mps in MPSS:
            for win in WINS:
                for fcs in (False, True):
                    pair = [spec('E'), spec('E')]
                    pair[side].update(mps=mps, win=win, fcs=fcs)
                    out.append(pair)
    return out


def basic_configs(k):
    dims = []
    for side in (0, 1):
        dims.append(((side, 'mtu'), MTUS))
        dims.append(((side, 'fcs'), [True]))
    out = []
    for n in range(0, k + 1):
        for chosen in itertools.combinations(range(len(dims)), n):
            for vals in itertools.product(*[dims[i][1] for i in chosen]):
                pair = [spec('B'), spec('B')]
                for i, v in zip(chosen, vals):
                    side, name = dims[i][0]
                    pair[side][name] = v
                out.append(pair)
    return out


def sequences(syms, maxlen):
    for n in range(1, maxlen + 1):
        yield from (list(t) for t in itertools.product(syms, repeat=n))


E_SMALL = [x for x in E_SYMS if x != '65mps+1']  # 7 symbols
E_CORE = ['1', 'mps', 'mps+1', '3mps', 'mtu']  # for length-3 sequences
WRAP_SEQS = [['65mps+1'], ['65mps+1', '1'], ['1', '65mps+1'], ['65mps+1', 'mps+1'], ['mps+1', '65mps+1'], ['65mps+1', '65mps+1']]


def ertm_seqs(maxlen):
    out = [q for q in sequences(E_SMALL, 2)] + WRAP_SEQS
    if maxlen >= 3:
        out += [list(t) for t in itertools.product(E_CORE, repeat=3)]
        out += [['65mps+1', '1', '65mps+1'], ['1', '65mps+1', '1']]
    return out


def data_cases(quick):
    cases = []
    seen = set()

    def add(pair, seq, rev, link='classic', pace='burst', max_frames=400):
        if rev == 'none':
            sdus, echo = [seq, []], False
        elif rev == 'mirror':
            sdus, echo = [seq, seq], False
        elif rev == 'reverse_only':
            sdus, echo = [[], seq], False
        else:
            sdus, echo = [seq, []], True
        p = {'spec': pair, 'sdus': sdus, 'echo': echo, 'link': link, 'pace': pace, 'max_frames': max_frames}
        k = core.canon_json(p)
        if k not in seen:
            seen.add(k)
            cases.append(p)

    revs = ['none', 'mirror', 'echo', 'reverse_only']
    default = [spec('E'), spec('E')]
    # ---- ERTM ----
    lvl1 = ertm_configs(1)
    grid = ertm_receiver_grid()
    if quick:
        for pair in lvl1:
            for seq in ertm_seqs(2):
                for rev in revs[:3]:
                    add(pair, seq, rev)
        for pair in grid[len(grid) // 2 :]:  # the server's receive side; thorough does both
            for seq in ertm_seqs(2):
                add(pair, seq, 'mirror')
        for seq in sequences(E_SMALL, 2):
            add(default, seq, 'mirror', link='le')
            add(default, seq, 'mirror', pace='paced')
            add(default, seq, 'reverse_only')
    else:
        for pair in lvl1 + grid:
            for seq in ertm_seqs(3):
                for rev in revs[:3] if len(seq) <= 2 else ['mirror']:
                    add(pair, seq, rev)
        for pair in ertm_configs(2):
            for seq in ertm_seqs(2):
                for rev in ('mirror', 'echo'):
                    add(pair, seq, rev)
        for pair in lvl1:
            for seq in ertm_seqs(2):
                for rev in ('mirror', 'reverse_only'):
                    add(pair, seq, rev, link='le')
                    add(pair, seq, rev, pace='paced')
        # the largest SDU the length field allows, over small and large MPS
        for mps in MPSS:
            for win in (1, 63):
                pair = [spec('E', mtu=65535, mps=mps, win=win), spec('E', mtu=65535, mps=mps, win=win)]
                for seq in (['mtu'], ['mtu', '1'], ['1', 'mtu']):
                    for rev in ('none', 'mirror'):
                        add(pair, seq, rev, max_frames=12000)
    # ---- Basic ----
    for pair in basic_configs(1 if quick else 2):
        for seq in sequences(B_SYMS, 2 if quick else 3):
            for rev in revs[:3]:
                add(pair, seq, rev)
    for seq in sequences(B_SYMS, 2):
        for rev in ('mirror', 'reverse_only'):
            add([spec('B'), spec('B')], seq, rev, link='le')
            add([spec('B'), spec('B')], seq, rev, pace='paced')
    return cases


def setup_cases(quick):
    cases = []
    variants = [
        {},
        {'mtu': 48},
        {'mtu': 65535},
        {'mps': 23},
        {'win': 1},
        {'mtu': 48, 'mps': 23, 'win': 1},
    ]
    for m0 in 'BE':
        for m1 in 'BE':
            for f0 in (False, True):
                for f1 in (False, True):
                    for v0 in variants:
                        for v1 in variants if not quick else [variants[0], v0]:
                            for link in ('classic', 'le'):
                                a = spec(m0, fcs=f0)
                                a.update(v0)
                                b = spec(m1, fcs=f1)
                                b.update(v1)
                                p = {'spec': [a, b], 'link': link}
                                if p not in cases:
                                    cases.append(p)
    return cases


# ---------------------------------------------------------------------------
# workers
# ---------------------------------------------------------------------------
def record(st, p, res, sub):
    if res.get('skip'):
        st.count('outside_space_skipped')
        return
    info = res['info']
    key = dict(p)
    st.case(key, None)
    st.add('setup_outcomes', tuple(info.get('setup', ())) + (info.get('outcome'),))
    st.count('frames_decoded', info.get('frames', 0))
    st.count('iframes', sum(info.get('iframes', [0])))
    st.count('sframes', sum(info.get('sframes', [0])))
    st.count('fcs_verified', info.get('fcs_checked', 0))
    st.count('iframes_or_sframes_with_unsolicited_F', info.get('unsolicited_final', 0))
    st.count('polls_seen', info.get('polls', 0))
    for m in info.get('max_outstanding', []):
        st.add('max_outstanding_values', m)
    if info.get('iframes') and max(info['iframes']) > 64:
        st.count('cases_with_txseq_wrap')
    if len(st.samples) < 2:
        st.samples.append({'case': p, 'info': info})
    for ck, sig, msg in res['viol']:
        st.violation(ck, sig, msg, {'p': p, 'prefix': None})


def w_cases(arg):
    sub, cases, seed = arg
    st = core.Stats(sub)
    for p in cases:
        p = dict(p, seed=seed)
        res = run_case(p)
        record(st, p, res, sub)
    return st


def w_timer(arg):
    """One ERTM data case; the clock jumps past the retransmission time-out before message k, for all k."""
    p, seed = arg
    st = core.Stats('timer')
    p = dict(p, seed=seed)
    base = run_case(p)
    record(st, p, base, 'timer')
    n = base['info'].get('msgs', 0)
    for k in range(0, n + 1):
        q = dict(p, jump=[k, RTO + 0.001])
        res = run_case(q)
        if res['info'].get('jump_unused'):
            continue
        record(st, q, res, 'timer')
        st.add('timer_outcomes', core.digest(res['obs']))
    return st


def poll_cycle_cases():
    """ERTM, windows 1..3, one SDU of window+2 segments from the client (a backlog that outlasts the window)."""
    return [{'spec': [spec('E', mps=23, win=w), spec('E', mps=23, win=w)], 'sdus': [['win+2 segs'], []]} for w in WINS]


def w_timer_write(arg):
    """Clock jump past the retransmission time-out before message k (kept only when it starts a poll cycle: the sender
    polls), then one more application write of {1, mps} octets by either side before every later message index."""
    p, k, seed = arg
    st = core.Stats('timer_write')
    q = dict(p, seed=seed, jump=[k, RTO + 0.001])
    base = run_case(q)
    if base['info'].get('jump_unused') or not base['info'].get('polls'):
        st.count('jump_indices_without_poll')
        return st
    st.count('jump_indices_with_poll')
    n = base['info'].get('msgs', 0)
    for j in range(k + 1, n + 1):
        for side in (0, 1):
            for sym in ('1', 'mps'):
                r = dict(q, inject=[j, side, sym])
                res = run_case(r)
                if res['info'].get('inject_unused'):
                    continue
                record(st, r, res, 'timer_write')
                st.add('timer_write_outcomes', core.digest(res['obs']))
    return st


SCHED_CASES = [
    # (label, params)
    ('e_w1', {'spec': [spec('E', mps=23, win=1), spec('E', mps=23, win=1)], 'sdus': [['mps+1'], ['mps+1']]}),
    ('e_w2', {'spec': [spec('E', mps=23, win=2), spec('E', mps=24, win=2)], 'sdus': [['3mps'], ['1']]}),
    ('e_echo', {'spec': [spec('E', mps=23, win=3), spec('E', mps=23, win=2, fcs=True)], 'sdus': [['mps+1', '1'], []], 'echo': True}),
    ('e_w63', {'spec': [spec('E', mps=24), spec('E', mps=24)], 'sdus': [['3mps', '1'], ['1', '1']]}),
    ('b', {'spec': [spec('B', mtu=48), spec('B', mtu=48, fcs=True)], 'sdus': [['1', '48'], ['48', '0']]}),
]

TIMER_CASES = [
    {'spec': [spec('E', mps=23, win=1), spec('E', mps=23, win=1)], 'sdus': [['3mps'], []]},
    {'spec': [spec('E', mps=23, win=2), spec('E', mps=23, win=2)], 'sdus': [['3mps', '1'], []]},
    {'spec': [spec('E'), spec('E')], 'sdus': [['1', '1'], []]},
    {'spec': [spec('E'), spec('E')], 'sdus': [['1'], ['1']]},
    {'spec': [spec('E', mps=24, win=3, fcs=True), spec('E', mps=24, win=3)], 'sdus': [['3mps'], ['3mps']]},
    {'spec': [spec('E', mps=23), spec('E', mps=23)], 'sdus': [['mps+1'], []], 'echo': True},
    {'spec': [spec('E'), spec('E')], 'sdus': [['1', '1'], []], 'pace': 'paced'},
]


def setup_sched_cases(quick):
    out = []
    for m0 in 'BE':
        for m1 in 'BE':
            for f0, f1 in ((False, False), (True, False), (False, True)):
                if quick and (f0 or f1) and m0 != m1:
                    continue
                out.append((f'{m0}{m1}{int(f0)}{int(f1)}', {'spec': [spec(m0, fcs=f0), spec(m1, fcs=f1)], 'explore': 'setup'}))
    return out


# ---------------------------------------------------------------------------
def run(ctx: core.Context) -> int:
    quick = ctx.quick
    only = getattr(ctx, 'only', None)
    seed = ctx.seed

    def want(name):
        return not only or name in only

    def permute(items):
        # VERIF_SEED only rotates the visiting order
        if not items:
            return items
        r = (seed * 7919) % len(items)
        return items[r:] + items[:r]

    if want('setup'):
        cases = permute(setup_cases(quick))
        for r in core.pmap(w_cases, [('setup', part, seed) for part in core.split(cases, ctx.jobs * 4)], ctx.jobs):
            ctx.sub('setup').merge(r)
        st = ctx.sub('setup_sched')
        bound = 1 if quick else 2
        for label, params in setup_sched_cases(quick):
            explore.explore(run_explore, dict(params, seed=seed), bound, ctx.jobs, st, max_runs=4000 if quick else 20000, label=f'{label}:')
        ctx.log('setup:', ctx.sub('setup').summary())
        ctx.log('setup_sched:', st.summary())
    if want('data'):
        cases = permute(data_cases(quick))
        ctx.log(f'data: {len(cases)} cases')
        nb = 1 if quick else 8
        for bi, batch in enumerate(core.split(cases, nb)):
            for r in core.pmap(w_cases, [('data', part, seed) for part in core.split(batch, ctx.jobs * 4)], ctx.jobs):
                ctx.sub('data').merge(r)
            if nb > 1:
                ctx.log(f'data: batch {bi + 1}/{nb} done, {ctx.sub("data").evaluations} evaluated, {len(ctx.sub("data").violations)} violation signatures')
        ctx.log('data:', ctx.sub('data').summary())
    if want('crossed'):
        for r in core.pmap(w_crossed, core.split(crossed_cases(quick), ctx.jobs), ctx.jobs):
            ctx.sub('crossed').merge(r)
        ctx.log('crossed:', ctx.sub('crossed').summary())
    if want('sched'):
        st = ctx.sub('sched')
        bound = 1 if quick else 2
        for label, params in SCHED_CASES:
            explore.explore(
                run_explore, dict(params, explore='data', seed=seed), bound, ctx.jobs, st, max_runs=3000 if quick else 20000, label=f'{label}:'
            )
        ctx.log('sched:', st.summary())
    if want('timer'):
        tc = TIMER_CASES if not quick else TIMER_CASES[:5]
        for r in core.pmap(w_timer, [(p, seed) for p in tc], ctx.jobs):
            ctx.sub('timer').merge(r)
        ctx.log('timer:', ctx.sub('timer').summary())
        items = []
        for p in poll_cycle_cases():
            n = run_case(dict(p, seed=seed))['info'].get('msgs', 0)
            items += [(p, k, seed) for k in range(0, n + 1)]
        for r in core.pmap(w_timer_write, items, ctx.jobs):
            ctx.sub('timer_write').merge(r)
        ctx.log('timer_write:', ctx.sub('timer_write').summary())
        if not quick:
            # time-out at message k combined with one order-preserving delay anywhere in the data phase
            st = ctx.sub('timer_sched')
            for ci in (0, 3):
                p = dict(TIMER_CASES[ci], seed=seed)
                n = run_case(p)['info'].get('msgs', 0)
                for k in range(0, n + 1):
                    explore.explore(
                        run_explore, dict(p, jump=[k, RTO + 0.001], explore='data'), 1, ctx.jobs, st, max_runs=2000, label=f't{ci}k{k}:'
                    )
            bounds = [st.counters.pop(k) for k in list(st.counters) if k.endswith(':completed_bound') and k.startswith('t')]
            st.counters['jump_indices_explored'] = len(bounds)
            st.counters['min_completed_bound'] = min(bounds) if bounds else 0
            ctx.log('timer_sched:', st.summary())
    return core.finish(
        ctx,
        LEVEL,
        rule=(
            'setup: spec pairs (4 mode pairs x FCS per side x MTU/MPS/window variants x classic/LE link), default schedule, plus all '
            'order-preserving delivery delays with <= d deviations for 4 mode pairs x FCS; data: ERTM spec pairs with <= k of '
            '{mtu, mps, window, fcs} x 2 sides off the library default, plus the full (mps, window, fcs) grid of one receiver, x SDU '
            'size sequences over {1, mps-1, mps, mps+1, 3mps, 65mps+1, mtu, 0} (resolved against the receiver) x {one way, both '
            'ways, echo sink, reverse only}; Basic likewise over {1, 0, 47, 48, mtu-1, mtu}; distinct = the case parameters. '
            'sched: 5 data cases x all delays with <= d deviations, distinct = (prefix, choice fingerprints). timer: 7 ERTM cases x '
            'clock jump past the retransmission time-out before every message index (thorough: 2 of them additionally x all delays '
            'with <= 1 deviation for every jump index). timer_write: windows 1..3 x backlog of window+2 segments x every jump index that '
            'makes the sender poll x one extra write of {1, mps} octets by either side before every later message index.'
        ),
        assumptions=[
            'both ends are bumble; a peer that polls (P=1) or rejects (REJ/SREJ) is never produced by bumble and so never met',
            'the link loses nothing, so retransmission proper is not exercised: only delays (including delays longer than the timers)',
            'SDUs are at most the MTU the receiver advertised; cases above a frame budget (400, 12000 for the 65535-octet cases) are outside the space',
            'FCS is taken to be in use when either Configure Request carries FCS=1 (bumble never sends FCS=0)',
            'Basic mode with FCS requested (not a configuration the specification defines): SDUs are limited to 65533 octets so that the B-frame Length field can hold SDU + FCS',
        ],
    )


def replay(v: core.Violation):
    c = v.case
    if 'crossed' in c:
        res = run_crossed(c['crossed'])
        return [m for ck, sig, m in res['viol'] if ck == v.check and core.canon_json(dict(sig, check=ck)) == v.key]
    if 'params' in c:  # recorded by explore.explore
        res = run_case(c['params'], c.get('prefix') or {}, None)
    else:
        res = run_case(c['p'], None, None)
    return [m for ck, sig, m in res['viol'] if ck == v.check and core.canon_json(dict(sig, check=ck)) == v.key]


# ---------------------------------------------------------------------------
# crossed: both devices open a classic channel towards each other at the same time, so that the channel a device opened
# and the one it accepted have crossed identifiers (local 0x40 / peer 0x41 and local 0x41 / peer 0x40).  One is closed
# (by either end) or none; the survivor then carries SDUs in both directions: closing a channel must not take another
# channel's table entry with it.
# ---------------------------------------------------------------------------
def crossed_cases(quick):
    out = []
    for link in ('classic', 'le'):
        for mode in ('B', 'E'):
            for close in ('opened_by_0', 'opened_by_1', None):
                for closer in ((0, 1) if close else (None,)):
                    out.append({'link': link, 'mode': mode, 'close': close, 'closer': closer})
            # the frame check sequence covers the header, i.e. the identifier the frame travels under: with crossed
            # identifiers the two ends of a channel use different ones
            out.append({'link': link, 'mode': mode, 'close': None, 'closer': None, 'fcs': True})
    return out


def run_crossed(case):
    from ..harness.devices import World

    viol = []
    sig = {'phase': 'crossed_identifiers', 'mode': case['mode'], 'link': case['link'], 'closed': case['close'] or 'none'}
    s = spec(mode=case['mode'], mtu=256, mps=48, win=3, fcs=bool(case.get('fcs')))
    if case.get('fcs'):
        sig['fcs'] = True
    psm = 0x1001
    classic = case['link'] == 'classic'
    with World(2, classic=classic, le=not classic) as w:
        w.power_on()
        conns = list(w.connect_classic() if classic else w.connect_le())
        accepted = {0: [], 1: []}
        for d in (0, 1):
            w.devices[d].create_l2cap_server(spec=mk_spec(s, psm), handler=accepted[d].append)
        tasks = [w.loop.create_task(conns[d].create_l2cap_channel(mk_spec(s, psm))) for d in (0, 1)]
        w.loop.run_until(lambda: all(x.done() for x in tasks), horizon=w.loop.time() + 30.0, max_steps=400000)
        w.loop.run_quiescent(max_steps=400000)
        if not all(x.done() for x in tasks) or any(x.exception() for x in tasks) or not accepted[0] or not accepted[1]:
            return {'viol': [('crossed_setup', dict(sig, what='simultaneous_open_failed'), f'{case}: simultaneous opens: {[repr(x.exception()) if x.done() else "pending" for x in tasks]}, accepted {[len(accepted[0]), len(accepted[1])]}')], 'crossed': False}
        ch = {'opened_by_0': {0: tasks[0].result(), 1: accepted[1][0]}, 'opened_by_1': {1: tasks[1].result(), 0: accepted[0][0]}}
        crossed = all(c[0].source_cid != c[0].destination_cid for c in ch.values())
        if case['close']:
            victim = ch.pop(case['close'])
            dt = w.loop.create_task(victim[case['closer']].disconnect())
            w.loop.run_until(dt.done, horizon=w.loop.time() + 30.0, max_steps=400000)
            w.loop.run_quiescent(max_steps=400000)
            if not dt.done() or dt.exception():
                viol.append(('crossed_close', dict(sig, what='close_failed'), f'{case}: closing {case["close"]} by device {case["closer"]}: {dt.exception()!r}' if dt.done() else f'{case}: disconnect() never completed'))
        for name, ends in ch.items():
            got = {0: [], 1: []}
            ends[0].sink = lambda sdu, g=got[0]: g.append(bytes(sdu))
            ends[1].sink = lambda sdu, g=got[1]: g.append(bytes(sdu))
            sent = {0: [], 1: []}
            for i in range(7):
                for d in (0, 1):
                    data = bytes(((17 * i + 5 * d + j + (name == 'opened_by_1')) & 0xFF) for j in range(1 + 40 * i))
                    sent[d].append(data)
                    ends[d].write(data)
                w.loop.run_quiescent(max_steps=400000)
            w.loop.advance(10.0, max_steps=400000)
            w.loop.run_quiescent(max_steps=400000)
            for d in (0, 1):
                if got[1 - d] != sent[d]:
                    lsig = dict(sig, survivor=name, dir='opener_to_acceptor' if name == f'opened_by_{d}' else 'acceptor_to_opener')
                    viol.append(('crossed_sdus', dict(lsig, what='sdus_differ'), f'{case}: channel {name} (device {d} local {ends[d].source_cid:#x} / peer {ends[d].destination_cid:#x}): {len(got[1 - d])} of {len(sent[d])} SDUs arrived at the peer'))
        for msg, exc in w.loop.collect_exceptions():
            viol.append(('exception', dict(sig, what='exception', exc=exc.split('(')[0]), f'{msg}: {exc}'))
    return {'viol': viol, 'crossed': crossed}


def w_crossed(cases):
    st = core.Stats('crossed')
    for case in cases:
        r = run_crossed(case)
        st.case(case, sample={'case': case, 'identifiers_crossed': r['crossed']})
        if r['crossed']:
            st.count('runs_with_crossed_identifiers')
        for check, sg, msg in r['viol']:
            st.violation(check, sg, msg, {'crossed': case})
    return st
