"""C03 — one HCI command outstanding; every command answered exactly once;
accepted procedures are concluded.

Three sub-checks on real Host <-> real Controller pairs on the virtual loop:
  reply      : every registered command class and unregistered opcodes, several
               parameter fillings, in several link situations -> exactly one
               Command Complete/Status with that opcode, caller completes, a later
               command is still answered.
  serialise  : 2-3 concurrent callers x all order-preserving delivery delays up to
               the deviation bound -> never two commands outstanding, each caller
               gets its own opcode.
  procedure  : procedures the controller accepts as pending x link situations ->
               exactly one completion event.
"""
from __future__ import annotations

import itertools
import collections
import struct

from .. import core, explore
from ..harness.devices import World
from ..vloop import Hang

LEVEL = 'exploration'


# ---------------------------------------------------------------------------
# taps
# ---------------------------------------------------------------------------
class Tap:
    """Logs HCI packets crossing the host<->controller boundary of device i:
    commands at the moment the host hands them to its sink, events at the moment
    they are delivered to Host.on_packet."""

    def __init__(self, world, i=0):
        self.w = world
        self.i = i
        self.log = []  # ('cmd', opcode) | ('evt', code, bytes)
        self.outstanding_max = 0
        self.sent = 0
        self.answered = 0
        host = world.hosts[i]
        orig_send = host.send_hci_packet

        def send(packet):
            b = bytes(packet)
            if b[0] == 0x01:
                op = struct.unpack_from('<H', b, 1)[0]
                self.log.append(('cmd', op))
                self.sent += 1
                self.outstanding_max = max(self.outstanding_max, self.sent - self.answered)
            orig_send(packet)

        host.send_hci_packet = send
        # events are logged where the host receives them (Host.on_packet), however the controller schedules the delivery
        orig_on_packet = host.on_packet

        def on_packet(_host, packet):
            b = bytes(packet)
            if b and b[0] == 0x04 and len(b) >= 2:
                self.log.append(('evt', b[1], b))
                if b[1] == 0x0E and len(b) >= 6:
                    if b[3] > 0 and struct.unpack_from('<H', b, 4)[0] != 0:
                        self.answered += 1
                elif b[1] == 0x0F and len(b) >= 7:
                    if b[4] > 0:
                        self.answered += 1
            return orig_on_packet(packet)

        # (a bound method of the host called on_packet, so that the loop still recognises the delivery as a message)
        import types

        host.on_packet = types.MethodType(on_packet, host)

    def responses(self, opcode):
        out = []
        for e in self.log:
            if e[0] != 'evt':
                continue
            b = e[2]
            if e[1] == 0x0E and len(b) >= 6 and struct.unpack_from('<H', b, 4)[0] == opcode:
                out.append(('CC', b[3]))
            elif e[1] == 0x0F and len(b) >= 7 and struct.unpack_from('<H', b, 5)[0] == opcode:
                out.append(('CS', b[3]))
        return out

    def events(self, code, sub=None):
        out = []
        for e in self.log:
            if e[0] == 'evt' and e[1] == code:
                if sub is None or (len(e[2]) > 3 and e[2][3] == sub):
                    out.append(e[2])
        return out


# ---------------------------------------------------------------------------
# sub-check 1: reply totality
# ---------------------------------------------------------------------------
SITUATIONS = ['fresh', 'le_connected', 'classic_connected', 'no_link']
HANDLE_WORDS = ('handle',)


def command_catalogue():
    """[(opcode, name, cls-or-None)] — every registered class + unregistered opcodes."""
    from bumble import hci

    # vendor command classes register themselves when these modules are imported (a Host does so at reset)
    import bumble.drivers.intel  # noqa
    import bumble.drivers.rtk  # noqa
    import bumble.vendor.android.hci  # noqa
    import bumble.vendor.zephyr.hci  # noqa

    out = []
    for op, cls in sorted(hci.HCI_Command.command_classes.items()):
        out.append((op, cls.__name__, cls))
    registered = set(hci.HCI_Command.command_classes)
    # unregistered opcodes: for every OGF (incl. vendor 0x3F) OCF in a boundary set
    for ogf in (0x00, 0x01, 0x02, 0x03, 0x04, 0x05, 0x06, 0x08, 0x09, 0x3E, 0x3F):
        for ocf in (0x000, 0x001, 0x0FF, 0x3FF):
            op = (ogf << 10) | ocf
            if op not in registered and op != 0:
                out.append((op, 'unregistered', None))
    # names known to bumble without a class
    for op, name in sorted(hci.HCI_Command.command_names.items()):
        if op not in registered and (op, 'unregistered', None) not in out:
            out.append((op, 'unregistered', None))
    return out


def min_params(cls):
    """Smallest all-zero parameter block the class parses."""
    for k in range(0, 256):
        try:
            obj = cls.from_parameters(bytes(k))
            if len(bytes(rebuild(cls, obj))) - 4 == k:
                return k
        except Exception:
            continue
    return None


def field_names(cls):
    names = []

    def walk(fields):
        for f in fields:
            if isinstance(f, list):
                walk(f)
            elif isinstance(f, tuple) and f and isinstance(f[0], str):
                names.append(f[0])

    walk(cls.fields or ())
    return names


def rebuild(cls, obj, **override):
    kw = {}
    for n in field_names(cls):
        if hasattr(obj, n):
            kw[n] = getattr(obj, n)
    kw.update(override)
    return cls(**kw)


def variants(op, cls, situation, w, quick):
    """Yield (label, packet_bytes)."""
    from bumble import hci

    if cls is None:
        for n in (0, 1, 255):
            yield (f'len{n}', struct.pack('<BHB', 1, op, n) + bytes(n))
        return
    k = min_params(cls)
    if k is None:
        yield ('UNBUILDABLE', None)
        return
    base = bytes(k)
    yield ('zeros', struct.pack('<BHB', 1, op, k) + base)
    seen = {base}
    # every byte position set to 0x01 / 0xFF, kept only when still well-formed (re-parses and
    # re-serialises to itself), extended with zero bytes when a count/length byte asks for more
    values = (0x01, 0xFF) if not quick else (0x01,)
    for i in range(k):
        for v in values:
            for extra in (0, 1, 2, 4, 6, 7, 8, 16, 31, 255 - k):
                if k + extra > 255:
                    continue
                p = bytearray(k + extra)
                p[i] = v
                p = bytes(p)
                try:
                    obj = cls.from_parameters(p)
                    if bytes(rebuild(cls, obj))[4:] != p:
                        continue
                except Exception:
                    continue
                if p not in seen:
                    seen.add(p)
                    yield (f'b{i}={v:#x}+{extra}', struct.pack('<BHB', 1, op, len(p)) + p)
                break
    # handle / address fields pointed at live objects
    names = field_names(cls)
    try:
        obj0 = cls.from_parameters(base)
    except Exception:
        return
    live_handles = []
    peer_addr = None
    if situation != 'fresh':
        c = w.controllers[0]
        for conn in list(c.le_connections.values()) + list(c.classic_connections.values()):
            live_handles.append(conn.handle)
            peer_addr = conn.peer_address
    for n in names:
        if any(wd in n for wd in HANDLE_WORDS) and isinstance(getattr(obj0, n, None), int):
            for hv in live_handles + [0x0EFF, 0x0002]:
                try:
                    pkt = bytes(rebuild(cls, obj0, **{n: hv}))
                    if pkt[4:] not in seen:
                        seen.add(pkt[4:])
                        yield (f'{n}={hv:#x}', pkt)
                except Exception:
                    pass
        if isinstance(getattr(obj0, n, None), hci.Address):
            addrs = [hci.Address('F1:F1:F1:F1:F1:F1', hci.Address.RANDOM_DEVICE_ADDRESS), hci.Address('F1:F1:F1:F1:F1:F1', hci.Address.PUBLIC_DEVICE_ADDRESS)]
            if peer_addr is not None:
                addrs.append(peer_addr)
            for a in addrs:
                try:
                    pkt = bytes(rebuild(cls, obj0, **{n: a}))
                    if pkt[4:] not in seen:
                        seen.add(pkt[4:])
                        yield (f'{n}={a}', pkt)
                except Exception:
                    pass


def make_world(situation):
    if situation == 'no_link':
        # a controller that is not attached to any link (as most of bumble's own unit tests use it)
        w = World(2)
        w.__enter__()
        for c in w.controllers:
            c.link = None
        w.power_on()
    elif situation == 'fresh':
        w = World(2)
        w.__enter__()
        w.power_on()
    elif situation == 'le_connected':
        w = World(2)
        w.__enter__()
        w.power_on()
        w.connect_le()
        # the peer's application accepts every CIS it is asked for
        peer = w.devices[1]
        peer.on('cis_request', lambda cis_link: w.loop.create_task(peer.accept_cis_request(cis_link)))
    else:
        w = World(2, classic=True)
        w.__enter__()
        w.power_on()
        w.connect_classic()
    return w


def run_reply_case(situation, op, pkt):
    """Returns (verdict, detail) — verdict None when the property held."""
    from bumble import hci

    w = make_world(situation)
    try:
        tap = Tap(w, 0)
        host = w.hosts[0]
        cmd = hci.HCI_Command(pkt[4:], op_code=op)
        try:
            hci.HCI_Packet.from_bytes(pkt)
        except Exception:
            return ('skip', 'parameter block is malformed for the class registered for this opcode (belongs to C17)', 'malformed')
        task = w.loop.create_task(host.send_command(cmd))
        try:
            w.loop.run_quiescent(max_steps=20000)
        except Exception as e:
            return ('harness', f'{type(e).__name__}: {e}')
        excs = [m for m in w.loop.collect_exceptions()]
        rs = tap.responses(op)
        if len(rs) == 0:
            why = f' (controller raised: {excs[0][1][:120]})' if excs else ''
            kind = 'raised' if excs else 'silent'
            return ('unanswered', f'no Command Complete/Status for opcode {op:#06x}{why}', kind)
        if len(rs) > 1:
            return ('answered_twice', f'{len(rs)} responses for opcode {op:#06x}: {rs}', 'twice')
        if not task.done():
            return ('caller_pending', f'send_command({op:#06x}) still pending although a response was delivered', 'pending')
        task.exception()
        # later commands are not blocked
        t2 = w.loop.create_task(host.send_command(hci.HCI_Read_BD_ADDR_Command()))
        w.loop.run_quiescent(max_steps=20000)
        w.loop.collect_exceptions()
        if not t2.done():
            t2.cancel()
            return ('blocks_later', f'a Read_BD_ADDR issued after opcode {op:#06x} was never answered', 'blocked')
        t2.exception()
        return None
    finally:
        w.__exit__()


def w_reply(arg):
    situation, entries, quick = arg
    st = core.Stats('reply')
    for op, name, cls in entries:
        w = make_world(situation)
        try:
            vs = list(variants(op, cls, situation, w, quick))
        finally:
            w.__exit__()
        st.add('opcodes', op)
        for label, pkt in vs:
            if pkt is None:
                st.add('unbuildable_classes', name)
                continue
            st.case((situation, op, pkt.hex()), None)
            r = run_reply_case(situation, op, pkt)
            if r is None:
                continue
            if r[0] == 'skip':
                st.count('skipped_malformed')
                continue
            if r[0] == 'harness':
                raise core.HarnessError(f'{name} {label}: {r[1]}')
            sig = {'opcode': f'{op:#06x}', 'kind': r[2]}
            st.violation('reply_' + r[0], sig, f'[{situation}] {name} ({label}): {r[1]}', {'situation': situation, 'op': op, 'pkt': pkt.hex()})
        if len(st.samples) < 2 and vs and vs[0][1]:
            st.samples.append({'situation': situation, 'command': name, 'opcode': f'{op:#06x}', 'variants': [l for l, _ in vs][:8]})
    return st


# ---------------------------------------------------------------------------
# sub-check 2: serialisation and routing under schedules
# ---------------------------------------------------------------------------
def script_commands():
    from bumble import hci

    return {
        'sync': lambda: hci.HCI_Read_BD_ADDR_Command(),
        'sync2': lambda: hci.HCI_Read_Local_Version_Information_Command(),
        'async': lambda: hci.HCI_LE_Create_Connection_Command(
            le_scan_interval=96,
            le_scan_window=96,
            initiator_filter_policy=0,
            peer_address_type=1,
            peer_address=hci.Address('F1:F1:F1:F1:F1:F1'),
            own_address_type=1,
            connection_interval_min=12,
            connection_interval_max=24,
            max_latency=0,
            supervision_timeout=72,
            min_ce_length=0,
            max_ce_length=0,
        ),
        'unknown': lambda: hci.HCI_Command(b'', op_code=0xFC77),
        'async_nohandler': lambda: hci.HCI_Command(b'\x00' * 3, op_code=hci.HCI_READ_REMOTE_VERSION_INFORMATION_COMMAND),
    }


SCRIPTS = [
    # (callers on host 0, callers on host 1, connect?)  -- callers are lists of command names
    ([['sync'], ['sync']], [], False),
    ([['sync'], ['async']], [], False),
    ([['sync', 'sync2'], ['sync'], ['unknown']], [], False),
    ([['sync', 'async'], ['sync2', 'sync'], ['async_nohandler']], [['sync']], False),
    # an LE connection is being established (advertiser present) while callers on both hosts issue commands;
    # the Device objects issue their own commands when the connection events arrive
    ([['sync', 'sync2', 'sync']], [['sync', 'sync2']], True),
    ([['sync'], ['unknown', 'sync2']], [['sync'], ['sync2']], True),
]


def run_serialise(params, prefix, fp):
    callers0, callers1, connect = SCRIPTS[params['script']]
    cmds = script_commands()
    with World(2) as w:
        w.power_on()
        if connect:
            w.run(w.devices[1].start_advertising(advertising_interval_min=500.0, advertising_interval_max=500.0))
            w.settle()
        taps = [Tap(w, 0), Tap(w, 1)]
        sched = explore.Sched(prefix, hold=True, expect_fp=fp)
        w.loop.scheduler = sched
        results = []

        async def caller(h, i, names):
            for n in names:
                c = cmds[n]()
                r = await w.hosts[h].send_command(c)
                results.append((h, i, c.op_code, r.command_opcode))

        tasks = []
        if connect:
            tasks.append(w.loop.create_task(w.devices[0].connect(w.devices[1].random_address)))
        for h, callers in ((0, callers0), (1, callers1)):
            for i, names in enumerate(callers):
                tasks.append(w.loop.create_task(caller(h, i, names)))
        sched.active = True
        viol = []
        w.loop.run_until(lambda: all(t.done() for t in tasks), horizon=w.loop.time() + 3.0, max_steps=50000)
        w.loop.run_quiescent(max_steps=50000)
        sched.active = False
        w.loop.collect_exceptions()
        for h, tap in enumerate(taps):
            if tap.outstanding_max > 1:
                viol.append(('serial_two_outstanding', {'kind': 'two_outstanding'}, f'host {h}: {tap.outstanding_max} commands outstanding at once: {fmt_log(tap.log)}'))
            # every command sent got exactly one response, in order
            seq = [e for e in tap.log if e[0] == 'cmd' or (e[0] == 'evt' and e[1] in (0x0E, 0x0F))]
            pending = None
            for e in seq:
                if e[0] == 'cmd':
                    pending = e[1]
                else:
                    b = e[2]
                    op = struct.unpack_from('<H', b, 4 if e[1] == 0x0E else 5)[0]
                    if op == 0:
                        continue
                    if pending is None or op != pending:
                        viol.append(('serial_unexpected_response', {'kind': 'unexpected_response'}, f'host {h}: response for {op:#06x} while {pending and hex(pending)} was outstanding: {fmt_log(tap.log)}'))
                        break
                    pending = None
        for h, i, own, got in results:
            if own != got:
                viol.append(('serial_misrouted', {'kind': 'misrouted'}, f'host {h} caller {i} sent {own:#06x} and was handed the response for {got:#06x}'))
        pend = [i for i, t in enumerate(tasks) if not t.done()]
        if pend:
            viol.append(('serial_caller_pending', {'kind': 'caller_pending', 'script': params['script']}, f'tasks {pend} never completed: {fmt_log(taps[0].log)} | {fmt_log(taps[1].log)}'))
        for t in tasks:
            if t.done() and not t.cancelled() and t.exception():
                viol.append(('serial_caller_error', {'kind': 'caller_error', 'script': params['script']}, f'caller raised {t.exception()!r}'))
        obs = [fmt_log(taps[0].log), fmt_log(taps[1].log), sorted(results)]
        return {'points': sched.points, 'fp': sched.fp, 'obs': obs, 'viol': viol}


def fmt_log(log):
    out = []
    for e in log:
        if e[0] == 'cmd':
            out.append(f'>{e[1]:04x}')
        else:
            b = e[2]
            if e[1] == 0x0E and len(b) >= 6:
                out.append('<CC%04x' % struct.unpack_from('<H', b, 4)[0])
            elif e[1] == 0x0F and len(b) >= 7:
                out.append('<CS%04x' % struct.unpack_from('<H', b, 5)[0])
            else:
                out.append(f'<ev{e[1]:02x}')
    return ' '.join(out)


# ---------------------------------------------------------------------------
def run(ctx: core.Context) -> int:
    quick = ctx.quick
    only = getattr(ctx, 'only', None)
    if not only or 'reply' in only:
        cat = command_catalogue()
        items = []
        for sit in SITUATIONS:
            for part in core.split(cat, ctx.jobs * 2):
                items.append((sit, part, quick))
        for r in core.pmap(w_reply, items, ctx.jobs):
            ctx.sub('reply').merge(r)
        ctx.log('reply:', ctx.sub('reply').summary())
    if not only or 'seq' in only:
        for r in core.pmap(w_seq, seq_items(quick, ctx.jobs), ctx.jobs):
            ctx.sub('reply_seq').merge(r)
        ctx.log('reply_seq:', ctx.sub('reply_seq').summary())
    if not only or 'serialise' in only:
        st = ctx.sub('serialise')
        for si in range(len(SCRIPTS)):
            explore.explore(run_serialise, {'script': si}, 1 if quick else 3, ctx.jobs, st, label=f's{si}:')
        ctx.log('serialise:', st.summary())
    if not only or 'overlap' in only:
        st = ctx.sub('overlap')
        for si in range(len(OVERLAP_SCRIPTS)):
            explore.explore(run_overlap, {'script': si}, 1 if quick else 2, ctx.jobs, st, label=f'o{si}:')
        ctx.log('overlap:', st.summary())
    if not only or 'cancel' in only:
        for r in core.pmap(w_cancel, [0, 1, 2], ctx.jobs):
            ctx.sub('cancel_queued').merge(r)
        ctx.log('cancel_queued:', ctx.sub('cancel_queued').summary())
    if not only or 'noop' in only:
        items = [(si, kind, count) for si in range(3) for kind in ('cc', 'cs') for count in (1, 2)]
        for r in core.pmap(w_noop, items, ctx.jobs):
            ctx.sub('noop_events').merge(r)
        ctx.log('noop_events:', ctx.sub('noop_events').summary())
    if not only or 'procedure' in only:
        items = [(p, s, f) for p in PROCS for s in PROC_SITUATIONS[p] for f in [None] + FAULTS]
        for r in core.pmap(w_proc, items, ctx.jobs):
            ctx.sub('procedure').merge(r)
        ctx.log('procedure:', ctx.sub('procedure').summary())
    return core.finish(
        ctx,
        LEVEL,
        rule=(
            'reply: every registered HCI command class (parameter blocks: minimal all-zero block, every byte position set to '
            '0x01/0xFF when still well-formed, handle fields pointed at live/dead handles, address fields at the peer) and '
            'unregistered opcodes in every OGF, sent by a real Host to a real Controller in 3 link situations; distinct = '
            '(situation, packet bytes). serialise: 8 scripts of 2-3 concurrent callers, all order-preserving delivery delays '
            'with <= d deviations, distinct = (schedule prefix, choice fingerprints). reply_seq: every sequence of <= 3 commands of six stateful families (extended advertising sets with fragmented data, legacy advertising/scanning, filter/resolving lists, CIG/CIS, remote requests on classic and LE connections) sent to one controller. overlap: 10 scripts of 2-3 remote requests in flight at the same time (one host, two hosts, two hosts asking a third device), same schedule space. cancel_queued: a caller still queued behind the outstanding command is cancelled before every loop step. '
        ),
        assumptions=[
            "only bumble's virtual controller is in scope",
            'commands are well-formed for their class (malformed parameter blocks belong to C17)',
        ],
    )


def replay(v: core.Violation):
    c = v.case
    if v.check.startswith('seq_'):
        return [m for ck, _, m in run_seq_case(c['fam'], tuple(c['labels']), c.get('mode', 'step')) if ck == v.check]
    if v.check.startswith('reply_'):
        r = run_reply_case(c['situation'], c['op'], bytes.fromhex(c['pkt']))
        return [r[1]] if r else []
    if v.check.startswith('noop_'):
        r = run_noop_case(c['script'], c['kind'], c['count'], c['at'], c.get('zc'))
        return [m for ck, _, m in r['viol'] if ck == v.check]
    if v.check.startswith('cancel_'):
        r = run_cancel_case(c['script'], c['at'])
        return [m for ck, _, m in r['viol'] if ck == v.check]
    if v.check.startswith('proc_'):
        r = run_proc_case(c['proc'], c['situation'], c['fault'], c['at'])
        return [r['verdict'][1]] if r.get('verdict') and r['verdict'][0] == v.check else []
    if v.check.startswith('overlap_'):
        res = run_overlap(c['params'], c['prefix'], None)
        return [m for ck, _, m in res['viol'] if ck == v.check]
    if v.check.startswith('serial_'):
        res = run_serialise(c['params'], c['prefix'], None)
        return [m for ck, _, m in res['viol'] if ck == v.check]
    return []


# ---------------------------------------------------------------------------
# sub-check 3: accepted procedures are concluded by their completion event
# ---------------------------------------------------------------------------
# completion events: (event code, LE sub-event code or None)
PROCS = {
    'le_create': {'world': 'le', 'complete': [(0x3E, 0x01), (0x3E, 0x0A), (0x3E, 0x29)]},
    'le_ext_create': {'world': 'le', 'complete': [(0x3E, 0x01), (0x3E, 0x0A), (0x3E, 0x29)]},
    'classic_create': {'world': 'classic', 'complete': [(0x03, None)]},
    'disconnect_le': {'world': 'le_conn', 'complete': [(0x05, None)]},
    'disconnect_classic': {'world': 'classic_conn', 'complete': [(0x05, None)]},
    'le_remote_features': {'world': 'le_conn', 'complete': [(0x3E, 0x04)]},
    'remote_name': {'world': 'classic', 'complete': [(0x07, None)]},
    'remote_name_connected': {'world': 'classic_conn', 'complete': [(0x07, None)]},
    'le_encrypt': {'world': 'le_conn', 'complete': [(0x08, None), (0x59, None)]},
    'create_cis': {'world': 'le_conn', 'complete': [(0x3E, 0x19), (0x3E, 0x2A)]},
    # Disconnect addressed to a CIS handle (configured but never established / established)
    'disconnect_cis': {'world': 'le_conn', 'complete': [(0x05, None)]},
}

PROC_SITUATIONS = {
    # ..._direct: the host is wired to its controller synchronously (no HCI transport delay), so the cancel takes effect
    # at the very moment it is issued, between two link messages
    'le_create': ['present', 'absent_cancel', 'present_cancel', 'present_cancel_race', 'present_cancel_race_direct'],
    'le_ext_create': ['present', 'absent_cancel'],
    'classic_create': ['present', 'absent', 'present_role_switch_refused'],
    'disconnect_le': ['live', 'dead_handle', 'live_from_peripheral'],
    'disconnect_classic': ['live', 'dead_handle', 'live_from_peripheral'],
    'le_remote_features': ['live', 'dead_handle', 'live_from_peripheral'],
    'remote_name': ['present', 'absent'],
    'remote_name_connected': ['present'],
    'le_encrypt': ['no_key'],
    'create_cis': ['accept', 'reject'],
    'disconnect_cis': ['never_established', 'established'],
}

FAULTS = ['peer_disconnect', 'local_disconnect', 'peer_vanish']


def proc_command(w, proc, situation, ctxd):
    from bumble import hci

    peer = w.devices[1]
    absent = hci.Address('AA:BB:CC:DD:EE:FF', hci.Address.RANDOM_DEVICE_ADDRESS)
    if proc == 'le_create':
        addr = peer.random_address if situation.startswith('present') else absent
        return hci.HCI_LE_Create_Connection_Command(
            le_scan_interval=96, le_scan_window=96, initiator_filter_policy=0,
            peer_address_type=addr.address_type, peer_address=addr, own_address_type=1,
            connection_interval_min=12, connection_interval_max=24, max_latency=0,
            supervision_timeout=72, min_ce_length=0, max_ce_length=0,
        )
    if proc == 'le_ext_create':
        addr = peer.random_address if situation.startswith('present') else absent
        return hci.HCI_LE_Extended_Create_Connection_Command(
            initiator_filter_policy=0, own_address_type=1, peer_address_type=addr.address_type,
            peer_address=addr, initiating_phys=1, scan_intervals=[96], scan_windows=[96],
            connection_interval_mins=[12], connection_interval_maxs=[24], max_latencies=[0],
            supervision_timeouts=[72], min_ce_lengths=[0], max_ce_lengths=[0],
        )
    if proc == 'classic_create':
        addr = peer.public_address if situation.startswith('present') else hci.Address('AA:BB:CC:DD:EE:FF', hci.Address.PUBLIC_DEVICE_ADDRESS)
        return hci.HCI_Create_Connection_Command(
            bd_addr=addr, packet_type=0xCC18, page_scan_repetition_mode=2, reserved=0, clock_offset=0,
            allow_role_switch=0 if situation == 'present_role_switch_refused' else 1,
        )
    if proc in ('disconnect_le', 'disconnect_classic'):
        h = ctxd['handle'] if situation.startswith('live') else 0x0E11
        return hci.HCI_Disconnect_Command(connection_handle=h, reason=0x13)
    if proc == 'le_remote_features':
        h = ctxd['handle'] if situation.startswith('live') else 0x0E11
        return hci.HCI_LE_Read_Remote_Features_Command(connection_handle=h)
    if proc in ('remote_name', 'remote_name_connected'):
        addr = peer.public_address if situation == 'present' else hci.Address('AA:BB:CC:DD:EE:FF', hci.Address.PUBLIC_DEVICE_ADDRESS)
        return hci.HCI_Remote_Name_Request_Command(bd_addr=addr, page_scan_repetition_mode=2, reserved=0, clock_offset=0)
    if proc == 'le_encrypt':
        return hci.HCI_LE_Enable_Encryption_Command(
            connection_handle=ctxd['handle'], random_number=bytes(8), encrypted_diversifier=0, long_term_key=bytes(range(16))
        )
    if proc == 'disconnect_cis':
        return hci.HCI_Disconnect_Command(connection_handle=ctxd['cis_handle'], reason=0x13)
    if proc == 'create_cis':
        return hci.HCI_LE_Create_CIS_Command(cis_connection_handle=[ctxd['cis_handle']], acl_connection_handle=[ctxd['handle']])
    raise ValueError(proc)


def run_proc_case(proc, situation, fault, at):
    """Returns dict(status, completions, messages, verdict)."""
    from bumble import hci

    spec = PROCS[proc]
    kind = spec['world']
    w = World(2, classic=kind.startswith('classic'), direct=situation.endswith('_direct'))
    w.__enter__()
    try:
        w.power_on()
        ctxd = {}
        if kind == 'le_conn':
            cc, pc = w.connect_le()
            ctxd['handle'] = cc.handle
            ctxd['peer_handle'] = pc.handle
        elif kind == 'classic_conn':
            cc, pc = w.connect_classic()
            ctxd['handle'] = cc.handle
            ctxd['peer_handle'] = pc.handle
        elif kind == 'le' and situation.startswith('present'):
            w.run(w.devices[1].start_advertising(advertising_interval_min=500.0, advertising_interval_max=500.0))
        if proc in ('create_cis', 'disconnect_cis'):
            from bumble.device import CigParameters

            if situation in ('accept', 'established', 'never_established'):
                w.devices[1].on('cis_request', lambda link: w.loop.create_task(w.devices[1].accept_cis_request(link)))
            else:
                w.devices[1].on('cis_request', lambda link: w.loop.create_task(w.devices[1].reject_cis_request(link)))
            handles = w.run(
                w.devices[0].setup_cig(
                    CigParameters(cig_id=1, cis_parameters=[CigParameters.CisParameters(cis_id=2)], sdu_interval_c_to_p=0, sdu_interval_p_to_c=0)
                )
            )
            ctxd['cis_handle'] = handles[0]
            if proc == 'disconnect_cis' and situation == 'established':
                w.run(w.devices[0].create_cis([(handles[0], cc)]))
        if situation == 'present_role_switch_refused':
            # the acceptor asks to become central although the initiator does not allow a role switch
            w.loop.create_task(w.devices[1].accept(role=hci.Role.CENTRAL, timeout=None))
        w.settle()
        w.loop.collect_exceptions()
        me, other = 0, 1
        if situation.endswith('_from_peripheral'):
            # the procedure is issued from the peripheral / acceptor end of the connection
            me, other = 1, 0
            ctxd['handle'], ctxd['peer_handle'] = ctxd['peer_handle'], ctxd['handle']
        tap = Tap(w, me)
        host = w.hosts[me]
        cmd = proc_command(w, proc, situation, ctxd)
        msgs = [0]
        injected = [False]

        def inject():
            injected[0] = True
            if fault == 'peer_disconnect' and 'peer_handle' in ctxd:
                w.loop.create_task(w.hosts[other].send_command(hci.HCI_Disconnect_Command(connection_handle=ctxd['peer_handle'], reason=0x13)))
            elif fault == 'local_disconnect' and 'handle' in ctxd:
                w.loop.create_task(host.send_command(hci.HCI_Disconnect_Command(connection_handle=ctxd['handle'], reason=0x13)))
            elif fault == 'cancel':
                if situation.endswith('_direct'):
                    # handed to the controller at once (a host wired synchronously whose caller runs right now): the
                    # controller processes the cancel exactly here, between two link messages
                    w.controllers[me].on_packet(bytes(hci.HCI_LE_Create_Connection_Cancel_Command()))
                else:
                    w.loop.create_task(host.send_command(hci.HCI_LE_Create_Connection_Cancel_Command()))
            elif fault == 'peer_vanish':
                try:
                    w.link.remove_controller(w.controllers[other])
                except Exception:
                    pass

        prev = w.loop.on_step

        def on_step(handle):
            if w.loop.classify(handle) is not None:
                if fault and not injected[0] and msgs[0] == at:
                    inject()
                msgs[0] += 1
            if prev:
                prev(handle)

        w.loop.on_step = on_step
        task = w.loop.create_task(host.send_command(cmd))
        if situation.startswith('present_cancel_race'):
            # the cancel is issued while the connection is being established (advertising PDUs in flight)
            w.loop.advance(1.0, max_steps=50000)
        w.loop.run_quiescent(max_steps=50000)
        if situation.endswith('cancel'):
            t2 = w.loop.create_task(host.send_command(hci.HCI_LE_Create_Connection_Cancel_Command()))
            w.loop.run_quiescent(max_steps=50000)
        if fault and not injected[0]:
            return {'skip': True, 'messages': msgs[0]}
        # let every built-in timeout expire
        w.loop.advance(30.0, max_steps=200000)
        w.loop.run_quiescent(max_steps=50000)
        excs = w.loop.collect_exceptions()
        rs = tap.responses(cmd.op_code)
        completions = []
        for code, sub in spec['complete']:
            for ev in tap.events(code, sub):
                completions.append(ev)
        if proc.startswith('disconnect') or proc in ('le_remote_features', 'le_encrypt'):
            # only events about our handle
            hb = struct.pack('<H', ctxd.get('handle', 0x0E11) if situation != 'dead_handle' else 0x0E11)
            if proc == 'disconnect_cis':
                hb = struct.pack('<H', ctxd['cis_handle'])
            completions = [e for e in completions if hb in e[3:8]]
        res = {'messages': msgs[0], 'responses': rs, 'completions': len(completions), 'excs': [e[1][:100] for e in excs][:2]}
        # verdict
        verdict = None
        if len(rs) != 1:
            verdict = ('proc_unanswered', f'{len(rs)} Command Status/Complete events for the command')
        else:
            accepted = rs[0][1] == 0
            n = len(completions)
            if accepted and n == 0:
                if proc in ('le_create', 'le_ext_create') and situation == 'absent' and not fault:
                    pass
                elif fault == 'local_disconnect' and proc.startswith('disconnect') and n == 0:
                    verdict = ('proc_never_concluded', 'procedure accepted (status 0) but its completion event never arrived')
                else:
                    verdict = ('proc_never_concluded', 'procedure accepted (status 0) but its completion event never arrived')
            elif n > 1:
                verdict = ('proc_concluded_twice', f'{n} completion events for one procedure')
            elif not accepted and n == 1 and not fault:
                verdict = ('proc_completion_after_error', f'command rejected with status {rs[0][1]:#x} but a completion event was sent')
        if fault == 'cancel' and verdict is None:
            cancel_rs = tap.responses(hci.HCI_LE_CREATE_CONNECTION_CANCEL_COMMAND)
            statuses = [e[3 + 1] if len(e) > 4 else None for e in completions]  # status byte of the LE meta event
            if len(completions) != 1:
                verdict = ('proc_cancel_race', f'{len(completions)} completion events for one connection creation that was cancelled while being established (cancel answered {cancel_rs})')
            elif len(cancel_rs) != 1:
                verdict = ('proc_cancel_race', f'{len(cancel_rs)} answers to the cancel command')
            res['cancel'] = cancel_rs
        res['verdict'] = verdict
        return res
    finally:
        w.__exit__()


def w_proc(arg):
    proc, situation, only_fault = arg
    st = core.Stats('procedure')
    base = run_proc_case(proc, situation, None, 0)
    if only_fault is None:
      st.case((proc, situation, None, 0), {'proc': proc, 'situation': situation, 'fault': None, 'result': {k: base[k] for k in ('messages', 'responses', 'completions')}})
    if base['verdict'] and only_fault is None:
        v = base['verdict']
        st.violation(v[0], {'proc': proc, 'situation': situation, 'fault': None}, f'{proc}/{situation}: {v[1]} {base["excs"]}', {'proc': proc, 'situation': situation, 'fault': None, 'at': 0})
    if situation.startswith('present_cancel_race'):
        if only_fault is None:
            for at in range(0, base['messages'] + 1):
                r = run_proc_case(proc, situation, 'cancel', at)
                if r.get('skip'):
                    continue
                st.case((proc, situation, 'cancel', at), None)
                if r['verdict']:
                    v = r['verdict']
                    st.violation(v[0], {'proc': proc, 'situation': situation, 'fault': 'cancel'}, f'{proc}/{situation} cancel issued before message {at}: {v[1]}', {'proc': proc, 'situation': situation, 'fault': 'cancel', 'at': at})
        return st
    if PROCS[proc]['world'].endswith('_conn') or proc in ('le_create', 'classic_create', 'remote_name'):
        for fault in FAULTS:
            if fault != only_fault:
                continue
            if fault != 'peer_vanish' and not PROCS[proc]['world'].endswith('_conn'):
                continue
            if fault == 'local_disconnect' and proc.startswith('disconnect'):
                continue  # that is the procedure itself
            for at in range(0, base['messages'] + 1):
                r = run_proc_case(proc, situation, fault, at)
                if r.get('skip'):
                    continue
                st.case((proc, situation, fault, at), None)
                if r['verdict']:
                    v = r['verdict']
                    st.violation(v[0], {'proc': proc, 'situation': situation, 'fault': fault}, f'{proc}/{situation} with {fault} before message {at}: {v[1]} {r["excs"]}', {'proc': proc, 'situation': situation, 'fault': fault, 'at': at})
    return st


# ---------------------------------------------------------------------------
# sub-check 2b: a caller that is still queued behind the outstanding command is cancelled
# ---------------------------------------------------------------------------
def run_cancel_case(script_i, at):
    """Caller 'victim' (a distinct opcode) is cancelled just before loop step `at`, but only while its
    command has not been handed to the controller yet (cancelling the caller whose command is in flight
    is outside the stated space).  Returns dict(steps, viol, skipped)."""
    from bumble import hci

    others = [['sync', 'sync2'], ['sync2'], ['sync', 'unknown']][script_i]
    cmds = script_commands()
    with World(2) as w:
        w.power_on()
        tap = Tap(w, 0)
        host = w.hosts[0]
        results = []
        VICTIM_OP = hci.HCI_READ_BUFFER_SIZE_COMMAND

        async def caller(i, names):
            for n in names:
                c = cmds[n]()
                r = await host.send_command(c)
                results.append((i, c.op_code, r.command_opcode))

        async def victim():
            r = await host.send_command(hci.HCI_Read_Buffer_Size_Command())
            results.append(('v', VICTIM_OP, r.command_opcode))

        tasks = [w.loop.create_task(caller(0, others))]
        vt = w.loop.create_task(victim())
        tasks.append(w.loop.create_task(caller(1, ['sync'])))
        steps = [0]
        state = {'done': False, 'skipped': False}
        prev = w.loop.on_step

        def on_step(handle):
            if steps[0] == at and not state['done']:
                state['done'] = True
                sent = any(e[0] == 'cmd' and e[1] == VICTIM_OP for e in tap.log)
                if sent or vt.done():
                    state['skipped'] = True
                else:
                    vt.cancel()
            steps[0] += 1
            if prev:
                prev(handle)

        w.loop.on_step = on_step
        w.loop.run_quiescent(max_steps=50000)
        w.loop.collect_exceptions()
        viol = []
        if not state['done']:
            return {'steps': steps[0], 'viol': [], 'skipped': True}
        if tap.outstanding_max > 1:
            viol.append(('cancel_two_outstanding', {'kind': 'two_outstanding'}, f'{tap.outstanding_max} commands outstanding at once after a queued caller was cancelled: {fmt_log(tap.log)}'))
        for i, own, got in results:
            if own != got:
                viol.append(('cancel_misrouted', {'kind': 'misrouted'}, f'caller {i} sent {own:#06x} and was handed the response for {got:#06x}: {fmt_log(tap.log)}'))
        pend = [i for i, t in enumerate(tasks) if not t.done()]
        if pend:
            viol.append(('cancel_caller_pending', {'kind': 'caller_pending'}, f'callers {pend} never completed after a queued caller was cancelled: {fmt_log(tap.log)}'))
        for t in tasks:
            if t.done() and not t.cancelled() and t.exception():
                viol.append(('cancel_caller_error', {'kind': 'caller_error'}, f'caller raised {t.exception()!r}'))
        return {'steps': steps[0], 'viol': viol, 'skipped': state['skipped']}


def w_cancel(script_i):
    st = core.Stats('cancel_queued')
    base = run_cancel_case(script_i, -1)
    for at in range(0, base['steps'] + 1):
        r = run_cancel_case(script_i, at)
        if r['skipped']:
            st.count('injection_points_where_victim_already_sent')
            continue
        st.case((script_i, at), {'script': script_i, 'cancel_before_step': at} if at == 1 else None)
        for check, sig, msg in r['viol']:
            st.violation(check, sig, msg, {'script': script_i, 'at': at})
    return st


# ---------------------------------------------------------------------------
# sub-check 2c: flow-control-only events (Command Complete / Command Status with opcode 0x0000 that only
# carry Num_HCI_Command_Packets) arriving at any moment — legal controller behaviour the virtual controller
# never shows; injected by the harness at every loop step
# ---------------------------------------------------------------------------
NOOP_EVENTS = {
    'cc': bytes.fromhex('040e03010000'),
    'cs': bytes.fromhex('040f0400010000'),
}


def run_noop_case(script_i, kind, count, at, zero_credit=None):
    """zero_credit=j: the j-th command response delivered to the host is rewritten to carry
    Num_HCI_Command_Packets = 0 (the controller closes the command window; legal), so that only the
    injected flow-control-only event re-opens it."""
    from bumble import hci

    callers = [[['sync'], ['sync2']], [['sync', 'sync2'], ['sync'], ['unknown']], [['sync2'], ['sync'], ['sync2']]][script_i]
    cmds = script_commands()
    with World(2) as w:
        w.power_on()
        tap = Tap(w, 0)
        host = w.hosts[0]
        results = []
        steps = [0]
        injected = [False]
        escaped = []

        inj_step = [None]
        zc_step = [None]

        def inject():
            injected[0] = True
            inj_step[0] = steps[0]
            for _ in range(count):
                try:
                    host.on_packet(NOOP_EVENTS[kind])
                except Exception as e:  # would propagate into the transport
                    escaped.append(repr(e))

        if at == -2:
            inject()  # while the host is idle, before any caller exists

        async def caller(i, names):
            for n in names:
                c = cmds[n]()
                r = await host.send_command(c)
                results.append((i, c.op_code, r.command_opcode))

        tasks = [w.loop.create_task(caller(i, names)) for i, names in enumerate(callers)]
        prev = w.loop.on_step

        responses_seen = [0]

        def on_step(handle):
            if steps[0] == at and not injected[0]:
                inject()
            steps[0] += 1
            if zero_credit is not None and w.loop.classify(handle) == ('c2h', 0):
                b = handle._args[0]
                if b[0] == 0x04 and b[1] in (0x0E, 0x0F):
                    if responses_seen[0] == zero_credit:
                        b = bytearray(b)
                        b[3 if b[1] == 0x0E else 4] = 0
                        handle._args = (bytes(b),)
                        zc_step[0] = steps[0] - 1  # (steps was already advanced for this handle)
                    responses_seen[0] += 1
            if prev:
                prev(handle)

        w.loop.on_step = on_step
        w.loop.run_quiescent(max_steps=50000)
        if zero_credit is not None and any(not t.done() for t in tasks) and (zc_step[0] is None or inj_step[0] is None or inj_step[0] <= zc_step[0]):
            # the flow-control-only event came BEFORE the response that closed the window (which supersedes it): the
            # controller re-opens the window at the very end at the latest.  An event that came after the closing
            # response has re-opened the window by itself: nobody may still be waiting.
            inject()
            w.loop.run_quiescent(max_steps=50000)
        w.loop.collect_exceptions()
        viol = []
        if tap.outstanding_max > 1 and zero_credit is None:
            viol.append(('noop_two_outstanding', {'kind': 'two_outstanding', 'event': kind}, f'{tap.outstanding_max} commands outstanding after a flow-control-only event: {fmt_log(tap.log)}'))
        for i, own, got in results:
            if own != got:
                viol.append(('noop_misrouted', {'kind': 'misrouted', 'event': kind}, f'caller {i} sent {own:#06x} and was handed the response for {got:#06x}'))
        pend = [i for i, t in enumerate(tasks) if not t.done()]
        if pend:
            viol.append(('noop_caller_pending', {'kind': 'caller_pending', 'event': kind}, f'callers {pend} never completed: {fmt_log(tap.log)}'))
        for t in tasks:
            if t.done() and not t.cancelled() and t.exception():
                viol.append(('noop_caller_error', {'kind': 'caller_error', 'event': kind}, f'caller raised {t.exception()!r}: {fmt_log(tap.log)}'))
        return {'steps': steps[0], 'viol': viol, 'injected': injected[0]}


def w_noop(arg):
    script_i, kind, count = arg
    st = core.Stats('noop_events')
    base = run_noop_case(script_i, kind, count, -1)
    for zc in (None, 0, 1):
        for at in [-2] + list(range(0, base['steps'] + 4)):
            r = run_noop_case(script_i, kind, count, at, zc)
            if not r['injected']:
                continue
            st.case((script_i, kind, count, at, zc), {'script': script_i, 'event': kind, 'count': count, 'before_step': at, 'zero_credit_response': zc} if at == 2 else None)
            for check, sig, msg in r['viol']:
                st.violation(check, dict(sig, window_closed=zc is not None), msg, {'script': script_i, 'kind': kind, 'count': count, 'at': at, 'zc': zc})
    return st


# ---------------------------------------------------------------------------
# sub-check 6: command SEQUENCES.  The answer to a command may depend on what earlier commands left behind in the
# controller (advertising sets and their fragmented data, filter lists, CIGs, pending remote requests), so every
# sequence of up to 3 commands of a family is sent to one controller: each command answered exactly once, later
# commands not blocked, and every remote request the controller ACCEPTED (Command Status 0) concluded by exactly one
# completion event of its kind.
# ---------------------------------------------------------------------------
PEER = 'F1:F1:F1:F1:F1:F1'
ABSENT = 'C7:C7:C7:C7:C7:C7'


def seq_families():
    """name -> (world, [(label, class name, overrides)])"""
    from bumble import hci

    A = lambda s, t=hci.Address.PUBLIC_DEVICE_ADDRESS: hci.Address(s, t)
    adv = [('P0', 'HCI_LE_Set_Extended_Advertising_Parameters_Command', {'advertising_handle': 0, 'advertising_event_properties': 0x13}),
           ('P1', 'HCI_LE_Set_Extended_Advertising_Parameters_Command', {'advertising_handle': 1})]
    for op in range(5):
        adv.append((f'D{op}', 'HCI_LE_Set_Extended_Advertising_Data_Command', {'advertising_handle': 0, 'operation': op, 'advertising_data': bytes([2, 1, 6 + op])}))
    for op in (0, 1, 2, 3):
        adv.append((f'S{op}', 'HCI_LE_Set_Extended_Scan_Response_Data_Command', {'advertising_handle': 0, 'operation': op, 'scan_response_data': bytes([2, 9, 0x41 + op])}))
    adv += [
        ('E1', 'HCI_LE_Set_Extended_Advertising_Enable_Command', {'enable': 1, 'advertising_handles': [0], 'durations': [0], 'max_extended_advertising_events': [0]}),
        ('E0', 'HCI_LE_Set_Extended_Advertising_Enable_Command', {'enable': 0, 'advertising_handles': [0], 'durations': [0], 'max_extended_advertising_events': [0]}),
        ('Eall0', 'HCI_LE_Set_Extended_Advertising_Enable_Command', {'enable': 0, 'advertising_handles': [], 'durations': [], 'max_extended_advertising_events': []}),
        ('R0', 'HCI_LE_Remove_Advertising_Set_Command', {'advertising_handle': 0}),
        ('C', 'HCI_LE_Clear_Advertising_Sets_Command', {}),
        ('A0', 'HCI_LE_Set_Advertising_Set_Random_Address_Command', {'advertising_handle': 0, 'random_address': A('C1:C2:C3:C4:C5:C6', hci.Address.RANDOM_DEVICE_ADDRESS)}),
    ]
    legacy = [
        ('AP', 'HCI_LE_Set_Advertising_Parameters_Command', {'advertising_interval_min': 0x20, 'advertising_interval_max': 0x20, 'advertising_channel_map': 7}),
        ('AD', 'HCI_LE_Set_Advertising_Data_Command', {'advertising_data': bytes([2, 1, 6])}),
        ('SR', 'HCI_LE_Set_Scan_Response_Data_Command', {'scan_response_data': bytes([2, 9, 0x41])}),
        ('AE1', 'HCI_LE_Set_Advertising_Enable_Command', {'advertising_enable': 1}),
        ('AE0', 'HCI_LE_Set_Advertising_Enable_Command', {'advertising_enable': 0}),
        ('RA', 'HCI_LE_Set_Random_Address_Command', {'random_address': A('C1:C2:C3:C4:C5:C6', hci.Address.RANDOM_DEVICE_ADDRESS)}),
        ('SP', 'HCI_LE_Set_Scan_Parameters_Command', {'le_scan_type': 1, 'le_scan_interval': 0x10, 'le_scan_window': 0x10}),
        ('SE1', 'HCI_LE_Set_Scan_Enable_Command', {'le_scan_enable': 1}),
        ('SE0', 'HCI_LE_Set_Scan_Enable_Command', {'le_scan_enable': 0}),
        ('E1', 'HCI_LE_Set_Extended_Advertising_Enable_Command', {'enable': 1, 'advertising_handles': [0], 'durations': [0], 'max_extended_advertising_events': [0]}),
    ]
    lists = [
        ('FA', 'HCI_LE_Add_Device_To_Filter_Accept_List_Command', {'address_type': 0, 'address': A(PEER)}),
        ('FA2', 'HCI_LE_Add_Device_To_Filter_Accept_List_Command', {'address_type': 1, 'address': A(PEER)}),
        ('FR', 'HCI_LE_Remove_Device_From_Filter_Accept_List_Command', {'address_type': 0, 'address': A(PEER)}),
        ('FC', 'HCI_LE_Clear_Filter_Accept_List_Command', {}),
        ('RL', 'HCI_LE_Add_Device_To_Resolving_List_Command', {'peer_identity_address_type': 0, 'peer_identity_address': A(PEER), 'peer_irk': bytes(range(16)), 'local_irk': bytes(16)}),
        ('RC', 'HCI_LE_Clear_Resolving_List_Command', {}),
        ('ARE1', 'HCI_LE_Set_Address_Resolution_Enable_Command', {'address_resolution_enable': 1}),
        ('ARE0', 'HCI_LE_Set_Address_Resolution_Enable_Command', {'address_resolution_enable': 0}),
    ]
    cig = [
        ('CIG', 'HCI_LE_Set_CIG_Parameters_Command', {'cig_id': 1, 'sdu_interval_c_to_p': 10000, 'sdu_interval_p_to_c': 10000, 'max_transport_latency_c_to_p': 10, 'max_transport_latency_p_to_c': 10,
                                                       'cis_id': [5], 'max_sdu_c_to_p': [40], 'max_sdu_p_to_c': [40], 'phy_c_to_p': [1], 'phy_p_to_c': [1], 'rtn_c_to_p': [1], 'rtn_p_to_c': [1]}),
        ('CIG2', 'HCI_LE_Set_CIG_Parameters_Command', {'cig_id': 1, 'sdu_interval_c_to_p': 10000, 'sdu_interval_p_to_c': 10000, 'max_transport_latency_c_to_p': 10, 'max_transport_latency_p_to_c': 10,
                                                        'cis_id': [5, 6], 'max_sdu_c_to_p': [40, 40], 'max_sdu_p_to_c': [40, 40], 'phy_c_to_p': [1, 1], 'phy_p_to_c': [1, 1], 'rtn_c_to_p': [1, 1], 'rtn_p_to_c': [1, 1]}),
        ('RCIG', 'HCI_LE_Remove_CIG_Command', {'cig_id': 1}),
        ('CCIS', 'HCI_LE_Create_CIS_Command', {'cis_connection_handle': ['@cis'], 'acl_connection_handle': ['@acl']}),
        ('DCIS', 'HCI_Disconnect_Command', {'connection_handle': '@cis', 'reason': 0x13}),
        ('SIDP', 'HCI_LE_Setup_ISO_Data_Path_Command', {'connection_handle': '@cis', 'data_path_direction': 0}),
        ('RIDP', 'HCI_LE_Remove_ISO_Data_Path_Command', {'connection_handle': '@cis', 'data_path_direction': 1}),
    ]
    remote_cl = [
        ('RN', 'HCI_Remote_Name_Request_Command', {'bd_addr': A(PEER)}),
        ('RNabs', 'HCI_Remote_Name_Request_Command', {'bd_addr': A(ABSENT)}),
        ('RSF', 'HCI_Read_Remote_Supported_Features_Command', {'connection_handle': '@acl'}),
        ('REF', 'HCI_Read_Remote_Extended_Features_Command', {'connection_handle': '@acl', 'page_number': 1}),
        ('REF0', 'HCI_Read_Remote_Extended_Features_Command', {'connection_handle': '@acl', 'page_number': 0}),
        ('REF4', 'HCI_Read_Remote_Extended_Features_Command', {'connection_handle': '@acl', 'page_number': 4}),
        ('REF255', 'HCI_Read_Remote_Extended_Features_Command', {'connection_handle': '@acl', 'page_number': 255}),
        ('RVI', 'HCI_Read_Remote_Version_Information_Command', {'connection_handle': '@acl'}),
        ('RCO', 'HCI_Read_Clock_Offset_Command', {'connection_handle': '@acl'}),
    ]
    remote_le = [
        ('LRF', 'HCI_LE_Read_Remote_Features_Command', {'connection_handle': '@acl'}),
        ('RVI', 'HCI_Read_Remote_Version_Information_Command', {'connection_handle': '@acl'}),
        ('LRFdead', 'HCI_LE_Read_Remote_Features_Command', {'connection_handle': 0x0EFF}),
    ]
    return {
        'ext_adv': ('fresh', adv), 'legacy_adv_scan': ('fresh', legacy), 'lists': ('fresh', lists), 'cig': ('le_connected', cig),
        'remote_classic': ('classic_connected', remote_cl), 'remote_le': ('le_connected', remote_le),
    }


# opcode -> completion event (code, LE sub-event) of remote requests answered with a Command Status
SEQ_COMPLETIONS = {0x2064: (0x3E, 0x19), 0x0419: (0x07, None), 0x041B: (0x0B, None), 0x041C: (0x23, None), 0x041D: (0x0C, None), 0x041F: (0x1C, None), 0x2016: (0x3E, 0x04)}


def seq_build(w, fam, label):
    from bumble import hci

    for lab, cname, over in seq_families()[fam][1]:
        if lab == label:
            break
    else:
        raise KeyError(label)
    cls = getattr(hci, cname)
    c0 = w.controllers[0]
    acl = next(iter(list(c0.le_connections.values()) + list(c0.classic_connections.values())), None)
    acl_h = acl.handle if acl is not None else 0x0EFF
    # the CIS handle the controller returned for the CIG most recently configured, if any (0x0EFE = none)
    cis_h = 0x0EFE
    tap = getattr(w, 'seq_tap', None)
    if tap is not None:
        for e in tap.log:
            b = e[2] if e[0] == 'evt' else b''
            # Command Complete of LE Set CIG Parameters (0x2062) / LE Remove CIG (0x2065)
            if len(b) >= 7 and b[1] == 0x0E and struct.unpack_from('<H', b, 4)[0] == 0x2062 and b[6] == 0 and len(b) >= 11 and b[8] > 0:
                cis_h = struct.unpack_from('<H', b, 9)[0]
            elif len(b) >= 7 and b[1] == 0x0E and struct.unpack_from('<H', b, 4)[0] == 0x2065 and b[6] == 0:
                cis_h = 0x0EFE

    def sub(v):
        if v == '@acl':
            return acl_h
        if v == '@cis':
            return cis_h
        if isinstance(v, list):
            return [sub(x) for x in v]
        return v

    base = cls.from_parameters(bytes(min_params(cls)))
    return rebuild(cls, base, **{k: sub(v) for k, v in over.items()})


def run_seq_burst(fam, labels):
    """The same sequence issued by concurrent callers: each command goes out as soon as the previous one was answered,
    while the remote requests accepted earlier are still in progress."""
    from bumble import hci

    w = make_world(seq_families()[fam][0])
    out = []
    try:
        tap = w.seq_tap = Tap(w, 0)
        host = w.hosts[0]
        cmds = [seq_build(w, fam, lab) for lab in labels]
        tasks = [w.loop.create_task(host.send_command(c)) for c in cmds]
        w.loop.run_quiescent(max_steps=50000)
        excs = w.loop.collect_exceptions()
        sig = {'family': fam, 'mode': 'burst'}
        for op in sorted({c.op_code for c in cmds}):
            sent = sum(1 for c in cmds if c.op_code == op)
            rs = tap.responses(op)
            if len(rs) != sent:
                why = f' (controller raised: {excs[0][1][:160]})' if excs else ''
                out.append(('seq_unanswered' if len(rs) < sent else 'seq_answered_twice', dict(sig, opcode=f'{op:#06x}'),
                            f'{fam} burst {list(labels)}: {sent} command(s) {op:#06x} sent, {len(rs)} response(s){why}'))
        if not out and not all(t.done() for t in tasks):
            out.append(('seq_caller_pending', sig, f'{fam} burst {list(labels)}: a send_command is still pending although every command was answered'))
        for t in tasks:
            if t.done():
                t.exception()
            else:
                t.cancel()
        if not out:
            accepted = collections.Counter()
            per_op = collections.defaultdict(list)
            for c in cmds:
                per_op[c.op_code].append(c)
            for op in per_op:
                if op in SEQ_COMPLETIONS:
                    accepted[op] = sum(1 for r in tap.responses(op) if r == ('CS', 0))
            if any(accepted.values()):
                w.loop.advance(30.0, max_steps=400000)
            w.loop.collect_exceptions()
            for op, n in accepted.items():
                code, subc = SEQ_COMPLETIONS[op]
                got = len(tap.events(code, subc))
                if got != n:
                    out.append(('seq_proc_conclusions', {'family': fam, 'opcode': f'{op:#06x}', 'accepted': n, 'concluded': got, 'mode': 'burst'},
                                f'{fam} burst {list(labels)}: {n} request(s) {op:#06x} accepted with Command Status 0 but {got} completion event(s) {code:#04x}{"" if subc is None else "/" + hex(subc)} delivered'))
    finally:
        w.__exit__()
    return out


def run_seq_case(fam, labels, mode='step'):
    """-> list of (check, signature, message)"""
    from bumble import hci

    if mode == 'burst':
        return run_seq_burst(fam, labels)
    world = seq_families()[fam][0]
    w = make_world(world)
    out = []
    try:
        tap = w.seq_tap = Tap(w, 0)
        host = w.hosts[0]
        accepted = collections.Counter()
        cis_asked = []
        for i, lab in enumerate(labels):
            cmd = seq_build(w, fam, lab)
            op = cmd.op_code
            n0 = len(tap.responses(op))
            task = w.loop.create_task(host.send_command(cmd))
            w.loop.run_quiescent(max_steps=20000)
            excs = w.loop.collect_exceptions()
            rs = tap.responses(op)[n0:]
            where = f'{fam} sequence {list(labels)} step {i} ({lab} = {cmd.name})'
            sig = {'family': fam, 'command': lab, 'after': labels[i - 1] if i else None}
            if len(rs) == 0:
                why = f' (controller raised: {excs[0][1][:160]})' if excs else ''
                out.append(('seq_unanswered', dict(sig, kind='raised' if excs else 'silent'), f'{where}: no Command Complete/Status{why}'))
                break
            if len(rs) > 1:
                out.append(('seq_answered_twice', sig, f'{where}: {len(rs)} responses: {rs}'))
                break
            if not task.done():
                out.append(('seq_caller_pending', sig, f'{where}: send_command still pending although a response was delivered'))
                break
            task.exception()
            if rs[0] == ('CS', 0) and op in SEQ_COMPLETIONS:
                accepted[op] += 1
                if op == 0x2064:
                    cis_asked += list(cmd.cis_connection_handle)
        else:
            # let every accepted remote request conclude (page time-outs included)
            if accepted:
                w.loop.advance(30.0, max_steps=400000)
            w.loop.collect_exceptions()
            for op, n in accepted.items():
                code, subc = SEQ_COMPLETIONS[op]
                got = len(tap.events(code, subc))
                if got != n:
                    out.append(('seq_proc_conclusions', {'family': fam, 'opcode': f'{op:#06x}', 'accepted': n, 'concluded': got},
                                f'{fam} sequence {list(labels)}: {n} request(s) {op:#06x} accepted with Command Status 0 but {got} completion event(s) {code:#04x}{"" if subc is None else "/" + hex(subc)} delivered'))
            cis_done = sorted(struct.unpack_from('<H', b, 5)[0] for b in tap.events(0x3E, 0x19) if len(b) >= 7)
            if not out and cis_asked and cis_done != sorted(cis_asked):
                out.append(('seq_proc_conclusions', {'family': fam, 'opcode': '0x2064', 'what': 'concluded_for_another_handle'},
                            f'{fam} sequence {list(labels)}: LE Create CIS accepted for handle(s) {[hex(h) for h in cis_asked]} but LE CIS Established delivered for {[hex(h) for h in cis_done]}'))
            t2 = w.loop.create_task(host.send_command(hci.HCI_Read_BD_ADDR_Command()))
            w.loop.run_quiescent(max_steps=20000)
            w.loop.collect_exceptions()
            if not t2.done():
                t2.cancel()
                out.append(('seq_blocks_later', {'family': fam, 'command': labels[-1]}, f'{fam} sequence {list(labels)}: a Read_BD_ADDR issued afterwards was never answered'))
            else:
                t2.exception()
    finally:
        w.__exit__()
    return out


def w_seq(arg):
    fam, seqs = arg
    st = core.Stats('reply_seq')
    for labels in seqs:
        for mode in ('step', 'burst') if len(labels) > 1 else ('step',):
            res = run_seq_case(fam, labels, mode)
            st.case((fam, labels, mode), None, nontrivial=len(labels) > 1)
            st.add('families', fam)
            for check, sig, msg in res:
                st.violation(check, sig, msg, {'fam': fam, 'labels': list(labels), 'mode': mode})
    if seqs and len(st.samples) < 1:
        st.samples.append({'family': fam, 'sequence': list(seqs[len(seqs) // 2])})
    return st


def seq_items(quick, jobs):
    items = []
    for fam, (world, alpha) in seq_families().items():
        labs = [a[0] for a in alpha]
        n = 3 if (quick and len(labs) <= 10) or not quick else 2
        seqs = [s for k in range(1, n + 1) for s in itertools.product(labs, repeat=k)]
        if quick and len(labs) > 10:
            # the large family: all pairs, and the triples whose middle element is a data fragment
            seqs += [s for s in itertools.product(labs, repeat=3) if s[1][0] in 'DS' and s[0][0] in 'PDSR' ]
        for part in core.split(seqs, jobs):
            items.append((fam, part))
    return items


# ---------------------------------------------------------------------------
# sub-check 7: remote requests IN FLIGHT AT THE SAME TIME (explorer).  Two callers (on one host, or on two hosts asking
# about the same third device) issue remote requests; every order-preserving delay of HCI and link messages with <= d
# deviations is explored, so that the second request is accepted while the first one's answer is still travelling.
# Oracle per host: every request accepted with Command Status 0 is concluded by exactly one completion event of its kind.
# ---------------------------------------------------------------------------
OVERLAP_SCRIPTS = [
    # (world, n devices, [(host, family label)])
    ('classic_connected', 2, [(0, 'RN'), (0, 'RN')]),
    ('classic_connected', 2, [(0, 'RN'), (0, 'RSF')]),
    ('classic_connected', 2, [(0, 'RSF'), (0, 'RSF')]),
    ('classic_connected', 2, [(0, 'RVI'), (0, 'REF')]),
    ('classic_connected', 2, [(0, 'RN'), (1, 'RN0')]),
    ('classic3', 3, [(0, 'RN2'), (1, 'RN2')]),
    ('classic3', 3, [(0, 'RN2'), (1, 'RN2'), (0, 'RN2')]),
    ('le_connected', 2, [(0, 'LRF'), (0, 'LRF')]),
    ('le_connected', 2, [(0, 'LRF'), (0, 'RVI')]),
    ('le_connected', 2, [(0, 'LRF'), (1, 'LRF')]),
]


def run_overlap(params, prefix, fp):
    from bumble import hci

    world, n, script = OVERLAP_SCRIPTS[params['script']]
    if world == 'classic3':
        w = World(3, classic=True)
        w.__enter__()
        w.power_on()
    else:
        w = make_world(world)
    try:
        taps = [Tap(w, i) for i in range(n)]

        def build(h, lab):
            if lab in ('RN0', 'RN2'):
                return hci.HCI_Remote_Name_Request_Command(bd_addr=hci.Address(w.addresses[int(lab[2])]), page_scan_repetition_mode=0, reserved=0, clock_offset=0)
            fam = 'remote_le' if world == 'le_connected' else 'remote_classic'
            for lab2, cname, over in seq_families()[fam][1]:
                if lab2 == lab:
                    break
            cls = getattr(hci, cname)
            c = w.controllers[h]
            acl = next(iter(list(c.le_connections.values()) + list(c.classic_connections.values())), None)
            base = cls.from_parameters(bytes(min_params(cls)))
            return rebuild(cls, base, **{k: (acl.handle if v == '@acl' else v) for k, v in over.items()})

        cmds = [(h, build(h, lab)) for h, lab in script]
        sched = explore.Sched(prefix, hold=True, expect_fp=fp)
        w.loop.scheduler = sched
        tasks = [w.loop.create_task(w.hosts[h].send_command(c)) for h, c in cmds]
        sched.active = True
        w.loop.run_until(lambda: all(t.done() for t in tasks), horizon=w.loop.time() + 3.0, max_steps=50000)
        w.loop.run_quiescent(max_steps=50000)
        sched.active = False
        w.loop.advance(30.0, max_steps=400000)
        w.loop.collect_exceptions()
        viol = []
        pend = [i for i, t in enumerate(tasks) if not t.done()]
        if pend:
            viol.append(('overlap_caller_pending', {'script': params['script']}, f'script {script}: callers {pend} never completed: ' + ' | '.join(fmt_log(t.log) for t in taps)))
        for t in tasks:
            if t.done() and not t.cancelled():
                t.exception()
        obs = []
        for h in range(n):
            for op in sorted({c.op_code for hh, c in cmds if hh == h}):
                if op not in SEQ_COMPLETIONS:
                    continue
                acc = sum(1 for r in taps[h].responses(op) if r == ('CS', 0))
                code, subc = SEQ_COMPLETIONS[op]
                got = len(taps[h].events(code, subc))
                obs.append((h, op, acc, got))
                if acc != got:
                    viol.append(('overlap_proc_conclusions', {'opcode': f'{op:#06x}', 'accepted': acc, 'concluded': got, 'hosts': len({hh for hh, _ in script})},
                                 f'script {script}: host {h} had {acc} request(s) {op:#06x} accepted but {got} completion event(s): {fmt_log(taps[h].log)}'))
        return {'points': sched.points, 'fp': sched.fp, 'obs': [obs, [fmt_log(t.log) for t in taps]], 'viol': viol}
    finally:
        w.__exit__()
