"""C06 — the virtual link connects the right peers and delivers only between them.

2-3 full Device/Host/Controller stacks on one LocalLink under the virtual loop.
A *script* (connects, data both ways, disconnects, scanning) is the reference; the
observations (connection / disconnection events, payloads on a test fixed channel,
advertising reports) of every device are compared with what the script implies.
Configurations (own-address types, legacy/extended advertising, transport,
controller iteration order) are enumerated exhaustively; schedules (order-preserving
link / HCI delays) up to the deviation bound.
"""
from __future__ import annotations

import itertools

from .. import core, explore
from ..harness.devices import World
from ..vloop import Hang, StepBudgetExceeded

LEVEL = 'exploration'
TEST_CID = 0x3E


# ---------------------------------------------------------------------------
# scripts: lists of operations, devices are indices
# ---------------------------------------------------------------------------
# ('adv', dev)                       dev starts connectable advertising (own address type from config)
# ('connect', name, central, peripheral)      awaited
# ('connect_bg', name, central, peripheral)   started, completion awaited by ('join', name)
# ('join', name)
# ('send', name, 'c'|'p', tag)        the central / peripheral end of connection `name` sends one PDU ('sendq': without letting the event loop run afterwards; 'sendq?': sent towards an end that is about to disconnect, so it may be lost - if it arrives it arrives once, intact, in order)
# ('disc', name, 'c'|'p')             that end disconnects
SCRIPTS = {
    'pair': (2, [('adv', 1), ('connect', 'x', 0, 1), ('send', 'x', 'c', 1), ('send', 'x', 'p', 2), ('send', 'x', 'c', 3), ('disc', 'x', 'c')]),
    'pair_pdisc': (2, [('adv', 1), ('connect', 'x', 0, 1), ('send', 'x', 'p', 1), ('send', 'x', 'c', 2), ('disc', 'x', 'p')]),
    'reconnect': (2, [('adv', 1), ('connect', 'x', 0, 1), ('send', 'x', 'c', 1), ('disc', 'x', 'p'), ('adv', 1), ('connect', 'y', 0, 1), ('send', 'y', 'p', 2), ('send', 'y', 'c', 3), ('disc', 'y', 'c')]),
    'fan_out': (3, [('adv', 1), ('adv', 2), ('connect', 'x', 0, 1), ('connect', 'y', 0, 2), ('send', 'x', 'c', 1), ('send', 'y', 'c', 2), ('send', 'y', 'p', 3), ('send', 'x', 'p', 4), ('disc', 'x', 'c'), ('send', 'y', 'c', 5), ('send', 'y', 'p', 6), ('disc', 'y', 'p')]),
    'fan_out_rev': (3, [('adv', 1), ('adv', 2), ('connect', 'y', 0, 2), ('connect', 'x', 0, 1), ('send', 'x', 'c', 1), ('send', 'y', 'c', 2), ('send', 'y', 'p', 3), ('send', 'x', 'p', 4), ('disc', 'y', 'p'), ('send', 'x', 'c', 5), ('send', 'x', 'p', 6), ('disc', 'x', 'c')]),
    'fan_in': (3, [('adv', 1), ('connect', 'x', 0, 1), ('adv', 1), ('connect', 'y', 2, 1), ('send', 'x', 'c', 1), ('send', 'y', 'c', 2), ('send', 'x', 'p', 3), ('send', 'y', 'p', 4), ('disc', 'x', 'p'), ('send', 'y', 'p', 5), ('send', 'y', 'c', 6), ('disc', 'y', 'c')]),
    'chain': (3, [('adv', 1), ('adv', 2), ('connect', 'x', 0, 1), ('connect', 'y', 1, 2), ('send', 'x', 'c', 1), ('send', 'y', 'c', 2), ('send', 'x', 'p', 3), ('send', 'y', 'p', 4), ('disc', 'y', 'c'), ('send', 'x', 'c', 5), ('disc', 'x', 'p')]),
    # B is central and peripheral at once: its outgoing connect to C is pending while A's incoming one arrives
    'chain_race': (3, [('adv', 1), ('adv', 2), ('connect_bg', 'y', 1, 2), ('connect_bg', 'x', 0, 1), ('join', 'x'), ('join', 'y'), ('send', 'x', 'c', 1), ('send', 'y', 'c', 2), ('send', 'x', 'p', 3), ('send', 'y', 'p', 4), ('disc', 'x', 'c'), ('disc', 'y', 'p')]),
    # A's outgoing connect (to C, which advertises late) is pending while B connects to A
    'incoming_while_pending': (3, [('adv', 0), ('connect_bg', 'y', 0, 2), ('connect', 'x', 1, 0), ('adv', 2), ('join', 'y'), ('send', 'x', 'c', 1), ('send', 'y', 'c', 2), ('send', 'x', 'p', 3), ('send', 'y', 'p', 4), ('disc', 'x', 'c'), ('disc', 'y', 'c')]),
    # handle allocation with a hole in the table: x and y live, x closed, z opened (reuses x's handle), x re-opened
    # while y and z are live -> every live connection must keep a distinct handle and its own data
    'handle_reuse': (4, [('adv', 1), ('adv', 2), ('adv', 3), ('connect', 'x', 0, 1), ('connect', 'y', 0, 2), ('disc', 'x', 'c'), ('connect', 'z', 0, 3), ('adv', 1), ('connect', 'x2', 0, 1), ('send', 'x2', 'c', 1), ('send', 'y', 'c', 2), ('send', 'z', 'c', 3), ('send', 'x2', 'p', 4), ('send', 'y', 'p', 5), ('send', 'z', 'p', 6), ('disc', 'y', 'c'), ('send', 'z', 'c', 7), ('send', 'x2', 'c', 8), ('disc', 'z', 'p'), ('disc', 'x2', 'c')]),
    # two dual-mode devices connected over LE and BR/EDR at the same time: each PDU stays on its own connection
    # PDUs handed over back to back and the link closed straight afterwards, with no turn of the event loop in between:
    # what was sent before the disconnect request still belongs to the connection and must arrive, in order
    'burst_cdisc': (2, [('adv', 1), ('connect', 'x', 0, 1), ('sendq', 'x', 'c', 1), ('sendq', 'x', 'c', 2), ('sendq?', 'x', 'p', 3), ('sendq', 'x', 'c', 4), ('disc', 'x', 'c')]),
    'burst_pdisc': (2, [('adv', 1), ('connect', 'x', 0, 1), ('sendq', 'x', 'p', 1), ('sendq?', 'x', 'c', 2), ('sendq', 'x', 'p', 3), ('disc', 'x', 'p')]),
    'burst_two_links': (3, [('adv', 1), ('adv', 2), ('connect', 'x', 0, 1), ('connect', 'y', 0, 2), ('sendq', 'x', 'c', 1), ('sendq', 'y', 'c', 2), ('sendq', 'x', 'c', 3), ('sendq?', 'y', 'p', 4), ('disc', 'x', 'c'), ('sendq', 'y', 'c', 5), ('disc', 'y', 'c')]),
    # an application that sends from its 'connection' event listener, the first moment the connection exists for it
    'greet_c': (2, [('greet', 'c'), ('adv', 1), ('connect', 'x', 0, 1), ('send', 'x', 'c', 1), ('send', 'x', 'p', 2), ('disc', 'x', 'c')]),
    'greet_p': (2, [('greet', 'p'), ('adv', 1), ('connect', 'x', 0, 1), ('send', 'x', 'p', 1), ('send', 'x', 'c', 2), ('disc', 'x', 'p')]),
    'greet_both': (2, [('greet', 'c'), ('greet', 'p'), ('adv', 1), ('connect', 'x', 0, 1), ('send', 'x', 'c', 1), ('send', 'x', 'p', 2), ('disc', 'x', 'c')]),
    # BR/EDR: two devices page the same third device in the same turn of the event loop
    'page_race': (3, [('connect_bg', 'x', 0, 2), ('connect_bg', 'y', 1, 2), ('join', 'x'), ('join', 'y'), ('send', 'x', 'c', 1), ('send', 'y', 'c', 2), ('send', 'x', 'p', 3), ('send', 'y', 'p', 4), ('disc', 'x', 'c'), ('send', 'y', 'c', 5), ('disc', 'y', 'p')]),
    'dual_mode': (2, [('adv', 1), ('connect', 'x', 0, 1), ('connect_cl', 'y', 0, 1), ('send', 'x', 'c', 1), ('send', 'y', 'c', 2), ('send', 'y', 'p', 3), ('send', 'x', 'p', 4), ('disc', 'x', 'c'), ('send', 'y', 'c', 5), ('send', 'y', 'p', 6), ('disc', 'y', 'p')]),
    'dual_mode_rev': (2, [('connect_cl', 'y', 0, 1), ('adv', 1), ('connect', 'x', 0, 1), ('send', 'y', 'p', 1), ('send', 'x', 'p', 2), ('send', 'x', 'c', 3), ('send', 'y', 'c', 4), ('disc', 'y', 'c'), ('send', 'x', 'c', 5), ('send', 'x', 'p', 6), ('disc', 'x', 'p')]),
}
DUAL_SCRIPTS = ('dual_mode', 'dual_mode_rev')
CLASSIC_ONLY = ('page_race',)
CLASSIC_SCRIPTS = ['pair', 'pair_pdisc', 'reconnect', 'fan_out', 'fan_in', 'chain', 'handle_reuse', 'burst_cdisc', 'burst_pdisc', 'burst_two_links', 'greet_c', 'greet_p', 'greet_both', 'page_race']


def payload(tag, name):
    return bytes([0xC0 + tag]) + name.encode() + bytes(range(tag, tag + 5))


class Obs:
    def __init__(self, w):
        self.w = w
        self.events = [[] for _ in w.devices]  # per device
        self.greet = set()  # roles ('c' / 'p') whose 'connection' listener sends a PDU at once
        self.greeted = []  # (device, handle, role, data)
        for i, d in enumerate(w.devices):
            d.on('connection', lambda c, i=i: self._on_conn(i, c))
            d.l2cap_channel_manager.register_fixed_channel(TEST_CID, lambda h, pdu, i=i: self.events[i].append(('rx', h, bytes(pdu))))
            d.on('advertisement', lambda adv, i=i: self.events[i].append(('advert', str(adv.address), bytes(adv.data_bytes), bool(adv.is_scan_response) if hasattr(adv, 'is_scan_response') else None)))

    def _on_conn(self, i, c):
        self.events[i].append(('conn', c.handle, int(c.role), str(c.self_address), str(c.peer_address), id(c)))
        c.on('disconnection', lambda reason, i=i, c=c: self.events[i].append(('disc', c.handle, id(c))))
        if not hasattr(self, 'conns'):
            self.conns = {}
        self.conns.setdefault(i, []).append(c)
        role = 'c' if int(c.role) == 0 else 'p'
        if role in self.greet:
            data = payload(9 if role == 'c' else 10, 'g')
            self.greeted.append((i, c.handle, role, data))
            self.w.devices[i].send_l2cap_pdu(c.handle, TEST_CID, data)


def adv_address(w, cfg, dev):
    from bumble.hci import Address

    d = w.devices[dev]
    if cfg['transport'] == 'classic':
        return d.public_address
    if cfg.get('set_addr') and cfg['ext'][dev] and cfg['adv_own'][dev] == 'random':
        # an extended advertising set with a random address of its own (not the device's)
        return Address('C%d:C%d:C%d:C%d:C%d:C%d' % ((dev,) * 6), Address.RANDOM_DEVICE_ADDRESS)
    return d.public_address if cfg['adv_own'][dev] == 'public' else d.random_address


def run_script(cfg, script_name, sched=None):
    """Returns (observation summary, violations [(check, sig, msg)])."""
    from bumble import hci
    from bumble.core import PhysicalTransport

    n, ops = SCRIPTS[script_name]
    classic = cfg['transport'] == 'classic'
    attrs = {}
    for i in range(n):
        if cfg['ext'][i]:
            from bumble.controller import Controller

            attrs[i] = {'le_features': Controller.le_features | hci.LeFeatureMask.LE_EXTENDED_ADVERTISING}
    viol = []

    def bad(check, sig, msg):
        viol.append((check, dict(sig, transport=cfg['transport']), msg))

    dual = script_name in DUAL_SCRIPTS
    with World(n, classic=classic or dual, le=not classic, controller_attrs=attrs, direct=bool(cfg.get('direct'))) as w:
        w.link.controllers.reorder(cfg['order'])
        w.power_on()
        obs = Obs(w)
        if sched is not None:
            w.loop.scheduler = sched
            sched.active = True
        conns = {}  # name -> dict(c=dev, p=dev, cconn=..., pconn=..., sent={'c':[], 'p':[]}, alive)
        bg = {}
        burst = []
        horizon = lambda: w.loop.time() + 5.0

        def settle():
            w.loop.run_quiescent(max_steps=100000)

        def finish_connect(name, central, peripheral, cconn, target):
            # find the peripheral-side Connection created for this link
            cands = [
                c
                for c in getattr(obs, 'conns', {}).get(peripheral, [])
                if int(c.role) == 1 and c.transport == cconn.transport and all(c is not k['pconn'] for k in conns.values())
            ]
            if str(cconn.peer_address) != str(target) and bytes(cconn.peer_address) != bytes(target):
                bad('wrong_peer', {'script': script_name, 'what': 'connect_result'}, f'{script_name}: device {central} asked for {target} and was handed a connection to {cconn.peer_address}')
            if int(cconn.role) != 0:
                bad('wrong_connection', {'script': script_name, 'what': 'role'}, f'{script_name}: connect() on device {central} returned a connection with role {cconn.role!r} (an incoming connection?)')
            pconn = None
            for c in cands:
                if bytes(c.peer_address) == bytes(cconn.self_address):
                    pconn = c
            if pconn is None and cands:
                pconn = cands[-1]
            if pconn is None:
                bad('no_peer_event', {'script': script_name}, f'{script_name}: device {peripheral} (owner of {target}) reported no connection for the link made by device {central}')
            conns[name] = {'c': central, 'p': peripheral, 'cconn': cconn, 'pconn': pconn, 'alive': True}
            if pconn is not None:
                # an address is its six bytes AND its kind (public / random): the devices of this world use the same six
                # bytes for their public and their random address, so only the kind tells which own-address was reported
                same = lambda a, b: bytes(a) == bytes(b) and bool(a.is_public) == bool(b.is_public)
                if not same(cconn.peer_address, pconn.self_address) or not same(cconn.self_address, pconn.peer_address):
                    bad(
                        'address_mismatch',
                        {'script': script_name},
                        f'{script_name}: ends disagree on addresses: central self={cconn.self_address} peer={cconn.peer_address}; peripheral self={pconn.self_address} peer={pconn.peer_address}',
                    )

        async def do_connect(central, target, force_classic=False):
            d = w.devices[central]
            if classic or force_classic:
                return await d.connect(target, transport=PhysicalTransport.BR_EDR)
            own = hci.OwnAddressType.PUBLIC if cfg['init_own'] == 'public' else hci.OwnAddressType.RANDOM
            return await d.connect(target, own_address_type=own)

        try:
            for op in ops:
                kind = op[0]
                if kind == 'greet':
                    obs.greet.add(op[1])
                    continue
                if kind == 'adv':
                    if classic:
                        continue
                    own = hci.OwnAddressType.PUBLIC if cfg['adv_own'][op[1]] == 'public' else hci.OwnAddressType.RANDOM
                    if cfg.get('set_addr') and cfg['ext'][op[1]] and cfg['adv_own'][op[1]] == 'random':
                        from bumble.device import AdvertisingParameters

                        w.loop.run(
                            w.devices[op[1]].create_advertising_set(
                                random_address=adv_address(w, cfg, op[1]),
                                advertising_parameters=AdvertisingParameters(
                                    own_address_type=own, primary_advertising_interval_min=200.0, primary_advertising_interval_max=200.0
                                ),
                                advertising_data=bytes([2, 1, 6, 3, 0xFF, 0x40 + op[1], op[1]]),
                            ),
                            horizon=horizon(),
                        )
                        continue
                    w.loop.run(
                        w.devices[op[1]].start_advertising(
                            own_address_type=own,
                            advertising_interval_min=200.0,
                            advertising_interval_max=200.0,
                            advertising_data=bytes([2, 1, 6, 3, 0xFF, 0x40 + op[1], op[1]]),
                        ),
                        horizon=horizon(),
                    )
                elif kind in ('connect', 'connect_bg', 'connect_cl'):
                    _, name, central, peripheral = op
                    target = adv_address(w, cfg, peripheral) if kind != 'connect_cl' else w.devices[peripheral].public_address
                    t = w.loop.create_task(do_connect(central, target, kind == 'connect_cl'))
                    bg[name] = (t, central, peripheral, target)
                    if kind in ('connect', 'connect_cl'):
                        if not w.loop.run_until(t.done, horizon=horizon(), max_steps=100000):
                            bad('connect_hang', {'script': script_name, 'conn': name}, f'{script_name}: connect of device {central} to {target} never completed')
                            break
                        settle()
                        if t.exception():
                            bad('connect_failed', {'script': script_name, 'conn': name}, f'{script_name}: connect of device {central} to {target} raised {t.exception()!r}')
                            break
                        finish_connect(name, central, peripheral, t.result(), target)
                elif kind == 'join':
                    t, central, peripheral, target = bg[op[1]]
                    if not w.loop.run_until(t.done, horizon=horizon(), max_steps=100000):
                        bad('connect_hang', {'script': script_name, 'conn': op[1]}, f'{script_name}: background connect of device {central} to {target} never completed')
                        break
                    settle()
                    if t.exception():
                        bad('connect_failed', {'script': script_name, 'conn': op[1]}, f'{script_name}: background connect of device {central} to {target} raised {t.exception()!r}')
                        break
                    finish_connect(op[1], central, peripheral, t.result(), target)
                elif kind in ('send', 'sendq', 'sendq?'):
                    _, name, side, tag = op
                    k = conns.get(name)
                    if not k or k['pconn'] is None:
                        continue
                    conn = k['cconn'] if side == 'c' else k['pconn']
                    dev = w.devices[k[side]]
                    data = payload(tag, name)
                    k.setdefault('sent', {'c': [], 'p': []})[side].append(data)
                    if kind == 'send':
                        dev.send_l2cap_pdu(conn.handle, TEST_CID, data)
                        settle()
                    else:
                        # handed over by the coroutine that runs the next 'disc' (same turn of the event loop)
                        burst.append(lambda dev=dev, h=conn.handle, data=data: dev.send_l2cap_pdu(h, TEST_CID, data))
                elif kind == 'disc':
                    _, name, side = op
                    k = conns.get(name)
                    if not k or k['pconn'] is None:
                        continue
                    conn = k['cconn'] if side == 'c' else k['pconn']

                    async def send_then_disconnect(conn=conn, todo=list(burst)):
                        for f in todo:
                            f()
                        await conn.disconnect()

                    burst.clear()
                    t = w.loop.create_task(send_then_disconnect())
                    if not w.loop.run_until(t.done, horizon=horizon(), max_steps=100000):
                        bad('disconnect_hang', {'script': script_name}, f'{script_name}: disconnect of {name} by its {side} end never completed')
                    settle()
                    k['alive'] = False
            settle()
        except (Hang, StepBudgetExceeded) as e:
            bad('hang', {'script': script_name}, f'{script_name}: {type(e).__name__} {e}')
        if sched is not None:
            sched.active = False

        # ---------------- oracle over the whole run ----------------
        # (1) connection events: exactly the scripted ones on each device
        expected_conn_events = [0] * n
        for name, k in conns.items():
            expected_conn_events[k['c']] += 1
            expected_conn_events[k['p']] += 1
        for i in range(n):
            got = [e for e in obs.events[i] if e[0] == 'conn']
            if len(got) != expected_conn_events[i] and not viol:
                bad('stray_connection_event', {'script': script_name, 'device_role': 'bystander' if expected_conn_events[i] == 0 else 'party'}, f'{script_name}: device {i} reported {len(got)} connection(s), the script made {expected_conn_events[i]}: {got}')
        # (2) distinct live handles per device: checked at each connect via handles of simultaneously alive connections
        for i in range(n):
            alive = []
            for e in obs.events[i]:
                if e[0] == 'conn':
                    if e[1] in alive:
                        bad('duplicate_handle', {'script': script_name}, f'{script_name}: device {i} got handle {e[1]:#x} for a new connection while it was still in use')
                    alive.append(e[1])
                elif e[0] == 'disc' and e[1] in alive:
                    alive.remove(e[1])
        # (3) data: each PDU exactly once, in order, at the peer end and nowhere else
        expected_rx = [[] for _ in range(n)]
        optional = set()
        order_per_dev = []
        for dev, handle, role, data in obs.greeted:  # single-connection scripts: the greeting is the first PDU of the link
            for k in conns.values():
                if k[role] == dev and k['pconn'] is not None and (k['cconn'] if role == 'c' else k['pconn']).handle == handle:
                    rcv = 'p' if role == 'c' else 'c'
                    expected_rx[k[rcv]].append(((k['pconn'] if rcv == 'p' else k['cconn']).handle, data))
        for op in ops:
            if op[0] in ('send', 'sendq', 'sendq?') and op[1] in conns and conns[op[1]]['pconn'] is not None:
                k = conns[op[1]]
                rcv_side = 'p' if op[2] == 'c' else 'c'
                rconn = k['pconn'] if rcv_side == 'p' else k['cconn']
                expected_rx[k[rcv_side]].append((rconn.handle, payload(op[3], op[1])))
                if op[0] == 'sendq?':
                    optional.add((rconn.handle, payload(op[3], op[1])))
        for i in range(n):
            got = [(e[1], e[2]) for e in obs.events[i] if e[0] == 'rx']
            if got != expected_rx[i] and got == [x for x in expected_rx[i] if x not in optional or x in got]:
                continue  # only PDUs racing with the receiver's own disconnect are missing
            if got != expected_rx[i]:
                missing = [x for x in expected_rx[i] if x not in got]
                extra = [x for x in got if x not in expected_rx[i]]
                kind = 'lost' if missing and not extra else ('misdelivered' if extra else 'reordered_or_duplicated')
                bad('data_' + kind, {'script': script_name}, f'{script_name}: device {i} received {[(hex(h), p.hex()) for h, p in got]} expected {[(hex(h), p.hex()) for h, p in expected_rx[i]]}')
        # (4) disconnections: both ends of a disconnected link report it, nobody else
        for name, k in conns.items():
            if k['pconn'] is None:
                continue
            for side in ('c', 'p'):
                conn = k['cconn'] if side == 'c' else k['pconn']
                got = [e for e in obs.events[k[side]] if e[0] == 'disc' and e[2] == id(conn)]
                want = 0 if k['alive'] else 1
                if len(got) != want:
                    bad('disconnection_report', {'script': script_name, 'side': side, 'got': len(got)}, f'{script_name}: link {name}: {side} end reported {len(got)} disconnection(s), expected {want}')
        # table agreement at the end
        for i in range(n):
            alive_expected = sum(1 for k in conns.values() if k['alive'] and i in (k['c'], k['p']))
            if len(w.devices[i].connections) != alive_expected and not viol:
                bad('live_set', {'script': script_name}, f'{script_name}: device {i} holds {len(w.devices[i].connections)} connections, script says {alive_expected}')
        excs = w.loop.collect_exceptions()
        summary = [[tuple(x for x in e[:5] if not isinstance(x, int) or x < 1 << 20) for e in ev if e[0] != 'advert'] for ev in obs.events]
        return summary, viol, excs


def run_c06(params, prefix, fp):
    sched = explore.Sched(prefix, hold=True, expect_fp=fp)
    summary, viol, excs = run_script(params['cfg'], params['script'], sched)
    return {'points': sched.points, 'fp': sched.fp, 'obs': summary, 'viol': viol}


# ---------------------------------------------------------------------------
# scanning sub-check
# ---------------------------------------------------------------------------
def run_scan(cfg):
    """Device 0 scans; devices 1..n-1 advertise distinct advertising / scan-response data."""
    from bumble import hci
    from bumble.controller import Controller

    n = cfg['n']
    attrs = {i: {'le_features': Controller.le_features | hci.LeFeatureMask.LE_EXTENDED_ADVERTISING} for i in range(n) if cfg['ext'][i]}
    viol = []
    with World(n, controller_attrs=attrs) as w:
        w.link.controllers.reorder(cfg['order'])
        w.power_on()
        reports = []
        # raw reports as the scanner's controller hands them to its host (the Device layer merges
        # advertising data and scan response into one 'advertisement' when scanning actively)
        w.hosts[0].on('advertising_report', lambda r: reports.append((bytes(r.address), int(r.address.address_type), bytes(r.data), int(r.event_type) == 4)))
        expect = {}
        for i in range(1, n):
            ad = bytes(((7 * i + j) & 0xFF) or 1 for j in range(cfg['adv_len']))
            sr = bytes(((0x80 + 5 * i + j) & 0xFF) or 1 for j in range(cfg['sr_len']))
            own = hci.OwnAddressType.PUBLIC if cfg['adv_own'][i] == 'public' else hci.OwnAddressType.RANDOM
            addr = w.devices[i].public_address if cfg['adv_own'][i] == 'public' else w.devices[i].random_address
            expect[bytes(addr)] = (ad, sr, i)
            w.loop.run(
                w.devices[i].start_advertising(own_address_type=own, advertising_interval_min=200.0, advertising_interval_max=200.0, advertising_data=ad, scan_response_data=sr),
                horizon=w.loop.time() + 5,
            )
        w.loop.run(w.devices[0].start_scanning(active=cfg['active'], filter_duplicates=False), horizon=w.loop.time() + 5)
        w.loop.advance(1.0)
        w.loop.run_quiescent()
        sig = {'ext_scanner': cfg['ext'][0], 'active': cfg['active']}
        for addr, (ad, sr, i) in expect.items():
            mine = [r for r in reports if r[0] == addr]
            advs = [r for r in mine if not r[3]]
            srs = [r for r in mine if r[3]]
            if not advs:
                viol.append(('scan_no_report', dict(sig, kind='no_advertising_report'), f'scanner got no advertising report from device {i} ({addr.hex()}); reports={len(reports)}'))
                continue
            if any(r[2] != ad for r in advs):
                viol.append(('scan_adv_data', dict(sig, kind='advertising_data_differs'), f'advertising report of device {i} carries {advs[0][2].hex()} but it advertises {ad.hex()}'))
            if cfg['active']:
                if not srs:
                    viol.append(('scan_no_scan_response', dict(sig, kind='no_scan_response_report'), f'active scanner got no scan response report from device {i}'))
                elif any(r[2] != sr for r in srs):
                    viol.append(('scan_rsp_data', dict(sig, kind='scan_response_data_differs'), f'scan response report of device {i} carries {srs[0][2].hex()} but its scan response data is {sr.hex()}'))
        for r in reports:
            if r[0] not in expect:
                viol.append(('scan_phantom', dict(sig, kind='phantom_advertiser'), f'report from an address nobody advertises: {r[0].hex()}'))
                break
    return viol, len(reports)


# ---------------------------------------------------------------------------
def configs(quick):
    out = []
    for script in SCRIPTS:
        if script in CLASSIC_ONLY:
            continue
        n = SCRIPTS[script][0]
        orders = list(itertools.permutations(range(n)))
        for init_own in ('random', 'public'):
            for adv_own in ('random', 'public'):
                for ext in ((False,) * n, (True,) * n) + (((True,) + (False,) * (n - 1), (False,) + (True,) * (n - 1)) if not quick else ()):
                    for order in orders if ((not quick and n < 4) or n == 2) else (orders[0], orders[-1], orders[2]):
                        out.append(({'transport': 'le', 'init_own': init_own, 'adv_own': [adv_own] * n, 'ext': list(ext), 'order': list(order)}, script))
                        if all(ext) and adv_own == 'random' and script not in DUAL_SCRIPTS and order == orders[0]:
                            # extended advertising sets that advertise with a random address of their own
                            out.append(({'transport': 'le', 'init_own': init_own, 'adv_own': [adv_own] * n, 'ext': list(ext), 'order': list(order), 'set_addr': True}, script))
    # hosts wired to their controllers synchronously (no HCI transport delay at all): commands take effect at once
    for script in ('pair', 'pair_pdisc', 'reconnect', 'fan_out', 'burst_cdisc', 'burst_pdisc', 'burst_two_links', 'greet_c', 'greet_p', 'greet_both') + (() if quick else ('fan_in', 'chain', 'handle_reuse')):
        n = SCRIPTS[script][0]
        for init_own in ('random', 'public'):
            for adv_own in ('random', 'public'):
                out.append(({'transport': 'le', 'init_own': init_own, 'adv_own': [adv_own] * n, 'ext': [False] * n, 'order': list(range(n)), 'direct': True}, script))
        out.append(({'transport': 'classic', 'init_own': 'public', 'adv_own': ['public'] * n, 'ext': [False] * n, 'order': list(range(n)), 'direct': True}, script))
    for script in CLASSIC_SCRIPTS:
        n = SCRIPTS[script][0]
        for order in list(itertools.permutations(range(n)))[:: (1 if n < 4 else 5)]:
            out.append(({'transport': 'classic', 'init_own': 'public', 'adv_own': ['public'] * n, 'ext': [False] * n, 'order': list(order)}, script))
    return out


def scan_configs(quick):
    out = []
    for n in (2, 3):
        # the scanner uses legacy scanning (the virtual controller has no extended-scan commands); advertisers use both
        for ext in ((False,) * n, (False,) + (True,) * (n - 1)):
            for active in (False, True):
                for adv_own in ('random', 'public'):
                    for adv_len, sr_len in ((0, 0), (1, 31), (31, 1), (31, 31)) if not quick else ((1, 31), (31, 1)):
                        for order in itertools.permutations(range(n)) if not quick else [tuple(range(n)), tuple(reversed(range(n)))]:
                            out.append({'n': n, 'ext': list(ext), 'active': active, 'adv_own': [adv_own] * n, 'adv_len': adv_len, 'sr_len': sr_len, 'order': list(order)})
    return out


def w_d0(arg):
    st = core.Stats('scripts_d0')
    for cfg, script in arg:
        summary, viol, excs = run_script(cfg, script, None)
        st.case((cfg, script), None)
        st.add('outcomes', core.digest(summary))
        for check, sig, msg in viol:
            sig = dict(sig, init_own=cfg['init_own'], adv_own=cfg['adv_own'][0], ext=('all' if all(cfg['ext']) else 'none' if not any(cfg['ext']) else 'mixed'))
            st.violation(check, sig, f'[{cfg["transport"]} init={cfg["init_own"]} adv={cfg["adv_own"][0]} ext={cfg["ext"]} order={cfg["order"]}] {msg}', {'cfg': cfg, 'script': script, 'prefix': {}})
        if len(st.samples) < 2:
            st.samples.append({'cfg': cfg, 'script': script, 'events': summary})
    return st


def w_scan(arg):
    st = core.Stats('scanning')
    for cfg in arg:
        viol, nrep = run_scan(cfg)
        st.case(cfg, None)
        st.count('reports_seen', nrep)
        for check, sig, msg in viol:
            st.violation(check, sig, f'[{cfg}] {msg}', {'cfg': cfg})
        if len(st.samples) < 2:
            st.samples.append({'cfg': cfg, 'reports': nrep})
    return st


def run(ctx: core.Context) -> int:
    quick = ctx.quick
    only = getattr(ctx, 'only', None)
    if not only or 'd0' in only:
        cfgs = configs(quick)
        for r in core.pmap(w_d0, core.split(cfgs, ctx.jobs * 3), ctx.jobs):
            ctx.sub('scripts_d0').merge(r)
        ctx.log('scripts_d0', ctx.sub('scripts_d0').summary())
    if not only or 'scan' in only:
        for r in core.pmap(w_scan, core.split(scan_configs(quick), ctx.jobs * 2), ctx.jobs):
            ctx.sub('scanning').merge(r)
        ctx.log('scanning', ctx.sub('scanning').summary())
        for r in core.pmap(w_scan_raw, core.split(scan_raw_configs(quick), ctx.jobs * 2), ctx.jobs):
            ctx.sub('scanning_raw').merge(r)
        ctx.log('scanning_raw', ctx.sub('scanning_raw').summary())
    if not only or 'sched' in only:
        st = ctx.sub('schedules')
        reps = []
        for script in ('pair', 'fan_out', 'fan_in', 'chain_race', 'incoming_while_pending', 'burst_cdisc', 'burst_pdisc', 'greet_both') if quick else [x for x in SCRIPTS if x not in CLASSIC_ONLY]:
            n = SCRIPTS[script][0]
            reps.append(({'transport': 'le', 'init_own': 'random', 'adv_own': ['random'] * n, 'ext': [False] * n, 'order': list(range(n))}, script))
            if not quick:
                reps.append(({'transport': 'le', 'init_own': 'random', 'adv_own': ['random'] * n, 'ext': [True] * n, 'order': list(reversed(range(n)))}, script))
        for script in ('pair', 'fan_in', 'greet_p', 'page_race') if quick else CLASSIC_SCRIPTS:
            n = SCRIPTS[script][0]
            reps.append(({'transport': 'classic', 'init_own': 'public', 'adv_own': ['public'] * n, 'ext': [False] * n, 'order': list(range(n))}, script))
        for cfg, script in reps:
            explore.explore(run_c06, {'cfg': cfg, 'script': script}, 1 if quick else 2, ctx.jobs, st, label=f'{script}/{cfg["transport"]}:', max_runs=4000 if quick else 60000)
        ctx.log('schedules', st.summary())
    return core.finish(
        ctx,
        LEVEL,
        rule=(
            'scripts_d0: 16 scripts (incl. two devices paging a third at the same moment, applications that send from their connection-event listener, two dual-mode LE+BR/EDR scripts and extended advertising sets with an address of their own) (connect/data/disconnect orders over 2-3 devices incl. a device that is central and peripheral at once '
            'with racing connects) x own-address type of initiator and advertisers x legacy/extended advertising x LE/BR-EDR x controller '
            'iteration orders, default schedule; scanning: passive/active scanner x advertisers x payload lengths; schedules: representative '
            'configurations under all order-preserving delays up to the deviation bound. distinct = distinct (configuration, script) or '
            '(schedule prefix, fingerprints).'
        ),
        assumptions=['n <= 3 devices, one advertising set per device', 'payload contents fixed per (script, tag)'],
    )


def replay(v: core.Violation):
    c = v.case
    if v.check.startswith('scan_'):
        viol, _ = run_scan_raw(c['cfg']) if c.get('raw') else run_scan(c['cfg'])
        return [m for ck, _, m in viol if ck == v.check]
    if 'params' in c:
        r = run_c06(c['params'], c['prefix'], None)
        return [m for ck, _, m in r['viol'] if ck == v.check]
    _, viol, _ = run_script(c['cfg'], c['script'], explore.Sched(c.get('prefix') or {}) if c.get('prefix') else None)
    return [m for ck, _, m in viol if ck == v.check]


# ---------------------------------------------------------------------------
# scanning sub-check, host-driven: the advertiser's HOST sets (and later replaces) its data with raw HCI commands, in
# every form the commands allow (whole, or as first / intermediate / last fragments), so the controller's bookkeeping
# of an advertising set's data across updates is what the scanner's reports are compared with
# ---------------------------------------------------------------------------
RAW_FORMS = {
    'whole': lambda d: [(3, d)],
    'two': lambda d: [(1, d[: len(d) // 2]), (2, d[len(d) // 2 :])],
    'three': lambda d: [(1, d[:2]), (0, d[2:5]), (2, d[5:])],
    'four': lambda d: [(1, d[:1]), (0, d[1:2]), (0, d[2:6]), (2, d[6:])],
}


def raw_histories(quick):
    forms = list(RAW_FORMS)
    out = [(a,) for a in forms] + [(a, b) for a in forms for b in forms]
    if not quick:
        out += [(a, b, c) for a in forms for b in forms for c in forms]
    return out


def run_scan_raw(cfg):
    """cfg: dict(kind='ext'|'legacy', history=(form, ...), what='adv'|'scan_rsp', active=bool)"""
    from bumble import hci
    from bumble.controller import Controller

    viol = []
    attrs = {1: {'le_features': Controller.le_features | hci.LeFeatureMask.LE_EXTENDED_ADVERTISING}} if cfg['kind'] == 'ext' else {}
    with World(2, controller_attrs=attrs) as w:
        w.power_on()
        host = w.hosts[1]
        reports = []
        w.hosts[0].on('advertising_report', lambda r: reports.append((bytes(r.address), bytes(r.data), int(r.event_type) == 4)))

        def cmd(c):
            r = w.loop.run(host.send_command(c), horizon=w.loop.time() + 5)
            return r

        addr = w.devices[1].random_address
        if cfg['kind'] == 'ext':
            cmd(hci.HCI_LE_Set_Extended_Advertising_Parameters_Command(
                advertising_handle=0, advertising_event_properties=0x13, primary_advertising_interval_min=0x140, primary_advertising_interval_max=0x140,
                primary_advertising_channel_map=7, own_address_type=1, peer_address_type=0, peer_address=hci.Address('00:00:00:00:00:00'),
                advertising_filter_policy=0, advertising_tx_power=0, primary_advertising_phy=1, secondary_advertising_max_skip=0,
                secondary_advertising_phy=1, advertising_sid=0, scan_request_notification_enable=0))
            cmd(hci.HCI_LE_Set_Advertising_Set_Random_Address_Command(advertising_handle=0, random_address=addr))
        else:
            cmd(hci.HCI_LE_Set_Advertising_Parameters_Command(
                advertising_interval_min=0x140, advertising_interval_max=0x140, advertising_type=0, own_address_type=1, peer_address_type=0,
                peer_address=hci.Address('00:00:00:00:00:00'), advertising_channel_map=7, advertising_filter_policy=0))
        w.loop.run(w.devices[0].start_scanning(active=cfg['active'], filter_duplicates=False), horizon=w.loop.time() + 5)

        def enable(on):
            if cfg['kind'] == 'ext':
                cmd(hci.HCI_LE_Set_Extended_Advertising_Enable_Command(enable=int(on), advertising_handles=[0], durations=[0], max_extended_advertising_events=[0]))
            else:
                cmd(hci.HCI_LE_Set_Advertising_Enable_Command(advertising_enable=int(on)))

        sig = {'advertiser': cfg['kind'], 'data': cfg['what'], 'active': cfg['active']}
        for step, form in enumerate(cfg['history']):
            # data of this generation: distinct from every earlier generation, 9 + step bytes
            data = bytes([8 + step, 0xFF] + [(0x30 * (step + 1) + j) & 0xFF for j in range(7 + step)])
            other = bytes([2, 1, 6])
            frags = RAW_FORMS[form](data) if cfg['kind'] == 'ext' else [(3, data)]
            for op, chunk in frags:
                if cfg['kind'] == 'ext':
                    if cfg['what'] == 'adv':
                        cmd(hci.HCI_LE_Set_Extended_Advertising_Data_Command(advertising_handle=0, operation=op, fragment_preference=0, advertising_data=chunk))
                    else:
                        cmd(hci.HCI_LE_Set_Extended_Scan_Response_Data_Command(advertising_handle=0, operation=op, fragment_preference=0, scan_response_data=chunk))
                elif cfg['what'] == 'adv':
                    cmd(hci.HCI_LE_Set_Advertising_Data_Command(advertising_data=chunk))
                else:
                    cmd(hci.HCI_LE_Set_Scan_Response_Data_Command(scan_response_data=chunk))
            if step == 0:
                # the other kind of data stays what it is throughout
                if cfg['kind'] == 'ext':
                    if cfg['what'] == 'adv':
                        cmd(hci.HCI_LE_Set_Extended_Scan_Response_Data_Command(advertising_handle=0, operation=3, fragment_preference=0, scan_response_data=other))
                    else:
                        cmd(hci.HCI_LE_Set_Extended_Advertising_Data_Command(advertising_handle=0, operation=3, fragment_preference=0, advertising_data=other))
                elif cfg['what'] == 'adv':
                    cmd(hci.HCI_LE_Set_Scan_Response_Data_Command(scan_response_data=other))
                else:
                    cmd(hci.HCI_LE_Set_Advertising_Data_Command(advertising_data=other))
            del reports[:]
            enable(True)
            w.loop.advance(1.0)
            w.loop.run_quiescent()
            enable(False)
            w.loop.run_quiescent()
            mine = [r for r in reports if r[0] == bytes(addr)]
            advs = [r[1] for r in mine if not r[2]]
            srs = [r[1] for r in mine if r[2]]
            want_adv, want_sr = (data, other) if cfg['what'] == 'adv' else (other, data)
            where = f'{cfg["kind"]} advertiser, {cfg["what"]} data set as {list(cfg["history"][: step + 1])} (generation {step})'
            if not advs:
                viol.append(('scan_no_report', dict(sig, kind='no_advertising_report', raw=True), f'{where}: scanner got no advertising report'))
                break
            if any(a != want_adv for a in advs):
                viol.append(('scan_adv_data', dict(sig, kind='advertising_data_differs', raw=True, form=form), f'{where}: advertising report carries {advs[0].hex()}, the host set {want_adv.hex()}'))
                break
            if cfg['active'] and srs and any(x != want_sr for x in srs):
                # same signature as the Device-driven scanning sub-check: one root cause (known finding: scan response
                # reports are filled with the advertising data)
                v = ('scan_rsp_data', {'ext_scanner': False, 'active': True, 'kind': 'scan_response_data_differs'}, f'{where}: scan response report carries {srs[0].hex()}, the host set {want_sr.hex()}')
                if v[:2] not in [x[:2] for x in viol]:
                    viol.append(v)
        w.loop.collect_exceptions()
    return viol, len(reports)


def scan_raw_configs(quick):
    out = []
    for kind in ('ext', 'legacy'):
        for what in ('adv', 'scan_rsp'):
            for active in (False, True):
                if what == 'scan_rsp' and not active:
                    continue
                hs = raw_histories(quick) if kind == 'ext' else [('whole',), ('whole', 'whole'), ('whole', 'whole', 'whole')]
                for h in hs:
                    out.append({'kind': kind, 'what': what, 'active': active, 'history': list(h)})
    return out


def w_scan_raw(arg):
    st = core.Stats('scanning_raw')
    for cfg in arg:
        viol, nrep = run_scan_raw(cfg)
        st.case(cfg, None)
        st.count('reports_seen', nrep)
        for check, sig, msg in viol:
            st.violation(check, sig, f'[{cfg}] {msg}', {'cfg': cfg, 'raw': True})
        if len(st.samples) < 2:
            st.samples.append({'cfg': cfg, 'reports': nrep})
    return st
