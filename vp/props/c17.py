"""C17 — hostile peer or controller input cannot wedge or derail the stack.

Fault enumeration on the real stack.  For every protocol bed (c17_beds.BEDS) a finite, explicitly
generated list of hostile frames (c17_wire: one well-formed seed per PDU class and its <= 1 (quick) /
<= 2 (thorough) deviation neighbourhood, every byte string of length 0..2, nested SDP elements, the
grammar of malformed AT lines, ACL fragment-flag sequences, raw L2CAP frames, raw HCI packets) is
injected frame by frame into one live connection.  After EVERY frame:

  * processing must reach quiescence within a step budget (10^4 loop callbacks) and within a
    CPU-time guard (ITIMER_VIRTUAL; a firing is confirmed on a fresh connection with the full
    guard before it is reported), and no RecursionError may have been raised anywhere in bumble
    (sys.monitoring RAISE events, so swallowed ones count); other exceptions are allowed;
  * unless the frame is a valid disconnect for its layer (independent decoder in c17_wire), the
    connection must still be in Device.connections / Host.connections on both sides;
  * the protocol's reference request is sent and must get the independently computed correct answer.
    When it does not, an identical second request tells "only the first request after the frame is
    lost" (kind probe_<why>_once) from a lasting failure; a lasting failure is asked a third time after
    40 s of virtual time so that "recovers after its own time-out" is counted, not reported.

Many frames share one connection; on the first failure the history is bisected to a minimal
(<= 2 frames when possible) reproducer on a fresh connection.  Signature = (bed, failure kind,
root-cause site) where the site is the exception type + innermost bumble frame seen while the
reproducer / the probe was processed; else a recognisable bad state of the victim read from its public
attributes (Bed.diagnose: e.g. 'rfcomm.dlc_object_replaced'; descriptive only, never a verdict); else an
exception swallowed inside bumble; else the structural class of the frame by an independent decoder.  For
a busy loop the site is the innermost frame object common to four stack samples (the function that
spins, not whatever callee the alarm happened to interrupt).
"""
from __future__ import annotations

import struct

from .. import core
from ..harness import c17_beds as B
from ..harness import c17_wire as W

LEVEL = 'fault_enumeration'
RESET_EVERY = 192  # frames per connection before a fresh one is made (bounds the history to bisect)
RETRY_VIRTUAL_SECONDS = 40.0
FAST_GUARD = 0.25  # CPU seconds; used by a worker once it has confirmed a busy-loop site with the full 5 s guard


# ---------------------------------------------------------------------------
# mutant lists
# ---------------------------------------------------------------------------
_GEN_CACHE: dict = {}


def gen_mutants(bed_name: str, quick: bool, bed) -> list[tuple]:
    key = (bed_name, quick)
    if key not in _GEN_CACHE:
        _GEN_CACHE[key] = _gen_mutants(bed_name, quick, bed)
    return _GEN_CACHE[key]


def _gen_mutants(bed_name: str, quick: bool, bed) -> list[tuple]:
    k = 1 if quick else 2
    full2 = not quick
    out: list[tuple] = []

    def seeds(ss, fix=None, kk=None):
        for s in ss:
            out.extend(W.mutants_of(s, k if kk is None else kk, fix))

    if bed_name in ('att_server', 'att_client', 'att_client_pending'):
        seeds(W.att_seeds(), kk=1 if bed_name == 'att_client_pending' else None)
        if bed_name != 'att_client_pending':
            out.extend(W.short_strings('att', full2))
    elif bed_name == 'smp':
        seeds(W.smp_seeds())
        out.extend(W.short_strings('smp', full2))
    elif bed_name == 'le_sig':
        seeds(W.l2cap_sig_seeds('lesig'))
        out.extend(W.short_strings('lesig', full2))
        out.extend(B.l2cap_frame_mutants(W.h('0a 0300'), []))
    elif bed_name in ('le_coc', 'le_coc_crossed'):
        seeds(W.le_coc_seeds(bed.dyn_rx_cid, bed.v_mtu, bed.v_mps))
        out.extend(W.short_strings('dyn', full2))
        # Disconnection Requests that name the victim's endpoint: only the one whose SCID is the attacker's endpoint
        # of that channel is a valid disconnect
        for label, dcid, scid in (
            ('valid', bed.dyn_cid, bed.dyn_rx_cid),
            ('scid_is_victims_own', bed.dyn_cid, bed.dyn_cid),
            ('scid_unknown', bed.dyn_cid, 0x007F),
            ('scid_zero', bed.dyn_cid, 0),
            ('dcid_is_attackers', bed.dyn_rx_cid, bed.dyn_rx_cid),
            ('swapped', bed.dyn_rx_cid, bed.dyn_cid),
        ):
            out.append((f'lecoc.disconnection_req|{label}', 'lesig', bytes([0x06, 0x35, 4, 0]) + struct.pack('<HH', dcid, scid)))
    elif bed_name == 'cl_sig':
        seeds(W.l2cap_sig_seeds('sig'))
        out.extend(W.short_strings('sig', full2))
        out.extend(B.l2cap_frame_mutants(W.h('0a 0300'), [bed.dyn_cid]))
        # a channel set-up in which the peer first asks for an option the victim does not implement, then asks again
        for label, opt in (('unknown_type_10', '10 02 0000'), ('flush_timeout', '02 02 ffff'), ('qos', '03 16 00 01' + '00000000' * 5),
                           ('extended_flow_spec', '06 10 01 01 0000 00000000 00000000 00000000'), ('extended_window', '07 02 4000'),
                           ('unknown_type_7f_empty', '7f 00')):
            out.append((f'l2cap.config_script|{label}', 'cfgopt', W.h(opt)))
    elif bed_name == 'sdp':
        seeds(W.sdp_seeds())
        out.extend(W.sdp_nesting_mutants(quick))
        out.extend(W.sdp_mixed_mutants(server=True))
        out.extend(W.short_strings('dyn', full2))
    elif bed_name == 'sdp_client':
        seeds(W.sdp_seeds())
        out.extend(W.sdp_nesting_response_mutants())
        out.extend(W.sdp_mixed_mutants(server=False))
        out.extend(W.short_strings('dyn', False))
    elif bed_name == 'rfcomm':
        seeds(W.rfcomm_seeds(bed.dlci, bed.new_dlci), fix=W.rfcomm_fix_fcs)
        out.extend(W.rfcomm_negotiation_scripts(bed.new_dlci))
        out.extend(W.short_strings('dyn', full2))
    elif bed_name in ('hfp_ag', 'hfp_hf'):
        to_ag = bed_name == 'hfp_ag'
        seeds(W.at_seeds(to_ag))
        out.extend((f'at.malformed|{n}', 'at', d) for n, d in W.at_malformed_lines(to_ag))
        out.extend(W.short_strings('at', full2))
    elif bed_name == 'avdtp':
        seeds(W.avdtp_seeds())
        out.extend(W.short_strings('dyn', full2))
    elif bed_name == 'avctp':
        seeds(W.avctp_seeds())
        out.extend(W.short_strings('dyn', full2))
    elif bed_name in ('hci_le_stream', 'hci_cl_stream'):
        # only what a byte-stream transport delivers as whole packets (independent framing check): anything else
        # legitimately puts the stream out of step.  Each packet whole and cut in two at 1, after its header, and
        # before its last octet.
        base = list(_gen_mutants(bed_name[:6], quick, bed))
        for descr, chan, data in base:
            frames = data if isinstance(data, (tuple, list)) else (data,)
            if chan != 'hci' or not all(W.hci_well_framed(f) for f in frames):
                continue
            out.append((descr, chan, data))
            if len(frames) == 1 and '|op@' not in descr:  # the 254-value event-code sweeps are fed whole only
                f = frames[0]
                info = W.HCI_FRAMING.get(f[0])
                cuts = sorted({c for c in (1, (1 + sum(info)) if info else 0, len(f) - 1) if 0 < c < len(f)})
                for c in cuts:
                    out.append((f'{descr}|cut@{c}', chan, (f[:c], f[c:])))
    elif bed_name in ('hci_le', 'hci_cl'):
        seeds(B.hci_seeds(bed.v_handle, str(bed.att_dev.public_address if bed.classic else bed.a_conn.self_address)), kk=1)
        out.extend(B.acl_fragment_sequences(bed.v_handle, 2 if quick else 3))
        out.extend(W.short_strings('hci', full2))
        # every packet-type octet with a short well-formed-looking body
        for t in range(256):
            out.append((f'hci.type_sweep|{t:02x}', 'hci', bytes([t]) + W.h('05 04 00 01 00 13')))
    else:
        raise KeyError(bed_name)
    # de-duplicate identical (chan, data) keeping the first label
    seen = set()
    uniq = []
    for m in out:
        key = (m[1], m[2])
        if key in seen:
            continue
        seen.add(key)
        uniq.append(m)
    return uniq


# ---------------------------------------------------------------------------
# evaluation of one frame on a live bed
# ---------------------------------------------------------------------------
def _mut_class(descr: str) -> str:
    """'att.read_req|byte@2=ff' -> 'att.read_req|byte'; keeps the seed and the kind of deviation only."""
    parts = descr.split('|')
    if len(parts) < 2:
        return descr
    kinds = []
    for p in parts[1:]:
        if p == 'fix':
            continue
        kinds.append('+'.join(x.split('@')[0].split('=')[0] for x in p.split('+')))
    head = parts[0]
    if head in ('short', 'hci.aclseq', 'hci.type_sweep', 'l2cap.cid_sweep', 'at.malformed'):
        return head if head != 'at.malformed' else descr
    return head + '|' + '|'.join(kinds)


def site_of(bed, kind: str, out, pout, mut) -> str:
    """Root-cause site of a failure, most specific evidence first."""
    descr, chan, data = mut
    if kind == 'busy_loop':
        st = (out.busy or (pout.busy if pout else None)) or ['?']
        return st[0]
    if kind == 'recursion':
        return out.rec or (pout.rec if pout else None) or '?'
    if kind == 'step_budget':
        return 'loop'
    if getattr(bed, 'diag_first', False):
        # beds whose known-bad state is the root cause whatever exception led to it (stream parser left mid-packet)
        try:
            d0 = bed.diagnose(out, pout) or getattr(out, 'pre_diag', None)
        except Exception:
            d0 = None
        if d0:
            return d0
    # an exception that escaped to the event loop while the reference request / the frame was processed
    for src in ((pout.excs if pout else []), out.excs):
        for t, s in src:
            return f'{t}@{s}'
    # a recognisable bad state of the victim (descriptive, see Bed.diagnose)
    try:
        d = bed.diagnose(out, pout) if bed is not None else None
    except Exception as e:  # the victim object graph is not what the bed expects any more
        d = f'diagnose_failed:{type(e).__name__}'
    d = d or getattr(out, 'pre_diag', None)
    if d:
        return d
    # an exception raised and swallowed inside bumble while the frame was processed
    if out.raised:
        t, s = out.raised[-1]
        return f'{t}@{s}(swallowed)'
    c = None
    try:
        c = bed.classify(chan, data) if bed is not None else None
    except Exception:
        c = None
    return 'silent:' + (c or _mut_class(descr))


def evaluate(bed, mut, seen=None):
    """-> (status, info).  status: 'ok' | 'valid_disconnect' | 'recovered' (reference request answered only
    after virtual time passed) | 'fail' | 'fail_seen' (first reference request failed with an already
    reported provisional signature: not analysed further)."""
    descr, chan, data = mut
    out = bed.step(chan, data)
    info = {'out': out, 'pout': None}
    bad = out.bad()
    if bad:
        info.update(kind=bad, reason=bad, site=site_of(bed, bad, out, None, mut))
        return 'fail', info
    if not bed.alive():
        if bed.is_valid_disconnect(chan, data):
            return 'valid_disconnect', info
        info.update(kind='connection_lost', reason='connection no longer in Device.connections / Host.connections')
        info['site'] = site_of(bed, 'connection_lost', out, None, mut)
        return 'fail', info
    if bed.is_valid_disconnect(chan, data):
        return 'valid_disconnect', info
    bed._pout = B.Outcome()
    if not bed.resync(chan, data):
        return 'not_probeable', info
    try:
        out.pre_diag = bed.diagnose(out, None)  # state right after the frame, before any reference request
    except Exception as e:
        out.pre_diag = f'diagnose_failed:{type(e).__name__}'
    r, pout = bed.probe_guarded()
    info['pout'] = pout
    if pout.bad():
        info.update(kind=pout.bad(), reason='while processing the reference request: ' + pout.bad())
        info['site'] = site_of(bed, pout.bad(), out, pout, mut)
        return 'fail', info
    if r is None:
        return 'ok', info
    site = site_of(bed, 'probe', out, pout, mut)
    info['site'] = site
    info['prov'] = (bed.name, r, site)
    if seen is not None and info['prov'] in seen:
        info.update(kind='probe_' + r, reason=f'reference request: {r}')
        info['usable'] = False
        if seen[info['prov']].endswith('_once'):
            # already reported as "only the first request is lost": confirm, then keep using this connection
            r2, pout2 = bed.probe_guarded()
            info['usable'] = r2 is None and not pout2.bad()
        return 'fail_seen', info
    # is only the first request after the frame lost, or every one?
    r2, pout2 = bed.probe_guarded()
    if pout2.bad():
        info.update(kind=pout2.bad(), reason='while processing the second reference request: ' + pout2.bad(), pout=pout2)
        info['site'] = site_of(bed, pout2.bad(), out, pout2, mut)
        return 'fail', info
    if r2 is None and bed.merges_with_next(chan, data):
        # byte-stream channel and the frame ended in the middle of a line: the first reference request was,
        # correctly, read as the rest of that line; the next one is the first well-formed request
        return 'ok_merged', info
    if r2 is None:
        info.update(kind=f'probe_{r}_once', reason=f'the first reference request after the frame: {r}; an identical second one is answered correctly')
        return 'fail', info
    # let the victim's own time-outs expire, then ask again
    o3 = bed.settle(timers=RETRY_VIRTUAL_SECONDS)
    if o3.bad():
        info.update(kind=o3.bad(), reason='while timers ran: ' + o3.bad(), out=o3)
        info['site'] = site_of(bed, o3.bad(), o3, None, mut)
        return 'fail', info
    if not bed.alive():
        info.update(kind='connection_lost', reason='connection dropped by the victim within 40 s (virtual) after the frame')
        return 'fail', info
    r3, pout3 = bed.probe_guarded()
    if r3 is None and not pout3.bad():
        return 'recovered', info
    info.update(kind='probe_' + r, reason=f'reference request: {r}; again after a second attempt ({r2}) and after 40 s of virtual time ({r3})')
    return 'fail', info


def enc_frames(frames):
    out = []
    for descr, chan, data in frames:
        out.append([descr, chan, [d.hex() for d in data] if isinstance(data, (tuple, list)) else data.hex()])
    return out


def dec_frames(js):
    out = []
    for descr, chan, data in js:
        out.append((descr, chan, tuple(bytes.fromhex(d) for d in data) if isinstance(data, list) else bytes.fromhex(data)))
    return out


def run_sequence(bed_name: str, seed: int, frames: list[tuple], guard=None):
    """Fresh bed; every frame but the last must evaluate without failure; returns the status/info of
    the last one, or None when an earlier frame already fails / disconnects."""
    bed = B.BEDS[bed_name](seed)
    if guard:
        bed.guard_seconds = guard
    try:
        for m in frames[:-1]:
            st, _ = evaluate(bed, m)
            if st in ('fail', 'valid_disconnect', 'recovered', 'not_probeable'):
                return None
        return evaluate(bed, frames[-1])
    finally:
        bed.close()


def minimise(bed_name: str, seed: int, hist: list[tuple], mut: tuple, kind: str):
    """-> (frames, status, info) with frames the shortest reproducer found, or None if even the full
    history does not reproduce on a fresh connection."""

    def fails(seq):
        r = run_sequence(bed_name, seed, seq + [mut])
        if r is not None and r[0] == 'fail' and r[1]['kind'] == kind:
            return r
        return None

    r = fails([])
    if r:
        return [mut], r
    S = list(hist)
    r = fails(S)
    if not r:
        return None
    best = (S + [mut], r)
    while len(S) > 1:
        half = len(S) // 2
        A, Bq = S[:half], S[half:]
        ra = fails(A)
        if ra:
            S, best = A, (A + [mut], ra)
            continue
        rb = fails(Bq)
        if rb:
            S, best = Bq, (Bq + [mut], rb)
            continue
        # needs frames from both halves: try dropping single frames greedily (bounded)
        changed = False
        if len(S) <= 24:
            i = 0
            while i < len(S) and len(S) > 1:
                T = S[:i] + S[i + 1 :]
                rt = fails(T)
                if rt:
                    S, best, changed = T, (T + [mut], rt), True
                else:
                    i += 1
        if not changed:
            break
        if len(S) <= 2:
            break
    return best


# ---------------------------------------------------------------------------
# worker
# ---------------------------------------------------------------------------
def reply_class(out) -> tuple:
    return tuple(sorted({(c, p[:2].hex()) for c, p in out.replies}))[:6]


def work(item):
    import time
    import warnings

    warnings.simplefilter('ignore')  # bumble's "Only for testing" FutureWarnings
    t_cpu = time.process_time()
    bed_name, quick, idx, n, seed, explicit = item
    st = core.Stats(bed_name)
    bed = B.BEDS[bed_name](seed)
    reps = {}
    try:
        if explicit is not None:
            muts = dec_frames(explicit)
        else:
            allm = gen_mutants(bed_name, quick, bed)
            # VERIF_SEED only rotates the visiting order
            if allm:
                r = (seed * 7919) % len(allm)
                allm = allm[r:] + allm[:r]
            muts = allm[idx::n]
        hist: list[tuple] = []
        seen: dict = {}
        fast_guard = False
        for mut in muts:
            descr, chan, data = mut
            if bed is None:
                bed = B.BEDS[bed_name](seed)
                hist = []
                if fast_guard:
                    bed.guard_seconds = FAST_GUARD
            status, info = evaluate(bed, mut, seen)
            out = info['out']
            st.case((bed_name, chan, data), sample=({'bed': bed_name, 'frame': enc_frames([mut])[0], 'status': status} if st.evaluations % 997 == 0 else None),
                    nontrivial=bool(out.replies or out.excs or out.raised or status not in ('ok', 'ok_merged')))
            st.count('frames_injected', len(data) if isinstance(data, (tuple, list)) else 1)
            st.count('loop_steps', out.steps)
            oc = (bed_name, reply_class(out), tuple(sorted(set(out.excs)))[:3], status if status != 'fail_seen' else 'fail')
            st.add('outcome_classes', oc)
            if oc not in reps and len(reps) < 400:
                reps[oc] = enc_frames([mut])[0]
            for e in out.excs:
                st.add('exception_sites', (bed_name,) + tuple(e))
            if out.excs:
                st.count('frames_raising_ordinary_exception')
            if out.replies:
                st.count('frames_answered')
            if status == 'ok_merged':
                st.count('first_probe_merged_with_unterminated_line')
                status = 'ok'
            if status == 'ok':
                hist.append(mut)
                st.count('probes_ok')
                if len(hist) >= RESET_EVERY:
                    bed.close()
                    bed = None
                continue
            if status == 'recovered':
                st.count('probe_ok_only_after_virtual_time')
                st.add('recovered_classes', (bed_name, info.get('site')))
                bed.close()
                bed = None
                continue
            if status == 'not_probeable':
                st.count('frames_after_which_the_channel_cannot_be_probed')
                bed.close()
                bed = None
                continue
            if status == 'valid_disconnect':
                st.count('valid_disconnects')
                bed.close()
                bed = None
                continue
            # failure
            st.count('failing_frames')
            if status == 'fail_seen':
                if info.get('usable'):
                    hist.append(mut)
                    continue
                bed.close()
                bed = None
                hist = []
                continue
            bed.close()
            bed = None
            kind = info['kind']
            if kind in ('busy_loop', 'recursion', 'step_budget'):
                pk = (bed_name, kind, info.get('site'))
                if pk in seen:
                    hist = []
                    continue
            m = minimise(bed_name, seed, hist, mut, kind)
            hist = []
            if m is None:
                st.count('failures_not_reproduced_on_fresh_connection')
                st.add('unreproduced', (bed_name, kind, info.get('site')))
                continue
            frames, (s2, info2) = m
            site = info2.get('site') or '?'
            if kind in ('busy_loop', 'recursion', 'step_budget'):
                seen[(bed_name, kind, site)] = kind
                seen[(bed_name, kind, info.get('site'))] = kind
                if kind == 'busy_loop':
                    fast_guard = True  # a spinning site is confirmed with the full guard: later firings are only counted
            if 'prov' in info:
                seen[info['prov']] = kind
            if 'prov' in info2:
                seen[info2['prov']] = kind
            o2 = info2['out']
            p2 = info2['pout']
            msg = (
                f'[{bed_name}] after {len(frames)} frame(s) on a fresh connection, last = {frames[-1][0]} '
                f'({_hex_short(frames[-1][2])} on {frames[-1][1]}): {info2["reason"]}; site {site}; '
                f'escaped while processing the frame: {o2.excs[:3]}; while probing: {(p2.excs[:3] if p2 else [])}'
            )
            if kind == 'busy_loop':
                msg += f'; spinning stack (innermost first): {(o2.busy or (p2.busy if p2 else None) or [])[:6]}'
            st.violation(kind, {'bed': bed_name, 'site': site, **({'needs_history': True} if len(frames) > 2 else {})}, msg,
                         {'bed': bed_name, 'seed': seed, 'frames': enc_frames(frames), 'kind': kind})
    finally:
        if bed is not None:
            bed.close()
    st.reps = reps
    st.cpu_s = time.process_time() - t_cpu
    return st


def _hex_short(data) -> str:
    if isinstance(data, (tuple, list)):
        return '[' + ', '.join(_hex_short(d) for d in data) + ']'
    hx = data.hex()
    return hx if len(hx) <= 64 else f'{hx[:48]}…({len(data)} bytes)'


# ---------------------------------------------------------------------------
# entry points
# ---------------------------------------------------------------------------
BED_ORDER = ['hfp_hf', 'hfp_ag', 'rfcomm', 'avctp', 'avdtp', 'sdp', 'sdp_client', 'cl_sig', 'hci_cl', 'hci_le', 'hci_cl_stream', 'hci_le_stream', 'le_sig', 'le_coc', 'le_coc_crossed', 'smp', 'att_server', 'att_client',
             'att_client_pending']


def registry_coverage(st: core.Stats):
    """Seed tables against bumble's registries of PDU classes: every registered class must have a seed."""
    from bumble import att, avdtp, l2cap, sdp, smp

    def check(proto, registered, have):
        missing = sorted(set(int(x) for x in registered) - set(have))
        st.count(f'{proto}_classes_registered', len(set(registered)))
        st.count(f'{proto}_classes_with_seed', len(set(int(x) for x in registered) & set(have)))
        if missing:
            st.cap(f'{proto}: no seed for registered codes {[hex(m) for m in missing]}')

    check('att', att.ATT_PDU.pdu_classes.keys(), [s.data[0] for s in W.att_seeds()])
    check('smp', smp.SMP_Command.smp_classes.keys(), [s.data[0] for s in W.smp_seeds()])
    check('l2cap', l2cap.L2CAP_Control_Frame.classes.keys(), [s.data[0] for s in W.l2cap_sig_seeds('sig')])
    check('sdp', [int(k) for k in sdp.SDP_PDU.subclasses.keys()] if hasattr(sdp.SDP_PDU, 'subclasses') else W.SDP_IDS, [s.data[0] for s in W.sdp_seeds()])
    check('avdtp', [int(x) for x in avdtp.SignalIdentifier if int(x) != 0], [s.data[1] for s in W.avdtp_seeds() if len(s.data) > 1 and s.data[0] & 0x0C == 0])


def run(ctx: core.Context) -> int:
    only = getattr(ctx, 'only', None)
    beds = [b for b in BED_ORDER if not only or b in only] if not only or only != {'dialects'} else []
    reg = ctx.sub('registry')
    try:
        registry_coverage(reg)
    except Exception as e:  # registries renamed: say so, do not guess
        reg.cap(f'registry introspection failed: {type(e).__name__}: {e}')
    slices = ctx.jobs * (1 if ctx.quick else 3)
    items = []
    for b in beds:
        for i in range(slices):
            items.append((b, ctx.quick, i, slices, ctx.seed, None))
    # warm up in the parent (imports, code specialisation) and freeze the heap so that the forked workers do
    # not copy it page by page during their first garbage collections
    import gc

    for b in beds:
        B.BEDS[b](ctx.seed).close()
    gc.collect()
    gc.freeze()
    ctx.log(f'{len(beds)} beds x {slices} slices')
    results = core.pmap(work, items, ctx.jobs)
    reps_by_bed: dict[str, dict] = {}
    cpu: dict[str, float] = {}
    for (b, *_), st in zip(items, results):
        ctx.sub(b).merge(st)
        cpu[b] = cpu.get(b, 0.0) + getattr(st, 'cpu_s', 0.0)
        for k, v in getattr(st, 'reps', {}).items():
            reps_by_bed.setdefault(b, {}).setdefault(k, v)
    for b in beds:
        s = ctx.sub(b)
        ctx.log(f'  {b}: cases={s.evaluations} outcome_classes={len(s.sets.get("outcome_classes", ()))} '
                f'cpu={cpu.get(b, 0):.0f}s exc_sites={len(s.sets.get("exception_sites", ()))} failing={s.counters.get("failing_frames", 0)} violations={len(s.violations)}')

    if not ctx.quick:
        # sequences: every ordered pair from a reduced set (one representative per outcome class, <= 40 per bed)
        pair_items = []
        for b in beds:
            reps = [reps_by_bed.get(b, {})[k] for k in sorted(reps_by_bed.get(b, {}), key=repr)][:40]
            seq = []
            for x in reps:
                for y in reps:
                    seq.append(x)
                    seq.append(y)
            per = max(2, (len(seq) // (2 * ctx.jobs)) * 2)
            for off in range(0, len(seq), per):
                pair_items.append((b, ctx.quick, 0, 1, ctx.seed, seq[off : off + per]))
        ctx.log(f'pairs: {len(pair_items)} work items')
        for (b, *_), st in zip(pair_items, core.pmap(work, pair_items, ctx.jobs)):
            ctx.sub('pairs:' + b).merge(st)

    if not only or 'dialects' in only:
        for r in core.pmap(w_dialect, [[d] for d in DIALECTS], ctx.jobs):
            ctx.sub('controller_dialects').merge(r)
        ctx.log('controller_dialects:', ctx.sub('controller_dialects').summary())

    extra = {}
    if ctx.quick:
        for b in beds:
            ctx.sub(b).cap('quick tier: byte strings of length 2 restricted to second byte in 22 boundary values; <= 1 deviation per seed')
    return core.finish(
        ctx,
        LEVEL,
        rule='one case = one hostile frame (or short frame sequence) injected into a live connection and followed by the '
        "protocol's reference request; distinct_nontrivial = distinct (bed, channel, bytes) that made the victim react (a reply, an exception raised anywhere in bumble, a disconnect or a failure); outcome_classes = distinct (reply class, "
        'escaped exception sites, verdict) tuples observed',
        assumptions=[
            'virtual link: frames are delivered intact and in order; the attacker is a raw injector on a real HCI/ACL path',
            'ordinary exceptions (anything but RecursionError) while processing a hostile frame are allowed by the statement',
            'a frame that an independent decoder recognises as a valid disconnect for its layer ends the connection under test and is not probed',
            'all byte strings only up to length 2; beyond that the <= 1 / <= 2 deviation neighbourhood of one well-formed PDU per class',
            'the CPU-time guard (5 s of process CPU time; 0.25 s in a worker after it confirmed a spinning site) is the only place real time is consulted',
            'stream channels (AT lines, K-frames of one SDU): a frame that ends inside a line / an SDU is legitimately continued by the next bytes, so the first reference request after it is not judged (AT) or the SDU is completed first (LE CoC)',
        ],
        extra=extra,
    )


def replay(v: core.Violation) -> list[str]:
    case = v.case
    if 'dialect' in case:
        r = run_dialect(case['dialect'])
        return [r[1]] if r and r[0] == v.check else []
    frames = dec_frames(case['frames'])
    r = run_sequence(case['bed'], case.get('seed', 0), frames)
    if r is None:
        return []
    status, info = r
    if status != 'fail':
        return []
    kind = info['kind']
    return [f'{case["bed"]}: {kind} at {info.get("site")}: {info["reason"]}']


# ---------------------------------------------------------------------------
# controller dialects: a controller that is well-formed but UNUSUAL in how it reports completed packets / command
# credits (every genuine event of the victim's controller is rewritten on its way to the host), while the peer keeps
# sending well-formed requests: every one of 80 reference requests must be answered (more than the 64 ACL buffers, so
# a buffer slot leaked per event would show)
# ---------------------------------------------------------------------------
DIALECTS = ['nocp_unknown_handle_first', 'nocp_unknown_handle_last', 'nocp_zero_count_entry_first', 'nocp_extra_empty_event', 'credit_event_after_every_response']


def run_dialect(name, seed=0, probes=80):
    """-> None | (kind, message)"""
    import types

    from bumble import hci

    bed = B.BEDS['hci_le'](seed)
    try:
        host = bed.vic.host
        real = host.on_packet
        live = bed.v_handle

        def on_packet(_h, packet):
            b = bytes(packet)
            out = [b]
            try:
                if len(b) > 3 and b[0] == 0x04 and b[1] == 0x13:
                    ev = hci.HCI_Packet.from_bytes(b)
                    hs, ns = list(ev.connection_handles), list(ev.num_completed_packets)
                    if name == 'nocp_unknown_handle_first':
                        hs, ns = [0x0EEE] + hs, [1] + ns
                    elif name == 'nocp_unknown_handle_last':
                        hs, ns = hs + [0x0EEE], ns + [1]
                    elif name == 'nocp_zero_count_entry_first':
                        hs, ns = [live] + hs, [0] + ns
                    if name == 'nocp_extra_empty_event':
                        out = [bytes(hci.HCI_Number_Of_Completed_Packets_Event(connection_handles=[], num_completed_packets=[])), b]
                    else:
                        out = [bytes(hci.HCI_Number_Of_Completed_Packets_Event(connection_handles=hs, num_completed_packets=ns))]
                elif name == 'credit_event_after_every_response' and len(b) > 5 and b[0] == 0x04 and b[1] in (0x0E, 0x0F):
                    out = [b, bytes([0x04, 0x0E, 0x03, 0x01, 0x00, 0x00])]
            except Exception:
                out = [b]
            for p in out:
                real(p)

        host.on_packet = types.MethodType(on_packet, host)
        for i in range(probes):
            r, pout = bed.probe_guarded()
            if r is not None:
                r2, _ = bed.probe_guarded()
                return ('dialect_probe_' + r, f'controller dialect {name}: reference request #{i} (HCI command + ATT request over the link): {r}; repeated: {r2}; escaped exceptions {pout.excs[:2]}')
            if not bed.alive():
                return ('dialect_connection_lost', f'controller dialect {name}: the connection was dropped after {i} reference requests')
        return None
    finally:
        bed.close()


def w_dialect(names):
    st = core.Stats('controller_dialects')
    for name in names:
        r = run_dialect(name)
        st.case(name, {'dialect': name, 'reference_requests': 80} if not st.samples else None)
        if r:
            st.violation(r[0], {'bed': 'hci_le', 'dialect': name, 'kind': r[0]}, r[1], {'dialect': name})
    return st
