"""C09 — L2CAP channel tables stay exact; closed identifiers are reusable.

Real Device/Host/Controller stacks (device 0 central, devices 1..n peripherals) on the
virtual loop; LE credit-based, enhanced credit-based and classic-signalling servers on
every device.  Four sub-checks, all driving `vp/harness/c09_bed.py`:

  seq1   one link: every operation sequence up to a depth over open (3 kinds, 2 PSMs, 1-2
         enhanced channels, either initiator) / refused open / close by either half / close by
         both at once / abort / opens from both ends at once
  seq2   two links sharing device 0's ChannelManager: same, plus operations issued at the same
         time on different links; per-link results must equal those of the run that only
         contains that link's operations (non-interference)
  cut    every sequence of a smaller depth x link disconnection requested at every message
         boundary of its fault-free run x by either end (x either link)
  sched  selected scripts x every order-preserving delivery delay with <= d deviations
  cancel the caller gives up on a pending open (task.cancel()) at every message boundary of the
         fault-free open, for every kind and either initiator, alone / followed by every kind of
         open / preceded by an open; plus churn: (cancel, open, close) x 90 (classic x 50)
  churn  one channel opened and closed 70-140 times in a row (more often than there are dynamic LE
         CIDs and signalling identifiers): closed identifiers stay reusable

Oracle (reference = the set of channel halves the script says are open): see Bed.check_tables,
Bed._account, Bed.finish_cut, Bed.epilogue.
"""
from __future__ import annotations

import json

from .. import core, explore
from ..harness import c09_bed
from ..harness.c09_bed import Bed, OTHER

LEVEL = 'exploration'

FULL_OPENS = [('le', 'c'), ('ec', 'p'), ('cl', 'c'), ('le', 'p'), ('ec', 'c'), ('cl', 'p')]
LIGHT_OPENS = [('le', 'c'), ('le', 'p'), ('cl', 'c')]
CUT_LIGHT_OPENS = [('le', 'c'), ('ec', 'p'), ('cl', 'c')]


# ---------------------------------------------------------------------------
# the ideal run of a script (what the enumerator and the projection need)
# ---------------------------------------------------------------------------
def predict(ops):
    """[(rid, kind, link, init)] in creation order for the ideal run."""
    out = []

    def walk(op):
        if op[0] == 'par':
            for o in op[1:]:
                walk(o)
        elif op[0] in ('open', 'cancel'):
            n = op[4] if op[1] == 'ec' else 1
            for _ in range(n):
                out.append((len(out), op[1], op[2], op[3]))

    for op in ops:
        walk(op)
    return out


def project(ops, L):
    """The script restricted to link L, rec ids renumbered."""
    recs = predict(ops)
    link_of = {r[0]: r[2] for r in recs}
    remap = {}
    for r in recs:
        if r[2] == L:
            remap[r[0]] = len(remap)

    def one(op):
        if op[0] == 'par':
            subs = [x for x in (one(o) for o in op[1:]) if x is not None]
            if not subs:
                return None
            return subs[0] if len(subs) == 1 else ['par'] + subs
        if op[0] in ('open', 'refused', 'cancel'):
            return list(op) if op[2] == L else None
        if link_of.get(op[1]) != L:
            return None
        return [op[0], remap[op[1]], op[2]]

    return [x for x in (one(o) for o in ops) if x is not None]


# ---------------------------------------------------------------------------
# running one case
# ---------------------------------------------------------------------------
_PROJ_MEMO: dict = {}


def run_case(case, sched=None, want_projection=True):
    links = case['links']
    ops = case['ops']
    cut = case.get('cut')
    with Bed(links) as bed:
        loop = bed.w.loop
        bed.cut = cut
        bed.counting = True
        if sched is not None:
            loop.scheduler = sched
            sched.active = True
        for op in ops:
            bed.run_op(op)
            bed.check_all('after_op')
        total = bed.msgs
        ok = bed.finish_cut()
        if sched is not None:
            sched.active = False
            loop.scheduler = None
            loop.held.clear()
        if not ok:
            return {'skip': True, 'messages': total}
        script_obs = {L: [list(o) for o in v] for L, v in bed.obs.items()}
        n_open_ok = sum(1 for r in bed.runs if r.op[0] == 'open' and r.task.done() and not r.task.cancelled() and r.task.exception() is None)
        interrupted = sorted(bed.interrupted_sides())
        # epilogue: every kind of open must work again, then everything closes and the tables empty
        depth = len(ops)
        full = case.get('epi') == 'full'
        for L in range(1, links + 1):
            if cut is not None and cut['link'] == L:
                bed.reconnect(L)
                bed.epilogue(L, FULL_OPENS if full else CUT_LIGHT_OPENS, probes=2 * depth + 2, probe_sides=interrupted)
            elif bed.pending_on(L):
                continue
            else:
                bed.epilogue(L, FULL_OPENS if full else LIGHT_OPENS)
        loop.collect_exceptions()
        viol = list(bed.viol)
        res = {
            'messages': total,
            'viol': viol,
            'obs': script_obs,
            'opens_ok': n_open_ok,
            'interrupted': bool(interrupted),
            'steps': loop.steps,
        }
    # non-interference: a link's results equal those of the run containing only its operations
    if want_projection and links > 1 and sched is None:
        for L in range(1, links + 1):
            if cut is not None and cut['link'] == L:
                continue
            pops = project(ops, L)
            if len(pops) == len(ops):
                continue  # nothing happened elsewhere (and no cut elsewhere)
            key = json.dumps([L, pops])
            if key not in _PROJ_MEMO:
                r = run_case({'links': links, 'ops': pops}, want_projection=False)
                _PROJ_MEMO[key] = r['obs'].get(L, [])
            ref = _PROJ_MEMO[key]
            got = script_obs.get(L, [])
            if got != ref:
                d = first_diff(got, ref)
                res['viol'].append(
                    (
                        'interference',
                        {'kind': d['kind'], 'diff': d['what'], 'other_link_cut': cut is not None},
                        f'link {L} behaves differently when the other link is used too: alone {ref} / together {got} (ops {ops}, cut {cut})',
                    )
                )
    return res


def first_diff(got, ref):
    for a, b in zip(got, ref):
        if a != b:
            return {'kind': f'{b[0]}:{b[1]}', 'what': 'outcome' if a[:3] != b[:3] else 'cids'}
    return {'kind': 'n/a', 'what': 'length'}


# ---------------------------------------------------------------------------
# enumeration of scripts
# ---------------------------------------------------------------------------
def alpha_full(links):
    return {
        'links': links,
        'opens': [('le', 0), ('le', 1), ('ec', 1), ('ec', 2), ('cl', 0)],
        'sides': ['c', 'p'],
        'refused': [('le', 'c'), ('le', 'p'), ('ec', 'c'), ('ec', 'p'), ('cl', 'c'), ('cl', 'p')],
        'close_by': ['client', 'server'],
        'close_both': True,
        'abort_first': ['client', 'server'],
        'drain': [],
        'par_same': [(a, b) for a in (('le', 0), ('ec', 1), ('cl', 0)) for b in (('le', 0), ('ec', 1), ('cl', 0))],
        'par_cross': [],
    }


def alpha_core(links):
    a = alpha_full(links)
    a.update(
        opens=[('le', 0), ('ec', 1), ('cl', 0)],
        refused=[('le', 'c'), ('cl', 'p')],
        abort_first=['client'],
        par_same=[(('le', 0), ('le', 0)), (('le', 0), ('cl', 0)), (('ec', 1), ('le', 0))],
    )
    return a


def alpha_mini(links):
    a = alpha_core(links)
    a.update(refused=[('le', 'c')], par_same=[(('le', 0), ('le', 0))], close_both=False)
    return a


def alpha_micro(links):
    a = alpha_mini(links)
    a.update(opens=[('le', 0), ('cl', 0)], refused=[], par_same=[], abort_first=[])
    return a


def alpha_two_mini():
    a = alpha_mini(2)
    le, ec, cl = ('le', 0), ('ec', 1), ('cl', 0)
    a['par_cross'] = [(pat, x, y) for pat in ('cc', 'pp', 'cp') for (x, y) in ((le, le), (le, cl), (ec, ec))]
    return a


def alpha_two_links(core_only):
    a = alpha_core(2)
    kinds = (('le', 0), ('ec', 1), ('cl', 0))
    if core_only:
        a['par_same'] = [(('le', 0), ('le', 0))]
        a['close_both'] = False
        a['abort_first'] = []
        pairs = [(kinds[0], kinds[0]), (kinds[0], kinds[2]), (kinds[1], kinds[1]), (kinds[2], kinds[2]), (kinds[1], kinds[0])]
    else:
        pairs = [(x, y) for x in kinds for y in kinds]
    # who initiates on link 1 / link 2
    a['par_cross'] = [(pat, x, y) for pat in ('cc', 'pp', 'cp') for (x, y) in pairs]
    return a


def alpha_cut_quick():
    a = alpha_cut(1)
    a.update(sides=['c'], close_both=False, abort_first=[], par_same=[(('le', 0), ('cl', 0))])
    return a


def alpha_cut_micro():
    a = alpha_cut_quick()
    a.update(refused=[], par_same=[], drain=['client'])
    return a


def alpha_cut(links):
    a = alpha_core(links)
    a['drain'] = ['client', 'server']
    a['refused'] = [('le', 'c')]
    if links == 2:
        a['par_same'] = []
        a['close_both'] = False
        a['abort_first'] = []
        a['drain'] = ['client']
        kinds = (('le', 0), ('ec', 1), ('cl', 0))
        a['par_cross'] = [('cc', kinds[0], kinds[0]), ('cc', kinds[0], kinds[2]), ('pp', kinds[0], kinds[0]), ('cp', kinds[1], kinds[0])]
    return a


def enabled_ops(alpha, open_recs, first):
    """open_recs: list of (rid, kind, link, init).  first: nothing has happened yet (symmetry: start on link 1)."""
    links = [1] if first else list(range(1, alpha['links'] + 1))
    out = []
    for L in links:
        for kind, var in alpha['opens']:
            for s in alpha['sides']:
                out.append(['open', kind, L, s, var])
        for kind, s in alpha['refused']:
            out.append(['refused', kind, L, s])
        for (ka, va), (kb, vb) in alpha['par_same']:
            out.append(['par', ['open', ka, L, 'c', va], ['open', kb, L, 'p', vb]])
    if alpha['links'] == 2:
        for pat, (ka, va), (kb, vb) in alpha['par_cross']:
            if first and pat in ('cc', 'pp') and (ka, va) > (kb, vb):
                continue  # mirror image of another first op
            out.append(['par', ['open', ka, 1, pat[0], va], ['open', kb, 2, pat[1], vb]])
    for rid, kind, L, init in open_recs:
        for by in alpha['close_by']:
            out.append(['close', rid, by])
        if alpha['close_both']:
            out.append(['par', ['close', rid, 'client'], ['close', rid, 'server']])
        for f in alpha['abort_first']:
            out.append(['abort', rid, f])
        if kind != 'cl':
            for wr in alpha['drain']:
                out.append(['drain', rid, wr])
    return out


def apply_ideal(open_recs, next_rid, op):
    recs = list(open_recs)

    def walk(o):
        nonlocal next_rid
        if o[0] == 'par':
            for x in o[1:]:
                walk(x)
        elif o[0] == 'open':
            n = o[4] if o[1] == 'ec' else 1
            for _ in range(n):
                recs.append((next_rid, o[1], o[2], o[3]))
                next_rid += 1
        elif o[0] == 'cancel':  # consumes rec ids; whether a channel results depends on the timing
            next_rid += o[4] if o[1] == 'ec' else 1
        elif o[0] in ('close', 'abort'):
            recs[:] = [r for r in recs if r[0] != o[1]]

    walk(op)
    return recs, next_rid


def gen_scripts(alpha, depth, min_depth=1, both_links_only=False):
    out = []

    def rec(prefix, open_recs, next_rid):
        if len(prefix) >= min_depth:
            if not both_links_only or uses_both_links(prefix):
                out.append(list(prefix))
        if len(prefix) == depth:
            return
        for op in enabled_ops(alpha, open_recs, first=not prefix):
            r2, n2 = apply_ideal(open_recs, next_rid, op)
            prefix.append(op)
            rec(prefix, r2, n2)
            prefix.pop()

    rec([], [], 0)
    return out


def churn_scripts(quick):
    """One channel at a time, opened and closed more often than there are dynamic LE CIDs (64) and
    signalling identifiers (255): closed identifiers must be reusable for ever."""
    out = []
    for kind, var, cycles in (('le', 0, 140), ('ec', 1, 140), ('ec', 2, 70), ('cl', 0, 100)):
        for init in ('c', 'p'):
            for by in ('client', 'server'):
                if quick and (init, by) not in (('c', 'client'), ('p', 'server')):
                    continue
                ops = []
                rid = 0
                for _ in range(cycles):
                    ops.append(['open', kind, 1, init, var])
                    for k in range(var if kind == 'ec' else 1):
                        ops.append(['close', rid, by])
                        rid += 1
                out.append(ops)
    return out


KINDS = (('le', 0), ('ec', 1), ('ec', 2), ('cl', 0))


def open_message_counts():
    """Messages of the fault-free open of each kind (the cancel points)."""
    out = {}
    for kind, var in KINDS:
        out[(kind, var)] = run_case({'links': 1, 'ops': [['open', kind, 1, 'c', var]]})['messages']
    return out


def cancel_scripts(quick, counts):
    out = []
    follow = [(k, v, s) for (k, v) in (('le', 0), ('ec', 1), ('cl', 0)) for s in ('c', 'p')]
    for (kind, var), n in counts.items():
        for side in ('c', 'p'):
            for at in range(n):
                c = ['cancel', kind, 1, side, var, at]
                out.append([c])
                for k2, v2, s2 in follow:
                    out.append([c, ['open', k2, 1, s2, v2]])
                if not quick:
                    for k0, v0, s0 in follow:
                        out.append([['open', k0, 1, s0, v0], c, ['open', kind, 1, side, var]])
                    out.append([c, ['cancel', kind, 1, side, var, at], ['open', kind, 1, side, var]])
    # the open that is given up is one the peer refuses (unserved PSM; bumble's refusal of an enhanced request lists no
    # channel at all): nothing of it may stay behind either, and the next open works
    for (kind, var), n in counts.items():
        for side in ('c', 'p'):
            for at in range(n):
                c = ['cancel', kind, 1, side, var, at, {'refused': True}]
                out.append([c, ['open', kind, 1, side, var]])
                if not quick:
                    out.append([c, c, ['open', kind, 1, side, var]])
        if kind != 'cl':
            out.append([['cancel', kind, 1, 'c', var, 1, {'refused': True}] for _ in range(70)] + [['open', kind, 1, 'c', var]])
    # a fragmented identifier space (holes left by closed channels) and an open that needs several identifiers at once
    for side in ('c', 'p'):
        for hole in ([0], [1], [0, 2]) if not quick else ([0], [1]):
            for closer in ('client', 'server'):
                ops = [['open', 'le', 1, side, 0] for _ in range(3 if max(hole) < 2 else 4)]
                ops += [['close', h, closer] for h in hole]
                ops.append(['open', 'ec', 1, side, 2])
                ops.append(['open', 'le', 1, side, 0])
                out.append(ops)
    # churn: a leaked identifier per cancelled attempt exhausts the 64 dynamic LE CIDs / wraps the identifiers
    for (kind, var), n in counts.items():
        per = var if kind == 'ec' else 1
        for side in ('c',) if quick else ('c', 'p'):
            for at in sorted({0, n // 2}) if quick else range(n):
                ops, rid = [], 0
                # classic: the peer has no way to drop the half-configured channel an abandoned attempt leaves
                # with it (no RTX timer in bumble), and those share the CID space with its LE channels -> stay < 64
                for _ in range(50 if kind == 'cl' else 90):
                    ops.append(['cancel', kind, 1, side, var, at])
                    rid += per
                    ops.append(['open', kind, 1, side, var])
                    for _k in range(per):
                        ops.append(['close', rid, 'client'])
                        rid += 1
                out.append(ops)
    return out


def uses_both_links(ops):
    return len({r[2] for r in predict(ops)} | {o[2] for o in ops if o[0] == 'refused'}) > 1


# ---------------------------------------------------------------------------
# workers
# ---------------------------------------------------------------------------
def record(st, case, res):
    st.case((case['links'], case['ops'], case.get('cut')))
    st.add('script_outcomes', core.digest(res['obs']))
    st.count('opens_succeeded', res['opens_ok'])
    st.count('loop_steps', res['steps'])
    for check, sig, msg in res['viol']:
        st.violation(check, sig, msg, case)


def w_seq(arg):
    name, links, scripts, epi = arg
    st = core.Stats(name)
    for ops in scripts:
        case = {'links': links, 'ops': ops, 'epi': epi}
        res = run_case(case)
        record(st, case, res)
        if len(ops) < 10:
            st.add('op_shapes', shape(ops))
    if scripts and len(st.samples) < 1:
        st.samples.append({'links': links, 'ops': scripts[-1]})
    return st


def shape(ops):
    def s(o):
        if o[0] == 'par':
            return 'par(' + ','.join(s(x) for x in o[1:]) + ')'
        if o[0] in ('open', 'refused', 'cancel'):
            return f'{o[0]}:{o[1]}'
        return o[0]

    return ' '.join(s(o) for o in ops)


def w_cut(arg):
    name, links, scripts, epi = arg
    st = core.Stats(name)
    for ops in scripts:
        base = run_case({'links': links, 'ops': ops, 'epi': epi})
        n = base['messages']
        st.count('scripts')
        st.count('message_boundaries', n + 1)
        for L in range(1, links + 1):
            for side in ('c', 'p'):
                for at in range(0, n + 1):
                    case = {'links': links, 'ops': ops, 'cut': {'at': at, 'link': L, 'side': side}, 'epi': epi}
                    res = run_case(case)
                    if res.get('skip'):
                        st.count('cut_beyond_log')
                        continue
                    record(st, case, res)
                    if res['interrupted']:
                        st.count('cuts_that_interrupted_a_request')
        if len(st.samples) < 1:
            st.samples.append({'links': links, 'ops': ops, 'boundaries': n + 1})
    return st


# ---------------------------------------------------------------------------
# schedules
# ---------------------------------------------------------------------------
SCHED_SCRIPTS = [
    # one link, both ends open at once, close, reopen
    {'links': 1, 'ops': [['par', ['open', 'le', 1, 'c', 0], ['open', 'le', 1, 'p', 0]], ['close', 0, 'client'], ['open', 'ec', 1, 'c', 1]]},
    # both halves close at once
    {'links': 1, 'ops': [['open', 'le', 1, 'c', 0], ['par', ['close', 0, 'client'], ['close', 0, 'server']], ['open', 'le', 1, 'p', 0]]},
    # two links: opens at once from device 0, closes at once from the peripherals
    {'links': 2, 'ops': [['par', ['open', 'le', 1, 'c', 0], ['open', 'cl', 2, 'c', 0]], ['par', ['close', 0, 'server'], ['close', 1, 'server']], ['par', ['open', 'ec', 1, 'p', 1], ['open', 'le', 2, 'c', 1]]]},
    {'links': 2, 'ops': [['par', ['open', 'cl', 1, 'p', 0], ['open', 'ec', 2, 'p', 2]], ['par', ['close', 0, 'client'], ['open', 'le', 2, 'c', 0]], ['open', 'cl', 1, 'c', 0]]},
    # a cut racing with an open on the same link and traffic on the other
    {'links': 2, 'ops': [['open', 'le', 1, 'c', 0], ['par', ['open', 'le', 1, 'p', 1], ['open', 'le', 2, 'c', 0]]], 'cut': {'at': 10, 'link': 1, 'side': 'p'}},
    {'links': 1, 'ops': [['open', 'cl', 1, 'c', 0], ['close', 0, 'client']], 'cut': {'at': 26, 'link': 1, 'side': 'c'}},
]


# a new channel opened from the 'close' handler of an older one, whose two halves were closed at the same time (the
# answers to both Disconnection Requests are still in flight when the identifier is used again)
REOPEN_SCRIPTS = [
    {'links': 1, 'ops': [['open', kind, 1, side, var], ['par', ['close', 0, 'client'], ['close', 0, 'server'], ['open', kind, 1, side, var, {'on_close_of': 0}]], ['open', kind, 1, side, var]]}
    for kind, var in (('cl', 0), ('le', 0), ('ec', 1))
    for side in ('c', 'p')
] + [
    {'links': 1, 'ops': [['open', kind, 1, 'c', var], ['par', ['close', 0, by], ['open', kind, 1, 'c', var, {'on_close_of': 0}]], ['open', kind, 1, 'p', var]]}
    for kind, var in (('cl', 0), ('le', 0), ('ec', 1))
    for by in ('client', 'server')
]


def run_sched(params, prefix, fp):
    sched = explore.Sched(prefix, hold=True, expect_fp=fp)
    res = run_case(params, sched=sched)
    return {'points': sched.points, 'fp': sched.fp, 'obs': res.get('obs'), 'viol': res.get('viol', [])}


# ---------------------------------------------------------------------------
def chunks(scripts, jobs, seed):
    parts = core.split(scripts, jobs * 6)
    k = seed % max(1, len(parts))
    return parts[k:] + parts[:k]


def run(ctx: core.Context) -> int:
    quick = ctx.quick
    only = getattr(ctx, 'only', None)
    plan = {}
    if quick:
        plan['seq1'] = [(alpha_full(1), 2, 1, False), (alpha_mini(1), 3, 3, False)]
        plan['seq2'] = [(alpha_two_links(True), 1, 1, False), (alpha_two_mini(), 2, 2, False)]
        plan['cut1'] = [(alpha_cut_quick(), 2, 1, False)]
        plan['cut2'] = [(alpha_cut(2), 1, 1, False)]
        sched_bound, sched_scripts = 1, SCHED_SCRIPTS[:3]
    else:
        plan['seq1'] = [(alpha_full(1), 3, 1, False), (alpha_mini(1), 4, 4, False), (alpha_micro(1), 5, 5, False)]
        plan['seq2'] = [(alpha_two_links(False), 2, 1, False), (alpha_two_mini(), 3, 3, True)]
        plan['cut1'] = [(alpha_cut(1), 2, 1, False), (alpha_cut_micro(), 3, 3, False)]
        plan['cut2'] = [(alpha_cut(2), 2, 1, True)]
        sched_bound, sched_scripts = 1, SCHED_SCRIPTS
    plan['cancel'] = None
    plan['churn'] = None
    plan['reopen'] = None
    sizes = {}
    for name, parts in plan.items():
        if only and name not in only:
            continue
        scripts = []
        if name == 'churn':
            links = 1
            scripts = churn_scripts(quick)
        elif name == 'reopen':
            links = 1
            scripts = [x['ops'] for x in REOPEN_SCRIPTS]
        elif name == 'cancel':
            links = 1
            counts = open_message_counts()
            ctx.log(f'cancel points per kind: {counts}')
            scripts = cancel_scripts(quick, counts)
        else:
            links = parts[0][0]['links']
            seen = set()
            for alpha, depth, min_depth, both in parts:
                for s in gen_scripts(alpha, depth, min_depth, both):
                    k = json.dumps(s)
                    if k not in seen:
                        seen.add(k)
                        scripts.append(s)
        scripts.sort(key=len)  # stable: shortest first, so the retained example of a violation is a short one
        sizes[name] = len(scripts)
        ctx.log(f'{name}: {len(scripts)} scripts')
        fn = w_cut if name.startswith('cut') else w_seq
        st = ctx.sub(name)
        epi = 'full' if (not quick and name.startswith('cut')) else 'light'
        for r in core.pmap(fn, [(name, links, part, epi) for part in chunks(scripts, ctx.jobs, ctx.seed)], ctx.jobs):
            st.merge(r)
        ctx.log(f'{name}:', st.summary())
    if not only or 'sched' in only:
        st = ctx.sub('sched')
        for i, params in enumerate(sched_scripts):
            explore.explore(run_sched, params, sched_bound, ctx.jobs, st, label=f's{i}:')
        for i, params in enumerate(REOPEN_SCRIPTS if not quick else REOPEN_SCRIPTS[:6]):
            explore.explore(run_sched, params, sched_bound, ctx.jobs, st, label=f'r{i}:')
        ctx.log('sched:', st.summary())
    return core.finish(
        ctx,
        LEVEL,
        rule=(
            'seq1/seq2: every script (operation sequence) over the stated alphabets up to the stated depth, one fresh world each; '
            'cut1/cut2: every script x every message boundary of its fault-free run x disconnect requested by either end (x either link); '
            'sched: scripts x all order-preserving delivery delays with <= 1 deviation; churn: 70-140 open/close cycles per kind, '
            'initiator and closer. distinct = (links, script, cut) / schedule prefix; every script starts with an open or a '
            'refused open, so every case is non-trivial; script_outcomes = distinct per-operation result lists.'
        ),
        assumptions=[
            'both ends are bumble stacks on the in-process LocalLink; the link itself loses nothing (C05/C06)',
            'links 1 and 2 are interchangeable (scripts start on link 1)',
            'classic channels are signalled over the LE link exactly as tests/l2cap_test.py does; Basic mode only (ERTM is C08)',
            'operations of a script run to quiescence before the next one starts unless grouped as concurrent',
        ],
        extra={'scripts': sizes},
    )


def replay(v: core.Violation):
    c = v.case
    if 'params' in c:  # schedule exploration
        res = run_sched(c['params'], c['prefix'], None)
    else:
        res = run_case(c)
    want = core.canon_json(dict(v.signature))
    out = []
    for check, sig, msg in res.get('viol', []):
        if core.canon_json(dict(sig, check=check)) == want:
            out.append(msg)
    return out
