"""C18 - every protocol data unit above HCI round-trips through its codec.

Bounded-exhaustive enumeration (engine 2.4).  One sub-check per protocol:

  l2cap        ERTM enhanced control fields (all 32768 + 1024 values), basic PDU framing
               with/without FCS, PSM encodings of 2/3/4 octets, every signalling class
  att, smp     every registered PDU / command class, unknown codes
  sdp          data elements (types, widths, size-descriptor boundaries 0/1/255/256/
               65535/65536, nesting 1..32 and 33), every PDU class
  rfcomm       frames x length boundaries x credit octet, MCC envelope, PN, MSC
  avdtp        every signalling message class, capabilities, A2DP codec information
  avctp_avrcp  AVCTP header, AV/C frames, every AVRCP command/response/event/item class
  rtp          media packet header with every CSRC count
  adv_data     AD container, every typed AD class
  address_uuid hci.Address, core.UUID
  history      UUID registry under all 1- and 2-operation histories; whole enumeration
               repeated (reversed) in one process must behave identically

Oracle: (1) values -> construct -> bytes -> parse gives the generator's values (UUID width
and address type included); (2) reference bytes (encoded by the check from the spec /
the class's declared field specs) -> parse -> equal values -> rebuild from parsed fields
-> the same bytes, and bytes(parsed) too.  Classes with `fields` are enumerated with at
most k fields off their simplest boundary value (k=1 quick, k=2 thorough).
"""
from __future__ import annotations

import time

from .. import core
from ..harness import c18_common as cm

LEVEL = 'exploration'

SUBS = ['l2cap', 'att', 'smp', 'sdp', 'rfcomm', 'avdtp', 'avctp_avrcp', 'rtp', 'adv_data', 'address_uuid']


def run_sub(name: str, rec: cm.Rec, quick: bool):
    k = 1 if quick else 2
    k_small = 1 if quick else 3  # protocols whose classes have few, cheap fields
    if name == 'l2cap':
        from ..harness import c18_l2cap

        c18_l2cap.run(rec, k_small)
    elif name == 'att':
        from ..harness import c18_att_smp

        c18_att_smp.run_att(rec, k_small)
    elif name == 'smp':
        from ..harness import c18_att_smp

        c18_att_smp.run_smp(rec, k_small)
    elif name == 'sdp':
        from ..harness import c18_sdp

        c18_sdp.run(rec, k, big=True)
    elif name == 'rfcomm':
        from ..harness import c18_rfcomm

        c18_rfcomm.run(rec, quick)
    elif name == 'avdtp':
        from ..harness import c18_av

        c18_av.run_avdtp(rec, k, quick)
    elif name == 'avctp_avrcp':
        from ..harness import c18_av

        c18_av.run_avctp_avrcp(rec, k, quick)
    elif name == 'rtp':
        from ..harness import c18_av

        c18_av.run_rtp(rec, quick)
    elif name == 'adv_data':
        from ..harness import c18_adv

        c18_adv.run_adv(rec, quick)
    elif name == 'address_uuid':
        from ..harness import c18_adv

        c18_adv.run_address_uuid(rec)
    else:
        raise ValueError(name)


def tag(st: core.Stats, sub: str, quick: bool):
    for v in st.violations:
        c = dict(v.case) if isinstance(v.case, dict) else {'case': v.case}
        c.update(sub=sub, quick=quick)
        v.case = c
    return st


def w_sub(arg):
    """One protocol sub-check in a worker forked from the pristine (just-imported) state."""
    name, quick, seed = arg
    t0 = time.time()
    rec = cm.Rec(name, seed)
    run_sub(name, rec, quick)
    rec.st.counters['seconds_x10'] = int((time.time() - t0) * 10)
    return tag(rec.st, name, quick)


def w_history_uuid(arg):
    from ..harness import c18_history

    quick, seed = arg
    rec = cm.Rec('history', seed)
    c18_history.check_uuid_history(rec)
    c18_history.check_registries(rec)
    return tag(rec.st, 'history', quick)


def w_history_passes(arg):
    """Whole enumeration twice in this one process: forward, then reversed."""
    from ..harness import c18_history

    quick, seed = arg
    st = core.Stats('history')
    first: dict[str, cm.Rec] = {}
    reg_before = c18_history.snapshot()
    for name in SUBS:
        rec = cm.Rec(name, seed, keep_outcomes=True)
        run_sub(name, rec, quick)
        first[name] = rec
        st.count('pass1_cases', rec.st.evaluations)
    for name in reversed(SUBS):
        rec = cm.Rec(name, seed, keep_outcomes=True)
        rec.order = -1
        run_sub(name, rec, quick)
        st.count('pass2_cases', rec.st.evaluations)
        c18_history.compare_passes(st, name, first[name], rec)
        st.evaluations += rec.st.evaluations
        st.distinct |= rec.st.distinct
    if c18_history.snapshot() != reg_before:
        st.violation('registry', {'unit': 'all', 'how': 'registry_changed_by_enumeration'}, 'a class registry changed while PDUs were parsed/constructed', {'unit': 'registry_all'})
    st.samples.append({'passes': 'all protocol sub-checks forward, then all again in reversed order, in one process; per-case outcomes compared'})
    return tag(st, 'history_passes', quick)


def worker(item):
    kind = item[0]
    if kind == 'sub':
        return w_sub(item[1:])
    if kind == 'huuid':
        return w_history_uuid(item[1:])
    if kind == 'hpass':
        return w_history_passes(item[1:])
    raise ValueError(kind)


def observations() -> list[str]:
    """Encodings that differ from the Bluetooth specifications but are self-consistent
    (bumble reads back what it writes), hence NOT violations of C18.  Probed at run time so
    the list stays truthful; reported in the evidence only."""
    import struct

    out = []
    try:
        from bumble import avrcp

        b = bytes(avrcp.GetItemAttributesCommand(avrcp.Scope(1), 1, 2, [avrcp.MediaAttributeId(1)]))
        if b[-4:] == b'\x01\x00\x00\x00':
            out.append('avrcp.GetItemAttributesCommand encodes attribute ids little-endian (AVRCP 6.10.4.3: big-endian, as GetElementAttributes does); parse matches serialise')
    except Exception as e:  # pragma: no cover
        out.append(f'observation probe failed: {e}')
    try:
        from bumble import a2dp, avdtp

        S = a2dp.SbcMediaCodecInformation
        m = avdtp.MediaCodecCapabilities(avdtp.MediaType.VIDEO, a2dp.CodecType.SBC, S(S.SamplingFrequency(1), S.ChannelMode(1), S.BlockLength(1), S.Subbands(1), S.AllocationMethod(1), 2, 3))
        if m.service_capabilities_bytes[0] == 0x01:
            out.append('avdtp.MediaCodecCapabilities puts the media type in the low nibble of octet 0 (AVDTP 8.21.5: bits 7-4); invisible for AUDIO (0); parse matches serialise')
    except Exception as e:  # pragma: no cover
        out.append(f'observation probe failed: {e}')
    try:
        from bumble import data_types

        if bytes(data_types.BroadcastCode('abcd')) == b'abcd' and data_types.BroadcastCode.from_bytes(b'abcd' + bytes(12)) == 'abcd':
            out.append('data_types.BroadcastCode serialises codes shorter than 16 octets without the zero padding the Supplement prescribes (a padded code parses but re-serialises unpadded)')
    except Exception as e:  # pragma: no cover
        out.append(f'observation probe failed: {e}')
    try:
        from bumble import rfcomm

        if bytes(rfcomm.RFCOMM_MCC_MSC.from_bytes(b'\x0b\x8d\x01')) == b'\x0b\x8d':
            out.append('rfcomm.RFCOMM_MCC_MSC drops the optional break-signal octet (TS 07.10 5.4.6.3.7)')
    except Exception as e:  # pragma: no cover
        out.append(f'observation probe failed: {e}')
    return out


def preload():
    """Import every module under test once, in the parent, so the forked workers share it
    (import-time registrations are the pristine state every worker starts from)."""
    from bumble import a2dp, att, avc, avctp, avdtp, avrcp, core as bcore, data_types, hci, l2cap, rfcomm, rtp, sdp, smp  # noqa: F401


def run(ctx: core.Context) -> int:
    quick = ctx.quick
    preload()
    only = getattr(ctx, 'only', None)
    items = []
    names = []
    # the two-pass job is the longest: first in the queue
    if not only or 'history' in only:
        items.append(('hpass', quick, ctx.seed))
        names.append('history')
    for name in SUBS:
        if only and name not in only:
            continue
        items.append(('sub', name, quick, ctx.seed))
        names.append(name)
    if not only or 'history' in only:
        items.append(('huuid', quick, ctx.seed))
        names.append('history')
    results = core.pmap(worker, items, ctx.jobs)
    for name, st in zip(names, results):
        ctx.sub(name).merge(st)
    for name in SUBS + ['history']:
        if name in ctx.subs:
            s = ctx.subs[name].summary()
            ctx.log(f'{name}: evaluations={s["evaluations"]} distinct={s["distinct_nontrivial"]} violations={s["violations"]}')
    unb = sorted(set().union(*[st.sets.get('unbuildable', set()) for st in ctx.subs.values()]))
    extra = {
        'classes_reached': {n: len(st.sets.get('classes_reached', ())) for n, st in ctx.subs.items() if st.sets.get('classes_reached')},
        'classes_registered': {n: st.counters.get('classes_registered', 0) for n, st in ctx.subs.items() if st.counters.get('classes_registered')},
        'classes_without_generator': unb,
        'spec_deviations_not_judged': observations(),
        'k_fields_off_simplest': 1 if quick else '2 (3 for l2cap, att, smp)',
    }
    return core.finish(
        ctx,
        LEVEL,
        rule=(
            'every registered class of every protocol x every assignment of boundary values with at most k fields off '
            'their simplest value (k=' + ('1' if quick else '2') + '); exhaustive products for bit-packed units (ERTM control fields, MSC, '
            'end-point info, SBC capability bits); every length-encoding boundary of RFCOMM, SDP, AD structures; 156 UUID '
            'operation histories x 3 widths; the whole enumeration twice in one process. A case is the execution of all '
            'round-trip oracles for one value; distinct = distinct (unit, value) keys.'
        ),
        assumptions=[
            'values between the listed boundary values are not visited',
            'expected bytes come from encoders written in the check (spec layouts; for classes with declared field specs, the declared spec encoded independently)',
            'payload byte contents follow one fixed pattern (shifted by VERIF_SEED)',
            'units bumble refuses in both directions (128-bit SDP integers, SDP nesting beyond 32, AV/C extended subunit types) are counted, not judged',
        ],
        extra=extra,
    )


def replay(v: core.Violation):
    """Re-run the recorded case.  Field-spec classes are replayed as the single recorded
    assignment; the other units re-run their (sub-second) sub-check and report the
    violation with the same signature."""
    c = v.case or {}
    seed = 0
    sub = c.get('sub')
    quick = bool(c.get('quick', True))
    if 'idx' in c and 'proto' in c:
        m = replay_assignment(c, seed)
        if m is not None:
            return m
    if sub == 'history':
        st = w_history_uuid((quick, seed))
    elif sub == 'history_passes':
        st = w_history_passes((quick, seed))
    else:
        rec = cm.Rec(sub, seed)
        run_sub(sub, rec, quick)
        st = rec.st
    return [x.message for x in st.violations if x.key == v.key]


def adapters():
    from ..harness import c18_att_smp, c18_av, c18_l2cap, c18_sdp

    c18_av._register_fresh()
    return {
        'l2cap': c18_l2cap.L2capAdapter(),
        'att': c18_att_smp.AttAdapter(),
        'smp': c18_att_smp.SmpAdapter(),
        'sdp': c18_sdp.SdpAdapter(True),
        'avdtp': c18_av.AvdtpAdapter(),
        'avrcp_command': c18_av.AvrcpCommandAdapter(),
        'avrcp_response': c18_av.AvrcpResponseAdapter(),
        'avrcp_event': c18_av.AvrcpEventAdapter(),
        'avrcp_item': c18_av.AvrcpItemAdapter(),
    }


def replay_assignment(c: dict, seed: int):
    ad = adapters().get(c['proto'])
    if ad is None:
        return None
    rec = cm.Rec(c['proto'], seed)
    for key, cls in ad.classes():
        if cls.__name__ == c['cls'] and (repr(key) == c['key'] or (isinstance(key, int) and int(key) == c['key'])):
            problems: list[str] = []
            slots = cm.build_slots(ad, key, cls, rec, problems)
            if slots is None:
                return None
            pre = {n for s in ad.pre_slots(key, cls, rec) for n in s.cands[0][1]}
            values, body, have = {}, b'', True
            for s, i in zip(slots, c['idx']):
                _, vals, r = s.cands[i]
                values.update(vals)
                if any(n in pre for n in vals):
                    continue
                if r is None:
                    have = False
                elif have:
                    body += r
            names = [n for s in slots for n in s.cands[0][1]]
            res = cm.roundtrip_one(ad, key, cls, values, names, body if have else None)
            return [res[2]] if res else []
    return None
