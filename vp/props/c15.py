"""C15 — the JSON key store is exact, persistent, namespace-isolated and crash-atomic.

Explicit-state search over the REAL `bumble.keys.JsonKeyStore`:

* `history:<config>`  breadth-first over operation histories (update / delete /
  delete_all / get / get_all / get_resolving_keys / re-open) of several stores
  that share one file.  A state is reached by replaying its history on fresh
  real objects over an in-memory file layer (harness/c15_vfs.py); its canonical
  form is (files on disk, directories, unflushed handles, instance attributes).
  A dict reference model is stepped in lock-step; after every transition the
  result of the op, the raw file, and get/get_all/get_resolving_keys of EVERY
  store — from fresh instances and from the instances that made the history —
  are compared with it (exactness, persistence, isolation).
* `crash`  for every mutating op out of every state up to the crash depth: the
  fault-free run records what would be on disk had the process died just before
  each file-system step (mkdir, open, every write, close, replace) and after the
  last one; every modelled on-disk image (unflushed temp-file data cut at
  none / half / all-but-one / all) is opened by fresh stores: the file must be a
  JSON object and all namespaces must equal the model before OR after the op;
  then one more update per store must work on that image.  The file layer
  records which parts of an image the real code looked at (content of a path, or
  just its existence); an image that agrees with an already evaluated one on all
  of those parts gets the same verdict without re-running the code (sound: the
  layer is the code's only window on the files).  Counted: all images as
  evaluations, images the real code ran on as distinct cases.
* `crash_raise`  cross-validation of the recorder: the same op is re-run with a
  SimulatedCrash (BaseException) really raised at step n and the frozen layer
  must give the same images.
* `roundtrip`  all PairingKeys with <= k fields set, over a boundary domain.
* `realfs`  the same histories on a real scratch directory: file bytes must be
  the ones the in-memory layer produced (validates the layer).

Oracle notes (DESIGN §3 C15): `update` is per-field overwrite (what
`setdefault().update()` implements); deleting an absent peer may raise KeyError
but must change nothing.  Deviation from the design: the default-namespace store
sharing a file with named namespaces is NOT left out.  Its documented read rule
("load the existing namespace if there is only one, else use __DEFAULT__") is
taken as the specification — evaluated on the top-level keys of the actual file
— so aliasing itself is never flagged; what the statement still demands (the
file stays a loadable database, the op lands in the resolved namespace, no other
namespace changes) is checked in config `alias3`.
"""
from __future__ import annotations

import itertools
import json
import shutil
import tempfile

from .. import core
from ..harness import c15_vfs as V
from ..vloop import VLoop

LEVEL = 'model_checking'

FILE = '/c15/data/sub/keys.json'
BASE_DIRS = ('/', '/c15')
DEFAULT = '__DEFAULT__'
NS_A = 'A0:A1:A2:A3:A4:A5/P'
NS_B = 'B0:B1:B2:B3:B4:B5'
PEERS = ('F0:F1:F2:F3:F4:F5', 'C4:C5:C6:C7:C8:C9/P')
SLOTS = ('ltk', 'ltk_central', 'ltk_peripheral', 'irk', 'csrk', 'link_key')
KEY_SUB = ('value', 'authenticated', 'ediv', 'rand')
MUTATING = ('update', 'delete', 'delete_all')

CONFIGS = {
    # name: (namespace labels sharing FILE, key-set indices)
    'shared2': ((NS_A, NS_B), (0, 1, 2, 3)),
    'default_own': ((DEFAULT,), (0, 1, 2, 3)),
    'alias3': ((DEFAULT, NS_A, NS_B), (0, 1)),
}
#            history depth, crash depth, follow-up depth, raise-validation depth
BOUNDS = {
    'quick': {'shared2': (4, 2, 2, 0), 'default_own': (5, 2, 2, 0), 'alias3': (3, -1, -1, -1)},
    'thorough': {'shared2': (6, 3, 3, 1), 'default_own': (12, 3, 3, 1), 'alias3': (4, -1, -1, -1)},
}


# ---------------------------------------------------------------------------
# specs (plain data) <-> real PairingKeys
# ---------------------------------------------------------------------------
def kv(seed: int, i: int) -> str:
    return bytes(((seed * 29 + i * 16 + j + 1) & 0xFF) for j in range(16)).hex()


def rv(seed: int, i: int) -> str:
    return bytes(((seed * 13 + i * 8 + j + 0x81) & 0xFF) for j in range(8)).hex()


def key_sets(seed: int):
    """Four partially overlapping key sets (so merge-vs-replace, nested merge and
    last-writer-wins are all observable)."""
    return [
        {'address_type': 0, 'ltk': (kv(seed, 1), True, 0x1234, rv(seed, 1)), 'irk': (kv(seed, 2), False, None, None)},
        {'irk': (kv(seed, 3), True, None, None), 'csrk': (kv(seed, 4), False, None, None), 'ltk': (kv(seed, 5), False, None, None)},
        {'link_key': (kv(seed, 6), True, None, None), 'link_key_type': 4},
        {'address_type': 1, 'ltk_central': (kv(seed, 7), False, 0, rv(seed, 2)), 'ltk_peripheral': (kv(seed, 8), True, 0xFFFF, None)},
    ]


def to_real(spec: dict):
    from bumble import hci
    from bumble.keys import PairingKeys

    kw = {}
    for f, v in spec.items():
        if f == 'address_type':
            kw[f] = hci.AddressType(v)
        elif f == 'link_key_type':
            kw[f] = v
        else:
            value, auth, ediv, rand = v
            kw[f] = PairingKeys.Key(bytes.fromhex(value), auth, ediv, bytes.fromhex(rand) if rand is not None else None)
    return PairingKeys(**kw)


def from_real(pk) -> dict:
    """Read a PairingKeys back into plain data by attribute access only."""
    out = {}
    at = pk.address_type
    if at is not None:
        out['address_type'] = int(at) if isinstance(at, int) and not isinstance(at, bool) else ('bad-type', repr(at))
    for slot in SLOTS:
        k = getattr(pk, slot)
        if k is None:
            continue
        value = k.value.hex() if isinstance(k.value, bytes) else ('bad-type', repr(k.value))
        auth = k.authenticated if type(k.authenticated) is bool else ('bad-type', repr(k.authenticated))
        ediv = k.ediv if (k.ediv is None or type(k.ediv) is int) else ('bad-type', repr(k.ediv))
        rand = None if k.rand is None else (k.rand.hex() if isinstance(k.rand, bytes) else ('bad-type', repr(k.rand)))
        out[slot] = (value, auth, ediv, rand)
    lkt = pk.link_key_type
    if lkt is not None:
        out['link_key_type'] = lkt if type(lkt) is int else ('bad-type', repr(lkt))
    return out


def spec_diff_detail(exp: dict | None, got: dict | None) -> list[tuple]:
    """(field path, expected value) for everything that differs (slot names generalised to 'key')."""
    if exp is None or got is None:
        return [] if exp == got else [('presence', None)]
    out = []
    for f in sorted(set(exp) | set(got)):
        a, b = exp.get(f), got.get(f)
        if a == b:
            continue
        if f in SLOTS:
            if a is None or b is None:
                out.append(('key.presence', None))
            else:
                out.extend(('key.' + n, x) for n, x, y in zip(KEY_SUB, a, b) if x != y)
        else:
            out.append((f, a))
    return out


def spec_diff(exp, got) -> list[str]:
    return sorted({p for p, _ in spec_diff_detail(exp, got)})


def jsonable(x):
    return json.loads(core.canon_json(x))


def tup(x):
    if isinstance(x, list):
        return tuple(tup(i) for i in x)
    return x


def spec_from_json(d: dict) -> dict:
    return {f: (tuple(v) if isinstance(v, list) else v) for f, v in d.items()}


# ---------------------------------------------------------------------------
# reference model: {namespace: {peer: {field: value}}}
# ---------------------------------------------------------------------------
def resolve(label: str, keys) -> str:
    """Namespace a store works on.  Named store: its own.  Default store
    (JsonKeyStore docstring): an existing '__DEFAULT__' entry; else the only
    namespace in the file when there is exactly one; else '__DEFAULT__'."""
    if label != DEFAULT:
        return label
    if keys is None or DEFAULT in keys:
        return DEFAULT
    if len(keys) == 1:
        return next(iter(keys))
    return DEFAULT


def known_namespaces(file_keys, model):
    """Namespaces that exist: the top-level keys of the file, and every namespace something was ever stored in (it
    stays in existence when it becomes empty again: its store goes on returning nothing, not another namespace)."""
    if file_keys is None and not model:
        return None
    out = list(file_keys or ())
    out += [ns for ns in model if ns not in out]
    return tuple(out)


def m_copy(model):
    return {ns: {p: dict(f) for p, f in pm.items()} for ns, pm in model.items()}


def m_norm(model):
    return {ns: pm for ns, pm in model.items() if pm}


def m_apply(model, ns, op, ksets):
    """-> (new model, expectation) ; expectation = ('none',) | ('absent',) | ('value', v)."""
    kind = op[0]
    m = m_copy(model)
    pm = m.setdefault(ns, {})
    if kind == 'update':
        pm.setdefault(PEERS[op[2]], {}).update(ksets[op[3]])  # per-field overwrite
        return m, ('none',)
    if kind == 'delete':
        if PEERS[op[2]] in pm:
            del pm[PEERS[op[2]]]
            return m, ('none',)
        return model, ('absent',)
    if kind == 'delete_all':
        if ns not in model:
            return model, ('none',)  # nothing was ever stored there: the namespace does not come into existence
        pm.clear()
        return m, ('none',)
    if kind == 'get':
        return model, ('value', pm.get(PEERS[op[2]]))
    if kind == 'get_all':
        return model, ('value', pm)
    if kind == 'resolving':
        return model, ('value', m_resolving(pm))
    raise ValueError(op)


def addr_text(name: str) -> str:
    return name[:-2] if name.endswith('/P') else name


def m_resolving(pm):
    out = []
    for name, spec in pm.items():
        if 'irk' in spec:
            # a '/P' name forces the address type in hci.Address; the stored one is not demanded there
            at = None if name.endswith('/P') else spec.get('address_type', 1)
            out.append((spec['irk'][0], addr_text(name), at))
    return sorted(out, key=repr)


# ---------------------------------------------------------------------------
# driving the real store
# ---------------------------------------------------------------------------
_LOOP = None
_BK = None


def env():
    global _LOOP, _BK
    if _BK is None:
        _BK = V.install()
    if _LOOP is None:
        _LOOP = VLoop()
        _LOOP.__enter__()
    return _LOOP, _BK


class World:
    def __init__(self, labels, files=None, dirs=BASE_DIRS, filename=FILE, virtual=True):
        self.loop, self.bk = env()
        self.labels = labels
        self.filename = filename
        self.vfs = V.VFS(files, dirs) if virtual else None
        self.stores = self.fresh_stores()

    def fresh_stores(self):
        if self.vfs is None:
            return {lb: self.bk.JsonKeyStore(None if lb == DEFAULT else lb, self.filename) for lb in self.labels}
        with self.vfs:
            return {lb: self.bk.JsonKeyStore(None if lb == DEFAULT else lb, self.filename) for lb in self.labels}

    def call(self, store, method, *args):
        if self.vfs is None:
            return self.loop.run(getattr(store, method)(*args))
        with self.vfs:
            return self.loop.run(getattr(store, method)(*args))

    def raw(self):
        """('missing', None) | ('ok', top-level keys) | ('bad', why) for the db file on disk."""
        if self.vfs is not None:
            ino = self.vfs.names.get(self.filename)
            data = None if ino is None else ino.data
        else:
            try:
                with open(self.filename, 'rb') as f:
                    data = f.read()
            except FileNotFoundError:
                data = None
        return raw_of(data)

    def canon(self):
        v = self.vfs
        return (
            tuple(sorted(v.image().items())),
            tuple(sorted(v.dirs)),
            tuple((w.path, w.buf) for w in v.writers),
            tuple((lb, repr(sorted(vars(s).items(), key=lambda kv_: kv_[0]))) for lb, s in self.stores.items()),
        )


def raw_of(data):
    if data is None:
        return ('missing', None)
    try:
        db = json.loads(data.decode('utf-8'))
    except Exception as e:  # noqa
        return ('bad', f'file_unparseable: {type(e).__name__}: {e} (file is {len(data)} bytes: {data[:40]!r}...)')
    if not isinstance(db, dict) or not all(isinstance(x, dict) for x in db.values()):
        return ('bad', f'file_root_not_object: file content is {data[:60]!r}')
    return ('ok', tuple(db.keys()))


def exec_op(world: World, stores, op, ksets):
    """-> ('ok', result) | ('exc', exception).  SimulatedCrash propagates."""
    kind = op[0]
    try:
        if kind == 'update':
            return ('ok', world.call(stores[op[1]], 'update', PEERS[op[2]], to_real(ksets[op[3]])))
        if kind == 'delete':
            return ('ok', world.call(stores[op[1]], 'delete', PEERS[op[2]]))
        if kind == 'delete_all':
            return ('ok', world.call(stores[op[1]], 'delete_all'))
        if kind == 'get':
            return ('ok', world.call(stores[op[1]], 'get', PEERS[op[2]]))
        if kind == 'get_all':
            return ('ok', world.call(stores[op[1]], 'get_all'))
        if kind == 'resolving':
            return ('ok', world.call(stores[op[1]], 'get_resolving_keys'))
    except Exception as e:  # noqa
        return ('exc', e)
    raise ValueError(op)


def read_get_all(res):
    got = {}
    for name, pk in res:
        if name in got:
            return None, f'peer {name} listed twice'
        got[name] = from_real(pk)
    return got, None


def read_resolving(res):
    out = []
    for irk, addr in res:
        text = bytes(reversed(addr.address_bytes)).hex(':').upper()
        out.append((irk.hex(), text, int(addr.address_type)))
    return out


def cmp_resolving(exp, got):
    """Order-free comparison; address types the model does not demand are blanked."""
    blank = {(i, a) for i, a, t in exp if t is None}
    g = sorted(((i, a, None if (i, a) in blank else t) for i, a, t in got), key=repr)
    return g == exp


def check_result(op, status, expect):
    """Compare the op's own outcome with the model's expectation -> None | (kind, detail)."""
    st, val = status
    if expect == ('absent',):
        if st == 'exc' and not isinstance(val, KeyError):
            return ('op_exception', f'{type(val).__name__}: {val}')
        return None
    if st == 'exc':
        return ('op_exception', f'{type(val).__name__}: {val}')
    if expect == ('none',):
        return None
    want = expect[1]
    kind = op[0]
    try:
        if kind == 'get':
            got = None if val is None else from_real(val)
            if got != want:
                return ('get_mismatch', f'diff {spec_diff(want, got)}: expected {want}, got {got}')
        elif kind == 'get_all':
            got, err = read_get_all(val)
            if err or got != want:
                return ('get_all_mismatch', err or describe_map_diff(want, got))
        elif kind == 'resolving':
            if not cmp_resolving(want, read_resolving(val)):
                return ('resolving_mismatch', f'expected {want}, got {read_resolving(val)}')
    except Exception as e:  # noqa
        return ('bad_object', f'{type(e).__name__}: {e}')
    return None


def describe_map_diff(want, got):
    parts = []
    for p in sorted(set(want) | set(got)):
        if want.get(p) != got.get(p):
            parts.append(f'{p}: diff {spec_diff(want.get(p), got.get(p))} expected {want.get(p)} got {got.get(p)}')
    return '; '.join(parts)


def observe(world: World, stores, model, keys):
    """Every store's get_all / get / get_resolving_keys against the model.
    -> None | (kind, detail, label)"""
    for label, store in stores.items():
        exp = m_norm(model).get(resolve(label, known_namespaces(keys, model)), {})
        for op, expect in (
            [(('get_all', label), ('value', exp))]
            + [(('get', label, i), ('value', exp.get(PEERS[i]))) for i in range(len(PEERS))]
            + [(('resolving', label), ('value', m_resolving(exp)))]
        ):
            status = exec_op(world, stores, op, None)
            bad = check_result(op, status, expect)
            if bad:
                kind = 'read_exception' if bad[0] == 'op_exception' else bad[0]
                return (kind, f'{op[0]} on store {label!r}: {bad[1]}', label)
    return None


# ---------------------------------------------------------------------------
# history replay
# ---------------------------------------------------------------------------
def alphabet(cfg: str, seed: int):
    labels, ks = CONFIGS[cfg]
    ops = []
    for lb in labels:
        for p in range(len(PEERS)):
            for k in ks:
                ops.append(('update', lb, p, k))
        for p in range(len(PEERS)):
            ops.append(('delete', lb, p))
        ops.append(('delete_all', lb))
        for p in range(len(PEERS)):
            ops.append(('get', lb, p))
        ops.append(('get_all', lb))
        ops.append(('resolving', lb))
    ops.append(('reopen',))
    r = seed % len(ops)
    return ops[r:] + ops[:r]


def step_model(world, model, op, ksets):
    """Model transition for `op` given the file as it is now -> (model', expect, target ns)."""
    st, keys = world.raw()
    ns = resolve(op[1], known_namespaces(keys if st == 'ok' else None, model))
    m, expect = m_apply(model, ns, op, ksets)
    return m, expect, ns


def build(cfg: str, hist, ksets):
    """Replay a history on fresh real objects (no observations) -> (world, model)."""
    world = World(CONFIGS[cfg][0])
    model = {}
    for op in hist:
        if op[0] == 'reopen':
            world.stores = world.fresh_stores()
            continue
        model, _, _ = step_model(world, model, op, ksets)
        exec_op(world, world.stores, op, ksets)
    return world, model


def sig(cfg, kind, **kw):
    d = {'sub': cfg, 'kind': kind}
    d.update(kw)
    return d


def transition(cfg, seed, ksets, world, model, hist, op, st, crash=False):
    """Apply `op` to the world that `hist` built; check everything; -> (ok, model', violated)."""
    case = {'config': cfg, 'seed': seed, 'hist': [list(o) for o in hist], 'op': list(op)}
    if op[0] == 'reopen':
        world.stores = world.fresh_stores()
        model2, expect, target = model, ('none',), None
        status = ('ok', None)
    else:
        model2, expect, target = step_model(world, model, op, ksets)
        if crash:
            world.vfs.record = True
            world.vfs.timeline = []
            world.vfs.log = []
            world.vfs.steps = 0
        status = exec_op(world, world.stores, op, ksets)
        if crash:
            world.vfs.record = False
    where = lambda label: 'own_ns' if (target is None or resolve(label, world.raw()[1]) == target) else 'other_ns'
    violated = False

    def fail(kind, msg, **kw):
        nonlocal violated
        violated = True
        if kind.startswith('file_'):
            check, signature = kind, sig(cfg, kind, **kw)
        else:
            check, signature = f'history_{kind}', sig(cfg, kind, op=op[0], **kw)
        st.violation(check, signature, f'[{cfg}] after {fmt_hist(hist)} then {fmt_op(op)}: {msg}', case)

    bad = check_result(op, status, expect)
    if bad:
        fail(bad[0], bad[1], view='result')
    rst_, keys = world.raw()
    if rst_ == 'bad':
        fail(keys.split(':')[0], keys, actor='default_ns' if (len(op) > 1 and op[1] == DEFAULT) else 'named_ns')
        keys = None
    if not violated:
        fresh = world.fresh_stores()
        bad = observe(world, fresh, model2, keys)
        if bad:
            fail(bad[0], bad[1], view='fresh_instance', where=where(bad[2]))
    return status, model2, violated


def after_observe(cfg, world, model2, hist, op, st, seed):
    """Reads through the instances that executed the history (done after the canon is taken)."""
    rst_, keys = world.raw()
    bad = observe(world, world.stores, model2, keys if rst_ == 'ok' else None)
    if bad:
        st.violation(
            f'history_{bad[0]}',
            sig(cfg, bad[0], op=op[0], view='same_instance'),
            f'[{cfg}] after {fmt_hist(hist)} then {fmt_op(op)} (same instances): {bad[1]}',
            {'config': cfg, 'seed': seed, 'hist': [list(o) for o in hist], 'op': list(op)},
        )
        return True
    return False


def fmt_op(op):
    if op[0] == 'reopen':
        return 'reopen'
    s = f'{op[1]}.{op[0]}('
    if len(op) > 2:
        s += PEERS[op[2]]
    if len(op) > 3:
        s += f', K{op[3]}'
    return s + ')'


def fmt_hist(hist):
    return '[' + '; '.join(fmt_op(o) for o in hist) + ']' if hist else '[empty file]'


# ---------------------------------------------------------------------------
# crash enumeration for one (state, mutating op)
# ---------------------------------------------------------------------------
def followups(cfg):
    return [('update', lb, i % len(PEERS), (i + 1) % 2 + 1) for i, lb in enumerate(CONFIGS[cfg][0])]


def eval_image(cfg, ksets, dirs, files, before, after, follow):
    """One on-disk image after death -> (None | (kind, detail), dependency set).
    The dependency set lists what the real code looked at in the image (content of a
    path, or only its existence); the verdict is a function of those parts alone."""
    deps = {FILE: 'content'}

    def absorb(world):
        for path, kind in world.vfs.deps.items():
            if kind == 'content' or path not in deps:
                deps[path] = kind

    def done(result):
        return result, tuple(sorted(deps.items()))

    data = files.get(FILE)
    rst_, keys = raw_of(data)
    if rst_ == 'bad':
        return done((keys.split(':')[0], keys))
    w = World(CONFIGS[cfg][0], files=files, dirs=dirs)
    b0 = observe(w, w.stores, before, keys)
    matched = before
    b1 = None
    if b0 is not None:
        b1 = observe(w, w.stores, after, keys)
        matched = after
    absorb(w)
    if b0 is not None and b1 is not None:
        if b0[0] == 'read_exception':
            return done(('read_exception', b0[1]))
        return done(('neither_old_nor_new', f'vs previous state: {b0[1]} | vs new state: {b1[1]}'))
    if follow:
        for fop in followups(cfg):
            w2 = World(CONFIGS[cfg][0], files=files, dirs=dirs)
            m2, expect, _ = step_model(w2, matched, fop, ksets)
            status = exec_op(w2, w2.stores, fop, ksets)
            bad = check_result(fop, status, expect)
            if bad is None:
                r2, k2 = w2.raw()
                if r2 == 'bad':
                    bad = (k2.split(':')[0], k2)
                else:
                    o = observe(w2, w2.fresh_stores(), m2, k2)
                    bad = None if o is None else (o[0], o[1])
            absorb(w2)
            if bad:
                return done(('next_op_failed', f'{fmt_op(fop)} on the recovered file: {bad[0]}: {bad[1]}'))
    return done(None)


def crash_points(cfg, seed, ksets, hist, op, world, before, after, cst, follow):
    """`world` has just executed `op` fault-free with recording on.  Every modelled
    on-disk image of every crash point gets a verdict; the real code is re-run on an
    image only when it differs from an already evaluated one in a part the code reads."""
    vfs = world.vfs
    frozen_list = list(vfs.timeline) + [vfs.frozen()]
    log = list(vfs.log[: len(vfs.timeline)])
    learned = []
    cache = {}
    per_point = []
    for n, frozen in enumerate(frozen_list):
        step_name = (log[n][0] + ':' + ('tmp' if log[n][1].endswith('.tmp') else 'db' if log[n][1].endswith('.json') else 'dir')) if n < len(log) else 'return'
        imgs = []
        for combo, dirs, files in V.crash_images(frozen):
            imgs.append((dirs, tuple(sorted(files.items()))))
            cst.count('crash_images')
            hit = False
            for D in learned:
                k = (D, V.dep_key(D, dirs, files))
                if k in cache:
                    bad, hit = cache[k], True
                    break
            if not hit:
                bad, D = eval_image(cfg, ksets, dirs, files, before, after, follow)
                if D not in learned:
                    learned.append(D)
                cache[(D, V.dep_key(D, dirs, files))] = bad
                cst.count('images_run_on_real_code')
                cst.add('db_file_states', raw_of(files.get(FILE))[0] + ('+tmp' if (FILE + '.tmp') in files else ''))
                cst.add('dependency_sets', D)
                if follow:
                    cst.count('post_crash_ops', len(followups(cfg)))
            # every image is one evaluation; it counts as distinct when the real code had to be run on it
            cst.case((cfg, hist, op, n, combo) if not hit else None)
            cst.add('step_kinds', step_name)
            if bad:
                cst.violation(
                    'crash_' + bad[0],
                    sig('crash', bad[0], crash_before=step_name),
                    f'[{cfg}] state {fmt_hist(hist)}, {fmt_op(op)} killed before step {n} ({step_name}) of {len(log)}, '
                    f'unflushed data kept: {list(combo) or "n/a"}: {bad[1]}',
                    {'config': cfg, 'seed': seed, 'hist': [list(o) for o in hist], 'op': list(op), 'crash': n},
                )
        per_point.append(sorted(imgs))
    if len(cst.samples) < 1 and len(log) > 20:
        cst.samples.append({'config': cfg, 'state_reached_by': fmt_hist(hist), 'op': fmt_op(op), 'file_system_steps': len(log),
                            'first_steps': [f'{k}:{a}' for k, a in log[:6]], 'last_steps': [f'{k}:{a}' for k, a in log[-3:]],
                            'crash_points': len(frozen_list), 'images_run_on_real_code': len(cache)})
    cst.count('crash_points', len(frozen_list))
    cst.count('ops_crashed')
    cst.add('steps_per_op', len(log))
    return per_point, log


def crash_raise_validate(cfg, ksets, hist, op, per_point, log, rst):
    """Really raise at step n; the frozen layer must hold the recorded images."""
    for n in range(len(log)):
        w, _ = build(cfg, hist, ksets)
        w.vfs.crash_at = w.vfs.steps + n
        outcome = 'returned'
        try:
            exec_op(w, w.stores, op, ksets)
        except V.SimulatedCrash:
            outcome = 'crashed'
        if not w.vfs.dead:
            raise core.HarnessError(f'C15: crash at step {n} of {fmt_op(op)} after {fmt_hist(hist)} was never reached (nondeterministic step log)')
        imgs = sorted((dirs, tuple(sorted(files.items()))) for _, dirs, files in V.crash_images(w.vfs.frozen()))
        if imgs != per_point[n]:
            raise core.HarnessError(f'C15: recorded crash image differs from raised crash at step {n} of {fmt_op(op)} after {fmt_hist(hist)}')
        rst.case((cfg, hist, op, n))
        rst.count('crash_swallowed' if outcome == 'returned' else 'crash_propagated')


# ---------------------------------------------------------------------------
# BFS worker
# ---------------------------------------------------------------------------
def w_expand(arg):
    cfg, seed, nodes, depth, bounds, (part, nparts) = arg
    _, crash_d, follow_d, raise_d = bounds
    env()
    ksets = key_sets(seed)
    st, cst, rst = core.Stats('history:' + cfg), core.Stats('crash'), core.Stats('crash_raise')
    ops = alphabet(cfg, seed)[part::nparts]
    succ = []
    for hist, node_digest in nodes:
        hist = tuple(tup(o) for o in hist)
        world = None
        for op in ops:
            if world is None:
                world, model = build(cfg, hist, ksets)
                st.count('history_replays')
                if core.digest(world.canon()) != node_digest:
                    raise core.HarnessError(f'C15: replaying {fmt_hist(hist)} gave a different state (nondeterminism)')
            do_crash = depth <= crash_d and op[0] in MUTATING
            status, model2, violated = transition(cfg, seed, ksets, world, model, hist, op, st, crash=do_crash)
            st.case((cfg, hist, op), nontrivial=True)
            st.add('ops_seen', op[0])
            if status[0] == 'exc':
                st.add('exceptions_seen', type(status[1]).__name__)
            if do_crash and not violated:
                per_point, log = crash_points(cfg, seed, ksets, hist, op, world, model, model2, cst, follow=depth <= follow_d)
                if depth <= raise_d:
                    crash_raise_validate(cfg, ksets, hist, op, per_point, log, rst)
            d2 = core.digest(world.canon())
            if not violated:
                violated = after_observe(cfg, world, model2, hist, op, st, seed)
            if not violated and d2 != node_digest:
                succ.append((d2, hist + (op,), core.digest(m_norm(model2))))
            if d2 != node_digest:
                st.count('state_changing_transitions')
            # the world can be reused for the next op only if it is still in the node's state
            if core.digest(world.canon()) != node_digest:
                world = None
        if len(st.samples) < 2 and len(hist) >= 2 and ops:
            st.samples.append({'config': cfg, 'state_reached_by': fmt_hist(hist), 'then_each_of': [fmt_op(o) for o in ops[:4]] + ['...'],
                               'model_state': jsonable(m_norm(model))})
    return st, cst, rst, succ


def bfs(ctx, cfg, bounds):
    max_depth = bounds[0]
    env()
    w0 = World(CONFIGS[cfg][0])
    d0 = core.digest(w0.canon())
    seen = {d0: core.digest({})}
    depth_of = {d0: 0}
    hist_of = {d0: ()}
    frontier = [((), d0)]
    st = ctx.sub('history:' + cfg)
    cst, rst = ctx.sub('crash'), ctx.sub('crash_raise')
    transitions = 0
    confluence_bad = 0
    depth = 0
    for depth in range(max_depth):
        if not frontier:
            break
        parts = core.split(frontier, ctx.jobs * 4)
        # small frontiers: also split the alphabet so that all workers have something to do
        nparts = max(1, min(len(alphabet(cfg, ctx.seed)), (ctx.jobs * 4) // len(parts)))
        res = core.pmap(w_expand, [(cfg, ctx.seed, p, depth, bounds, (i, nparts)) for p in parts for i in range(nparts)], ctx.jobs)
        nxt = []
        cand = []
        for s, c, r, succ in res:
            st.merge(s)
            cst.merge(c)
            rst.merge(r)
            cand.extend(succ)
        # deterministic representative: shortest-lexicographic history among equals
        cand.sort(key=lambda x: (x[0], repr(x[1])))
        for d, hist, mdig in cand:
            if d in seen:
                if seen[d] != mdig:
                    confluence_bad += 1
                continue
            seen[d] = mdig
            depth_of[d] = depth + 1
            hist_of[d] = hist
            nxt.append((hist, d))
        transitions += len(frontier) * len(alphabet(cfg, ctx.seed))
        ctx.log(f'{cfg}: depth {depth} expanded {len(frontier)} states -> {len(nxt)} new (total {len(seen)})')
        frontier = nxt
    if frontier:
        st.count('states_at_depth_bound_not_expanded', len(frontier))
    else:
        st.notes.append(f'{cfg}: fixpoint - the deepest state is {max(depth_of.values())} ops from the empty file; the whole reachable graph over this alphabet is explored')
    st.count('states', len(seen))
    st.count('confluence_mismatches', confluence_bad)
    if confluence_bad and not st.violations:
        raise core.HarnessError(f'C15/{cfg}: {confluence_bad} states reached with two different reference-model states but no observable difference')
    return len(seen), transitions, hist_of, depth_of


# ---------------------------------------------------------------------------
# round trip of PairingKeys values
# ---------------------------------------------------------------------------
def rt_domain(seed):
    from bumble import hci

    values = ['00' * 16, 'ff' * 16, bytes((seed + i) & 0xFF for i in range(16)).hex()]
    keys = [(v, a, e, r) for v in values for a in (False, True) for e in (None, 0, 0xFFFF) for r in (None, rv(seed, 5))]
    dom = {'address_type': [int(t) for t in hci.AddressType], 'link_key_type': [0, 8]}
    for s in SLOTS:
        dom[s] = keys
    return dom


def rt_cases(seed, k):
    """(fields set, their values) for every assignment with <= k fields set."""
    dom = rt_domain(seed)
    fields = ['address_type', 'link_key_type'] + list(SLOTS)
    for n in range(k + 1):
        for chosen in itertools.combinations(fields, n):
            for vals in itertools.product(*(dom[f] for f in chosen)):
                yield chosen, vals


def rt_count(seed, k):
    dom = rt_domain(seed)
    fields = ['address_type', 'link_key_type'] + list(SLOTS)
    total = 0
    for n in range(k + 1):
        for chosen in itertools.combinations(fields, n):
            c = 1
            for f in chosen:
                c *= len(dom[f])
            total += c
    return total


def rt_one(spec, st, seed):
    from bumble.keys import PairingKeys

    case = {'seed': seed, 'spec': jsonable(spec)}

    def fail(kind, exp, got, extra=''):
        detail = spec_diff_detail(exp, got)
        fields = sorted({p_ for p_, _ in detail})
        values = {}
        for p_, v_ in detail:
            if isinstance(v_, (int, bool, type(None))):
                values.setdefault(p_, set()).add(repr(v_))
        values = {p_: sorted(v_) for p_, v_ in values.items()}
        st.violation('roundtrip_' + kind, sig('roundtrip', kind, fields=fields, values=values), f'PairingKeys {spec} {extra}came back as {got} (diff {fields})', case)

    try:
        real = to_real(spec)
        # pure (de)serialisation through JSON text
        back = from_real(PairingKeys.from_dict(json.loads(json.dumps(real.to_dict()))))
        if back != spec:
            fail('dict', spec, back, 'through to_dict/json/from_dict ')
            return
        w = World((NS_A,))
        name = PEERS[0]
        w.call(w.stores[NS_A], 'update', name, real)
        for view, stores in (('same_instance', w.stores), ('fresh_instance', w.fresh_stores())):
            got = w.call(stores[NS_A], 'get', name)
            got = None if got is None else from_real(got)
            if got != spec:
                fail('store_' + view, spec, got, f'stored and read ({view}) ')
                return
            allk, err = read_get_all(w.call(stores[NS_A], 'get_all'))
            if err or allk != {name: spec}:
                fail('get_all_' + view, spec, (allk or {}).get(name), f'stored and listed ({view}) ')
                return
            res = read_resolving(w.call(stores[NS_A], 'get_resolving_keys'))
            exp = m_resolving({name: spec})
            if not cmp_resolving(exp, res):
                st.violation('roundtrip_resolving', sig('roundtrip', 'resolving'), f'{spec}: resolving keys {res}, expected {exp}', case)
                return
    except Exception as e:  # noqa
        st.violation('roundtrip_exception', sig('roundtrip', 'exception', exc=type(e).__name__), f'PairingKeys {spec}: {type(e).__name__}: {e}', case)


def w_roundtrip(arg):
    seed, k, idx, n = arg
    env()
    st = core.Stats('roundtrip')
    for i, (chosen, vals) in enumerate(rt_cases(seed, k)):
        if i % n != idx:
            continue
        spec = dict(zip(chosen, vals))
        rt_one(spec, st, seed)
        st.case(('rt', chosen, vals))
        st.add('fields_set', len(spec))
        st.add('field_names', chosen)
        if len(st.samples) < 1 and len(spec) == 2 and idx == 0:
            st.samples.append(jsonable(spec))
    return st


# ---------------------------------------------------------------------------
# the same histories on a real directory
# ---------------------------------------------------------------------------
def w_realfs(arg):
    import os

    cfg, seed, hists = arg
    env()
    ksets = key_sets(seed)
    st = core.Stats('realfs')
    root = tempfile.mkdtemp(prefix='verif_c15_')
    try:
        for i, hist in enumerate(hists):
            hist = tuple(tup(o) for o in hist)
            vw, model = build(cfg, hist, ksets)
            fn = os.path.join(root, f'h{i}', 'sub', 'keys.json')
            os.makedirs(os.path.join(root, f'h{i}'))
            rw = World(CONFIGS[cfg][0], filename=fn, virtual=False)
            for op in hist:
                if op[0] == 'reopen':
                    rw.stores = rw.fresh_stores()
                else:
                    exec_op(rw, rw.stores, op, ksets)
            real = None
            if os.path.exists(fn):
                with open(fn, 'rb') as f:
                    real = f.read()
            ino = vw.vfs.names.get(FILE)
            virt = None if ino is None else ino.data
            st.case((cfg, hist))
            case = {'config': cfg, 'seed': seed, 'hist': [list(o) for o in hist]}
            if real != virt:
                raise core.HarnessError(f'C15: in-memory file layer and real directory disagree after {fmt_hist(hist)}: {real!r} vs {virt!r}')
            left_real = os.path.exists(fn + '.tmp')
            left_virt = (FILE + '.tmp') in vw.vfs.names
            if left_real != left_virt:
                raise core.HarnessError(f'C15: temp-file leftovers differ (real {left_real}, layer {left_virt}) after {fmt_hist(hist)}')
            rst_, keys = rw.raw()
            if rst_ == 'bad':
                st.violation('realfs_' + keys.split(':')[0], sig('realfs', keys.split(':')[0]), f'[real directory] after {fmt_hist(hist)}: {keys}', case)
                continue
            bad = observe(rw, rw.fresh_stores(), model, keys)
            if bad:
                st.violation('realfs_' + bad[0], sig('realfs', bad[0]), f'[real directory] after {fmt_hist(hist)}: {bad[1]}', case)
            if real is not None:
                st.count('bytes_compared', len(real))
    finally:
        shutil.rmtree(root, ignore_errors=True)
    return st


# ---------------------------------------------------------------------------
def run(ctx: core.Context) -> int:
    bounds = BOUNDS[ctx.tier]
    only = getattr(ctx, 'only', None)
    states = transitions = 0
    graphs = {}
    for cfg in CONFIGS:
        if only and ('history:' + cfg) not in only and 'history' not in only:
            continue
        n, t, hist_of, depth_of = bfs(ctx, cfg, bounds[cfg])
        graphs[cfg] = (n, t)
        states += n
        transitions += t
        # real-directory conformance on every state up to depth 2 (quick) / 3 (thorough)
        lim = 2 if ctx.quick else 3
        hs = sorted((h for d, h in hist_of.items() if depth_of[d] <= lim), key=repr)
        rf = ctx.sub('realfs')
        for s in core.pmap(w_realfs, [(cfg, ctx.seed, p) for p in core.split(hs, ctx.jobs)], ctx.jobs):
            rf.merge(s)
    ctx.log(f'graphs: {graphs}')

    if not only or 'roundtrip' in only:
        k = 2 if ctx.quick else 3
        n = ctx.jobs * 4
        rt = ctx.sub('roundtrip')
        for s in core.pmap(w_roundtrip, [(ctx.seed, k, i, n) for i in range(n)], ctx.jobs):
            rt.merge(s)
        expected = rt_count(ctx.seed, k)
        if rt.evaluations != expected:
            raise core.HarnessError(f'C15 roundtrip: {rt.evaluations} cases run, {expected} in the domain')

    hist_st = [s for name, s in ctx.subs.items() if name.startswith('history:')]
    replays = sum(s.evaluations for s in hist_st)
    crash = ctx.subs.get('crash')
    traces = replays + sum(ctx.subs[n].evaluations for n in ('crash_raise', 'realfs', 'roundtrip') if n in ctx.subs)
    traces += crash.counters.get('images_run_on_real_code', 0) if crash else 0
    extra = {
        'states': states,
        'transitions': transitions,
        'traces_validated_against_impl': traces,
        'state_definition': 'digest of (bytes of every file as the OS has them, directories, unflushed write handles, vars() of every live JsonKeyStore) after replaying the history on fresh real objects over the in-memory file layer',
        'graphs': {c: {'states': n, 'transitions': t, 'depth': bounds[c][0], 'crash_depth': bounds[c][1]} for c, (n, t) in graphs.items()},
        'alphabet': {c: [fmt_op(o) for o in alphabet(c, 0)] for c in CONFIGS},
        'file_system_steps_seen': sorted(crash.sets.get('step_kinds', [])) if crash else [],
    }
    return core.finish(
        ctx,
        LEVEL,
        rule=(
            'BFS over histories of update(2 peers x 4 overlapping key sets)/delete/delete_all/get/get_all/get_resolving_keys/reopen '
            'for every store sharing the file, to the stated depth; every (state, op) is one case, executed on the real JsonKeyStore '
            'after replaying the state history, and compared with a dict model from fresh and from the same instances; '
            'crash cases = (state, mutating op, file-system step index, kept-prefix class of unflushed data) - each one is an evaluation, '
            'and is counted distinct only when the real store had to be run on its disk image (it differs from every evaluated image in a part of the disk the code reads); '
            'roundtrip cases = every PairingKeys with <= k fields set over the boundary domain'
        ),
        assumptions=[
            'process death, not power loss: bytes handed to the OS by flush/close survive, user-space buffers survive only as a prefix (classes none/half/all-but-one/all); os.replace is atomic; no fsync is demanded',
            'update = per-field overwrite of the top-level fields present in the new PairingKeys (what JsonKeyStore implements); delete of an absent peer may raise KeyError',
            'the default-namespace store resolves its namespace by the documented rule evaluated on the top-level keys of the file; aliasing itself is not flagged',
            'bumble.keys reaches the file system only through open / os / pathlib module names (patched as module attributes); any other route raises and is reported',
            'single process, no concurrent writers (JsonKeyStore methods never yield to the event loop)',
        ],
        extra=extra,
    )


# ---------------------------------------------------------------------------
def replay(v: core.Violation) -> list[str]:
    c = v.case
    env()
    st = core.Stats('replay')
    seed = c.get('seed', 0)
    ksets = key_sets(seed)
    if 'spec' in c:
        rt_one(spec_from_json(c['spec']), st, seed)
    elif v.signature.get('sub') == 'realfs' or v.check.startswith('realfs'):
        st.merge(w_realfs((c['config'], seed, [c['hist']])))
    else:
        cfg = c['config']
        hist = tuple(tup(o) for o in c['hist'])
        if 'op' not in c:
            st.merge(w_realfs((cfg, seed, [c['hist']])))
        else:
            op = tup(c['op'])
            world, model = build(cfg, hist, ksets)
            crash = 'crash' in c
            status, model2, violated = transition(cfg, seed, ksets, world, model, hist, op, st, crash=crash)
            if crash and not violated:
                crash_points(cfg, seed, ksets, hist, op, world, model, model2, st, follow=True)
            if not violated:
                after_observe(cfg, world, model2, hist, op, st, seed)
    want = core.canon_json(v.signature)
    same = [x.message for x in st.violations if x.key == want]
    return same or [x.message + ' (different signature than recorded)' for x in st.violations]
