"""C04 — outbound data obeys controller buffer credits, stays FIFO, never stalls;
the flow-controlled pipe delivers in order.

Explicit-state search (BFS, canonical-state dedup) over operation histories of the
REAL DataPacketQueue, of a real Host wired to such a queue, and of the real
FlowControlAsyncPipe on the virtual loop.  The reference model is a few Python
lists/counters kept in lock-step; invariants are evaluated after every transition.
"""
from __future__ import annotations

import asyncio
import collections

from .. import core
from ..vloop import VLoop

LEVEL = 'model_checking'
A, B, C, U = 0x0001, 0x0002, 0x0003, 0x0EEE  # U: a handle the queue has never seen


# ---------------------------------------------------------------------------
# reference model of the credit discipline
# ---------------------------------------------------------------------------
class Model:
    def __init__(self, n):
        self.n = n
        self.enq = collections.defaultdict(int)  # next seq per handle
        self.status = {}  # (h, seq) -> 'waiting' | 'flight' | 'done' | 'flushed'
        self.order = []  # (h, seq) in enqueue order
        self.live_sent = collections.defaultdict(int)  # packets sent per handle since its last flush
        self.tainted = False  # an over-report happened: "in flight" has no agreed meaning any more

    def in_flight(self, h=None):
        return sum(1 for k, s in self.status.items() if s == 'flight' and (h is None or k[0] == h))

    def waiting(self, h=None):
        return [k for k in self.order if self.status[k] == 'waiting' and (h is None or k[0] == h)]

    def busy(self, h):
        return any(s in ('waiting', 'flight') for k, s in self.status.items() if k[0] == h)

    def key(self):
        hs = sorted({k[0] for k in self.status})
        return (
            self.tainted,
            tuple((h, self.in_flight(h)) for h in hs if self.in_flight(h) or self.waiting(h)),
            tuple(k[0] for k in self.waiting()),
        )


class Driver:
    """Applies ops to the real object and the model, checking invariants."""

    def __init__(self, n, loop, via_host=False):
        from bumble import hci
        from bumble.host import DataPacketQueue

        self.hci = hci
        self.n = n
        self.loop = loop
        self.sent = []  # (h, seq) in the order the queue handed them to `send`
        self.model = Model(n)
        self.drains = []  # (h, task)
        self.early_drain = 0
        self.counter_anomalies = 0
        self.via_host = via_host
        if via_host:
            from bumble.core import PhysicalTransport
            from bumble.host import Connection, Host

            class Sink:
                def __init__(s):
                    s.packets = []

                def on_packet(s, data):
                    s.packets.append(data)

            self.sink = Sink()
            self.host = Host(controller_sink=self.sink)
            self.host.ready = True
            self.q = DataPacketQueue(27, n, self._on_send_packet)
            if via_host == 'iso':
                # the handles are CIS links sharing the isochronous buffer pool; an idle ACL connection exists too
                from bumble.host import IsoLink

                self.host.iso_packet_queue = self.q
                self.host.le_acl_packet_queue = DataPacketQueue(27, 1, lambda p: None)
                self.host.connections[0x0777] = Connection(self.host, 0x0777, hci.Address('F0:F1:F2:F3:F4:77'), PhysicalTransport.LE)
                self._connect = lambda h: self.host.cis_links.__setitem__(h, IsoLink(handle=h, packet_queue=self.q))
            else:
                self.host.le_acl_packet_queue = self.q
                self._connect = lambda h: self.host.connections.__setitem__(
                    h, Connection(self.host, h, hci.Address('F0:F1:F2:F3:F4:%02X' % h), PhysicalTransport.LE)
                )
            for h in (A, B):
                self._connect(h)
        else:
            self.q = DataPacketQueue(27, n, self._on_send)

    # -- send callbacks ------------------------------------------------------
    def _on_send(self, packet):
        self.sent.append(packet.tag)

    def _on_send_packet(self, packet):
        # host path: packet is a real HCI_AclDataPacket; tag is carried in the payload
        if self.via_host == 'iso':
            self.sent.append((packet.connection_handle, int.from_bytes(packet.iso_sdu_fragment[:2], 'big')))
            return
        data = packet.data
        self.sent.append((packet.connection_handle, int.from_bytes(data[4:6], 'big')))

    # -- ops -------------------------------------------------------------------
    def apply(self, op):
        kind = op[0]
        m = self.model
        if kind == 'enq':
            h = op[1]
            seq = m.enq[h]
            m.enq[h] += 1
            m.status[(h, seq)] = 'waiting'
            m.order.append((h, seq))
            if self.via_host == 'iso':
                if h not in self.host.cis_links:
                    self._connect(h)
                # one SDU of 2 bytes -> exactly one ISO fragment
                self.host.send_iso_sdu(h, seq.to_bytes(2, 'big'))
            elif self.via_host:
                if h not in self.host.connections:
                    # the handle was disconnected earlier: a new connection gets the same handle
                    self._connect(h)
                # one L2CAP PDU of 2 bytes -> exactly one ACL fragment (4 header + 2)
                self.host.send_l2cap_pdu(h, 0x0040, seq.to_bytes(2, 'big'))
            else:
                pkt = self.hci.HCI_AclDataPacket(h, 0, 0, 2, seq.to_bytes(2, 'big'))
                pkt.tag = (h, seq)
                self.q.enqueue(pkt, h)
        elif kind == 'done':
            k, h = op[1], op[2]
            if m.live_sent[h] > 0:  # else: report for a handle with nothing sent since its last flush -> to be ignored
                if k > m.in_flight(h):
                    m.tainted = True
                    k = m.in_flight(h)
                for kk in m.order:  # oldest in-flight packets of h complete
                    if k == 0:
                        break
                    if kk[0] == h and m.status[kk] == 'flight':
                        m.status[kk] = 'done'
                        k -= 1
            if self.via_host:
                # op[3] (optional): how the report is embedded in one HCI event together with other handles
                shape = op[3] if len(op) > 3 else 'alone'
                hs, ns = [h], [op[1]]
                if shape == 'after_unknown':  # an unknown / just disconnected handle listed first
                    hs, ns = [U, h], [1, op[1]]
                elif shape == 'before_unknown':
                    hs, ns = [h, U], [op[1], 1]
                elif shape == 'after_sco_like':  # a handle that is no ACL connection and zero packets
                    hs, ns = [0x0EED, h], [0, op[1]]
                elif shape == 'duplicate_entries':  # the same handle listed twice in one event (1 + the rest)
                    hs, ns = [h, h], [1, op[1] - 1]
                ev = self.hci.HCI_Number_Of_Completed_Packets_Event(connection_handles=hs, num_completed_packets=ns)
                self.host.on_packet(bytes(ev))
            else:
                self.q.on_packets_completed(op[1], h)
        elif kind == 'flush':
            h = op[1]
            for kk, st_ in m.status.items():
                if kk[0] == h and st_ in ('waiting', 'flight'):
                    m.status[kk] = 'flushed'
            m.live_sent[h] = 0
            if self.via_host:
                ev = self.hci.HCI_Disconnection_Complete_Event(status=0, connection_handle=h, reason=0x13)
                self.host.on_packet(bytes(ev))
            else:
                self.q.flush(h)
        elif kind == 'disc_failed':
            # the controller reports that a disconnection FAILED: the connection lives on, nothing is discarded
            ev = self.hci.HCI_Disconnection_Complete_Event(status=0x0C, connection_handle=op[1], reason=0x13)
            self.host.on_packet(bytes(ev))
        elif kind == 'drain':
            h = op[1]
            t = self.loop.create_task(self.q.drain(h))
            self.drains.append((h, t))
        self.loop.run_quiescent()
        return self.sync_model_with_sends()

    # -- oracle --------------------------------------------------------------
    def sync_model_with_sends(self):
        """Consume newly observed sends; return violation message or None."""
        m = self.model
        new = self.sent[self._seen :] if hasattr(self, '_seen') else self.sent
        base = getattr(self, '_seen', 0)
        for i, tag in enumerate(new):
            st = m.status.get(tag)
            if st is None:
                return ('phantom', f'packet {tag} sent but never enqueued')
            if st in ('flight', 'done'):
                return ('duplicate', f'packet {tag} handed to the controller twice')
            if st == 'flushed':
                return ('sent_after_flush', f'packet {tag} sent after its connection was flushed')
            # per-connection FIFO: every earlier packet of that handle is no longer waiting
            for kk in m.order:
                if kk == tag:
                    break
                if kk[0] == tag[0] and m.status[kk] == 'waiting':
                    return ('reorder', f'packet {tag} sent before earlier packet {kk} of the same connection')
            m.status[tag] = 'flight'
            m.live_sent[tag[0]] += 1
            if not m.tainted and m.in_flight() > m.n:
                return ('over_credit', f'{m.in_flight()} packets in flight with {m.n} controller buffers')
        self._seen = base + len(new)
        q = self.q
        if not m.tainted:
            if m.waiting() and m.in_flight() < m.n:
                return (
                    'stall',
                    f'{len(m.waiting())} packet(s) waiting while only {m.in_flight()} of {m.n} buffers are in use',
                )
            exp_pending = len(m.waiting()) + m.in_flight()
            if q.pending != exp_pending or q.queued - q.completed != q.pending:
                return ('counters', f'pending={q.pending} queued={q.queued} completed={q.completed}, expected pending {exp_pending}')
        if q.pending < 0 or q.completed > q.queued:
            self.counter_anomalies += 1  # only reachable after an over-report; diagnostic, not a violation
        if not m.tainted:
            for h, t in self.drains:
                if not m.busy(h) and not t.done():
                    return ('drain_hang', f'drain({h:#x}) still waiting although nothing of that connection is queued or in flight')
        for h, t in self.drains:
            if t.done() and m.busy(h):
                self.early_drain += 1
            if t.done() and not t.cancelled() and t.exception() is not None and not isinstance(t.exception(), (ValueError, KeyError)):
                # (ValueError / KeyError: the documented answer for a connection the queue has never seen)
                return ('drain_raised', f'drain({h:#x}) ended with {type(t.exception()).__name__}: {t.exception()}')
        return None

    def close(self):
        """Closing phase: the controller truthfully completes everything in flight, one
        packet at a time; every packet still waiting must get sent."""
        m = self.model
        for _ in range(len(m.order) + m.n + 4):
            hs = sorted({k[0] for k, s in m.status.items() if s == 'flight'})
            if not hs:
                if m.tainted:
                    # after an over-report bumble may believe buffers are free that the model
                    # counts as used or vice versa: nudge with one completion per handle
                    hs = sorted({k[0] for k in m.status})
                    progressed = False
                    for h in hs:
                        before = len(self.sent)
                        self.q.on_packets_completed(1, h)
                        self.loop.run_quiescent()
                        v = self.sync_model_with_sends()
                        if v:
                            return v
                        progressed |= len(self.sent) > before
                    if not m.waiting():
                        break
                    if not progressed:
                        return ('stall_after_overreport', f'{len(m.waiting())} packet(s) never sent after an over-report although completions keep arriving')
                    continue
                break
            v = self.apply(('done', 1, hs[0]))
            if v:
                return v
        if m.waiting():
            return ('stall', f'{len(m.waiting())} packet(s) still waiting after all in-flight packets completed')
        for h, t in self.drains:
            if not t.done():
                return ('drain_hang', f'drain({h:#x}) never finished although everything completed')
        return None

    def canon(self):
        # every data attribute of the real queue, whatever it is called (waiting packets appear as (type name, handle))
        impl = core.state_key(self.q)
        drains = tuple(sorted((h, t.done()) for h, t in self.drains))
        return (self.model.key(), impl, drains)


def ops_for(drv, handles):
    m = drv.model
    out = []
    for h in handles:
        out.append(('enq', h))
    for h in handles + [U]:
        f = m.in_flight(h)
        for k in sorted({0, 1, 2, f, f + 1}):
            out.append(('done', k, h))
    if drv.via_host:
        # the same truthful report carried in an event that also lists other handles
        for h in handles:
            f = m.in_flight(h)
            if f:
                for shape in ('after_unknown', 'before_unknown', 'after_sco_like'):
                    out.append(('done', 1, h, shape))
            if f >= 2:
                out.append(('done', 2, h, 'duplicate_entries'))
    for h in handles:
        out.append(('flush', h))
    if drv.via_host:
        out.append(('disc_failed', handles[0]))
    for h in handles:
        if sum(1 for hh, _ in drv.drains if hh == h) < 1:
            out.append(('drain', h))
    return out


def build(n, hist, via_host=False):
    loop = VLoop()
    loop.__enter__()
    drv = Driver(n, loop, via_host)
    v = None
    for op in hist:
        v = drv.apply(op)
        if v:
            break
    return loop, drv, v


def dispose(loop):
    loop.shutdown()
    loop.__exit__()


def w_queue(arg):
    n, handles, depth, via_host, first_ops = arg
    st = core.Stats(('queue_iso' if via_host == 'iso' else 'queue_host') if via_host else 'queue_bfs')
    seen = set()
    trans = set()
    frontier = collections.deque()
    for f in first_ops:
        frontier.append([f])
    maxd = 0
    while frontier:
        hist = frontier.popleft()
        loop, drv, v = build(n, hist, via_host)
        try:
            st.evaluations += 1
            maxd = max(maxd, len(hist))
            if v:
                st.violation(v[0] if not via_host else ('iso_' if via_host == 'iso' else 'host_') + v[0], sig_of(v, hist, n), f'N={n} history={fmt(hist)}: {v[1]}', {'n': n, 'hist': hist, 'via_host': via_host, 'close': False})
                continue
            k = drv.canon()
            if k in seen:
                continue
            seen.add(k)
            st.distinct.add(core.digest((n, k)))
            if len(hist) < depth:
                for op in ops_for(drv, handles):
                    frontier.append(hist + [op])
                    trans.add(core.digest((n, k, op)))
            # closing phase (every distinct state is closed once)
            v2 = drv.close()
            if v2:
                st.violation(v2[0] if not via_host else ('iso_' if via_host == 'iso' else 'host_') + v2[0], sig_of(v2, hist, n), f'N={n} history={fmt(hist)} then completing everything: {v2[1]}', {'n': n, 'hist': hist, 'via_host': via_host, 'close': True})
            st.count('early_drain_returns', drv.early_drain)
            st.count('counter_anomalies_after_overreport', drv.counter_anomalies)
        finally:
            dispose(loop)
    st.sets['states'] = {core.digest((n, s)) for s in seen}
    st.sets['transitions'] = trans
    st.sets['depths'] = set(range(1, maxd + 1))
    if len(st.samples) < 2 and first_ops:
        st.samples.append({'n': n, 'first_op': first_ops[0], 'depth': depth, 'states': len(seen)})
    return st


def sig_of(v, hist, n):
    """Signature: failure kind + the kind of the last operation that exposed it."""
    last = hist[-1][0] if hist else None
    return {'kind': v[0], 'after_op': last}


def fmt(hist):
    return ' '.join('%s(%s)' % (o[0], ','.join(hex(x) if isinstance(x, int) and x > 9 else str(x) for x in o[1:])) for o in hist)


# ---------------------------------------------------------------------------
# FlowControlAsyncPipe
# ---------------------------------------------------------------------------
class PipeDriver:
    def __init__(self, loop, threshold, with_drain):
        from bumble.utils import FlowControlAsyncPipe

        self.loop = loop
        self.sunk = []
        self.written = []
        self.pauses = 0
        self.resumes = 0
        self.drain_futs = collections.deque()
        self.pipe = FlowControlAsyncPipe(
            self._pause, self._resume, self.sunk.append, self._drain if with_drain else None, threshold
        )
        self.pipe.start()
        self.n = 0

    def _pause(self):
        self.pauses += 1

    def _resume(self):
        self.resumes += 1

    async def _drain(self):
        f = self.loop.create_future()
        self.drain_futs.append(f)
        await f

    def enabled(self, max_writes):
        ops = []
        if self.n < max_writes:
            ops.append('write')
        ops += ['pause', 'resume']
        if self.loop._ready:
            ops.append('step')
        if self.drain_futs:
            ops.append('drained')
        return ops

    def apply(self, op):
        if op == 'write':
            p = bytes([self.n]) * (1 + self.n % 2)
            self.n += 1
            self.written.append(p)
            self.pipe.write(p)
        elif op == 'pause':
            self.pipe.pause()
        elif op == 'resume':
            self.pipe.resume()
        elif op == 'step':
            if self.loop._ready:
                self.loop.step(allow_timers=False)
        elif op == 'drained':
            if self.drain_futs:
                self.drain_futs.popleft().set_result(None)
        return self.check(final=False)

    def check(self, final):
        k = len(self.sunk)
        if self.sunk != self.written[:k]:
            return ('pipe_order', f'sink received {[p.hex() for p in self.sunk]} for writes {[p.hex() for p in self.written]}')
        if final and k != len(self.written):
            return ('pipe_lost', f'{len(self.written) - k} written packet(s) never reached the sink')
        return None

    def close(self):
        self.pipe.resume()
        for _ in range(200):
            self.loop.run_quiescent()
            if self.drain_futs:
                self.drain_futs.popleft().set_result(None)
            elif not self.loop._ready:
                break
        return self.check(final=True)

    def canon(self):
        p = self.pipe
        return (
            tuple(p.queue),
            p.queued_bytes,
            p.paused,
            p.source_paused,
            p.ready_to_pump.is_set(),
            len(self.drain_futs),
            len(self.loop._ready),
            self.n,
            tuple(self.sunk),
        )


def w_pipe(arg):
    threshold, with_drain, max_writes, depth = arg
    st = core.Stats('pipe')
    seen, trans = set(), set()
    frontier = collections.deque([[]])
    while frontier:
        hist = frontier.popleft()
        loop = VLoop()
        loop.__enter__()
        try:
            d = PipeDriver(loop, threshold, with_drain)
            v = None
            for op in hist:
                v = d.apply(op)
                if v:
                    break
            st.evaluations += 1
            case = {'threshold': threshold, 'with_drain': with_drain, 'hist': hist}
            if v:
                st.violation(v[0], {'kind': v[0], 'with_drain': with_drain}, f'threshold={threshold} drain_sink={with_drain} ops={hist}: {v[1]}', case)
                continue
            k = d.canon()
            if k in seen:
                continue
            seen.add(k)
            st.distinct.add(core.digest((threshold, with_drain, k)))
            if len(hist) < depth:
                for op in d.enabled(max_writes):
                    frontier.append(hist + [op])
                    trans.add(core.digest((threshold, with_drain, k, op)))
            v = d.close()
            if v:
                st.violation(v[0], {'kind': v[0], 'with_drain': with_drain}, f'threshold={threshold} drain_sink={with_drain} ops={hist} then letting everything finish: {v[1]}', dict(case, close=True))
            if d.pauses != d.resumes:
                st.count('source_left_paused_at_end')
        finally:
            loop.shutdown()
            loop.__exit__()
    st.sets['states'] = {core.digest((threshold, with_drain, s)) for s in seen}
    st.sets['transitions'] = trans
    if not st.samples:
        st.samples.append({'threshold': threshold, 'drain_sink': with_drain, 'max_writes': max_writes, 'depth': depth, 'example_history': ['write', 'write', 'step', 'drained']})
    return st


# ---------------------------------------------------------------------------
def first_level(n, handles, via_host):
    loop, drv, _ = build(n, [], via_host)
    try:
        return ops_for(drv, handles)
    finally:
        dispose(loop)


def run(ctx: core.Context) -> int:
    quick = ctx.quick
    items = []
    configs = [(1, [A, B]), (2, [A, B]), (3, [A, B])]
    depth = 7 if quick else 9
    if not quick:
        configs += [(1, [A, B, C]), (2, [A, B, C])]
    for n, hs in configs:
        d = depth if len(hs) == 2 else depth - 1
        for f in first_level(n, hs, False):
            items.append((n, hs, d, False, [f]))
    hdepth = 6 if quick else 7
    for n in (1, 2):
        for f in first_level(n, [A, B], True):
            items.append((n, [A, B], hdepth, True, [f]))
    for n in (1, 2):
        for f in first_level(n, [A, B], 'iso'):
            items.append((n, [A, B], hdepth - 1 if quick else hdepth, 'iso', [f]))
    res = core.pmap(w_queue, items, ctx.jobs)
    states = trans = 0
    for it, r in zip(items, res):
        st = ctx.sub(('queue_iso' if it[3] == 'iso' else 'queue_host') if it[3] else 'queue_bfs')
        st.merge(r)
    pitems = []
    for threshold in (0, 2):
        for with_drain in (False, True):
            pitems.append((threshold, with_drain, 4 if quick else 5, 11 if quick else 14))
    for r in core.pmap(w_pipe, pitems, ctx.jobs):
        ctx.sub('pipe').merge(r)
    for r in core.pmap(w_pools, core.split(pool_configs(quick), ctx.jobs), ctx.jobs):
        ctx.sub('pools').merge(r)
    for name in ('queue_bfs', 'queue_host', 'queue_iso', 'pipe'):
        s = ctx.sub(name)
        states += len(s.sets.get('states', ()))
        trans += len(s.sets.get('transitions', ()))
    total = sum(s.evaluations for s in ctx.subs.values())
    return core.finish(
        ctx,
        LEVEL,
        rule=(
            'BFS over operation histories (enqueue per connection, completion reports with counts {0,1,2,exact,exact+1} per '
            'connection and for an unknown handle, flush, drain) on the real DataPacketQueue for buffer counts 1..3 and 2-3 '
            'connections, and the same alphabet injected as HCI events into a real Host (LE ACL connections; and CIS links on the isochronous pool, queue_iso); BFS over write/pause/resume/loop-step/'
            'sink-drain-completion histories of the real FlowControlAsyncPipe; pools: a real Host that learnt its buffer pools from a real Controller (dedicated LE pool or one pool shared with BR/EDR, sizes 1..3) with an LE and a BR/EDR connection sending at the same time. States are deduplicated by a canonical key of '
            '(reference-model state, implementation fields); distinct_nontrivial = distinct canonical states; every distinct '
            'state is additionally run to completion (closing phase). Note: BFS partitions by first operation, so a state '
            'reachable via two different first operations is counted once per partition in evaluations but once in distinct.'
        ),
        assumptions=[
            'packet payloads are irrelevant to every branch of DataPacketQueue (canonical key drops them)',
            'after a controller over-report only the weaker clauses are asserted (no duplicate/lost/reordered send, counters in range, progress)',
            'an early return of drain() is counted (early_drain_returns) but not flagged: the statement bounds drain from above',
        ],
        extra={'states': states, 'transitions': trans, 'traces_validated_against_impl': total},
    )


def replay(v: core.Violation):
    c = v.case
    msgs = []
    if v.check.startswith('pool_'):
        r, _ = run_pools(c['cfg'])
        return [r[1]] if r else []
    if v.check.startswith('pipe'):
        loop = VLoop()
        with loop:
            d = PipeDriver(loop, c['threshold'], c['with_drain'])
            r = None
            for op in c['hist']:
                r = d.apply(op)
                if r:
                    break
            if not r and c.get('close'):
                r = d.close()
            if r:
                msgs.append(r[1])
        return msgs
    hist = [tuple(o) for o in c['hist']]
    loop, drv, r = build(c['n'], hist, c['via_host'])
    try:
        if not r and c.get('close'):
            r = drv.close()
        if r:
            msgs.append(r[1])
    finally:
        dispose(loop)
    return msgs


# ---------------------------------------------------------------------------
# buffer pools as a real Host learns them from a real Controller (dedicated LE buffers, or one pool
# shared by LE and BR/EDR), one LE and one BR/EDR connection carrying traffic at the same time
# ---------------------------------------------------------------------------
def run_pools(cfg):
    """cfg: dict(shared, n_le, n_cl, k_le, k_cl, order).  Returns (violation or None, observations)."""
    from bumble import hci
    from ..harness.devices import World

    attrs = {0: {'total_num_acl_data_packets': cfg['n_cl'], 'acl_data_packet_length': 27}}
    if cfg['shared']:
        attrs[0].update({'le_acl_data_packet_length': 0, 'total_num_le_acl_data_packets': 0})
    else:
        attrs[0].update({'le_acl_data_packet_length': 27, 'total_num_le_acl_data_packets': cfg['n_le']})
    with World(2, classic=True, le=True, controller_attrs=attrs) as w:
        w.power_on()
        le_c, _ = w.connect_le()
        cl_c, _ = w.connect_classic()
        w.settle()
        host = w.hosts[0]
        handles = {le_c.handle: 'le', cl_c.handle: 'cl'}
        sent = []  # transport of every ACL packet handed to the controller, in order
        completed = {'le': 0, 'cl': 0}

        class Sink:
            def on_packet(self, data):
                if data[0] == 0x02:
                    h = (data[1] | data[2] << 8) & 0x0FFF
                    sent.append(handles.get(h, '?'))
                # nothing is forwarded: the controller never sees it, completions are injected below

        host.hci_sink = Sink()

        def in_flight(t=None):
            return sum(1 for x in sent if t is None or x == t) - (sum(completed.values()) if t is None else completed[t])

        def check(where):
            if cfg['shared']:
                if in_flight() > cfg['n_cl']:
                    return ('pool_over_credit', f'{in_flight()} ACL packets in flight to a controller whose single shared pool has {cfg["n_cl"]} buffers ({where})')
            else:
                if in_flight('le') > cfg['n_le']:
                    return ('pool_over_credit', f'{in_flight("le")} LE packets in flight, LE pool has {cfg["n_le"]} ({where})')
                if in_flight('cl') > cfg['n_cl']:
                    return ('pool_over_credit', f'{in_flight("cl")} BR/EDR packets in flight, BR/EDR pool has {cfg["n_cl"]} ({where})')
            return None

        todo = {'le': cfg['k_le'], 'cl': cfg['k_cl']}
        seq = []
        if cfg['order'] == 'le_first':
            seq = ['le'] * cfg['k_le'] + ['cl'] * cfg['k_cl']
        elif cfg['order'] == 'cl_first':
            seq = ['cl'] * cfg['k_cl'] + ['le'] * cfg['k_le']
        else:
            a, b = ['le'] * cfg['k_le'], ['cl'] * cfg['k_cl']
            while a or b:
                if a:
                    seq.append(a.pop())
                if b:
                    seq.append(b.pop())
        for i, t in enumerate(seq):
            conn = le_c if t == 'le' else cl_c
            host.send_l2cap_pdu(conn.handle, 0x0040, bytes([i, 1, 2]))
            w.settle()
            v = check(f'after queueing packet {i} ({t})')
            if v:
                return v, sent
        # the controller completes one packet at a time (oldest first); everything must get sent
        total = len(seq)
        for _ in range(total * 2 + 4):
            pending = [t for t in ('le', 'cl') if in_flight(t) > 0]
            if not pending:
                break
            # complete the transport of the oldest uncompleted packet
            done = dict(completed)
            t = None
            for x in sent:
                if done[x] > 0:
                    done[x] -= 1
                    continue
                t = x
                break
            h = le_c.handle if t == 'le' else cl_c.handle
            completed[t] += 1
            host.on_packet(bytes(hci.HCI_Number_Of_Completed_Packets_Event(connection_handles=[h], num_completed_packets=[1])))
            w.settle()
            v = check('while completing')
            if v:
                return v, sent
        if len(sent) != total:
            return ('pool_stall', f'{total - len(sent)} of {total} packets never handed to the controller although every packet in flight was completed'), sent
        if sorted(sent) != sorted(seq):
            return ('pool_wrong_packets', f'sent {sent} for {seq}'), sent
        return None, sent


def w_pools(cfgs):
    st = core.Stats('pools')
    for cfg in cfgs:
        v, sent = run_pools(cfg)
        st.case(cfg, None)
        st.add('outcomes', core.digest(sent))
        if v:
            st.violation(v[0], {'kind': v[0], 'shared_pool': cfg['shared']}, f'{cfg}: {v[1]}', {'cfg': cfg})
        if len(st.samples) < 2:
            st.samples.append({'cfg': cfg, 'sent_order': sent})
    return st


def pool_configs(quick):
    out = []
    for shared in (True, False):
        for n_cl in (1, 2, 3):
            for n_le in ((0,) if shared else (1, 2)):
                for k_le, k_cl in ((1, 1), (2, 2), (n_cl + 1, n_cl + 1), (0, n_cl + 2), (n_cl + 2, 0)) + (() if quick else ((4, 1), (1, 4))):
                    for order in ('le_first', 'cl_first', 'interleaved'):
                        out.append({'shared': shared, 'n_le': n_le, 'n_cl': n_cl, 'k_le': k_le, 'k_cl': k_cl, 'order': order})
    return out
