"""C12 — a GATT client sees exactly the server's database, values and notifications.

Seam: full stacks.  A real `gatt_server.Server` on one Device, real
`gatt_client.Client`s (the per-connection client, and enhanced-bearer clients made by
`Client.connect_eatt`) on one or two other Devices, over the VLoop LocalLink.  For the
termination clause the peer's ATT fixed channel is answered by a scripted adversary.
Reference: vp/harness/c12_model.py (plain Python written from the Core spec / the
statement; imports nothing from bumble).

Sub-checks
  discovery    database shapes from a bounded grammar (1-3 services, primary/secondary,
               include edges incl. an included service that is never added by itself,
               0-3 characteristics, 0-2 descriptors, UUID widths 16/32/128 mixed inside one
               range, property sets, static/dynamic values; at most 2 axes off the minimal
               database) x ATT_MTU preference pairs x bearer (ATT fixed channel, EATT), on a
               server without and with bumble's default GAP/GATT services.  Every discovery
               procedure of the client is run (all primary services, by service UUID, included
               services, characteristics, characteristics by UUID, descriptors, all attributes;
               secondary services through their include) and compared with the model; then every
               attribute is read, and every value written with and without response.
  long_read    one long-value database x every client/server MTU preference pair of the tier
               x value lengths {0,1,MTU-4..MTU,k(MTU-1)-1..+1 (k=1,2,3),511,512} x static /
               dynamic / descriptor values x bearer: read_value (client and proxy) returns the
               exact current value; writes of length {0,1,MTU-3} take effect.
  notify       3 bearers (ATT on two connections from two client devices + one EATT bearer) x
               2 characteristics x subscription state per (bearer, characteristic) x the
               notify/indicate API entry points x target x force x value lengths around
               MTU-3: PDU kind on the wire, routing to exactly the subscribed bearers,
               truncation, client subscriber functions and 'update' listeners, one confirmation
               per indication, and that the call stays pending until the confirmation arrives
               (confirmations are held back by a gate on the client side).  For every
               configuration with >= 2 bearers subscribed, each of them in turn is made faulty
               (confirmation late / never = lost until the 30 s GATT timeout in virtual time /
               transmission raises): every other subscribed bearer must already have its PDU,
               callbacks and confirmation while the fault is outstanding, and afterwards.
  termination  every discovery procedure against adversarial response scripts of length <= 3
               (last item repeated forever) over 14 response kinds: the call returns or
               raises within 70 000 requests.

Signatures: {check, problem, + the input class that matters for that check (UUID width /
bearer / value length class / API entry point, target kind, force / procedure and
repeated response kind)}.
"""
from __future__ import annotations

import itertools
import json
import struct

from .. import core
from ..harness import c12_model as M

LEVEL = 'exploration'

RW_PROPS = M.P_READ | M.P_WRITE
PROPS = [RW_PROPS, M.P_READ, M.P_WRITE | M.P_WNR, M.P_NOTIFY, M.P_INDICATE, M.P_NOTIFY | M.P_INDICATE | M.P_READ]
VL_ROT = [1, 0, 22, 23, 44, 21, 20, 19, 49, 50, 98, 184, 368, 512, 511, 66]
SERVER_DEFAULT_MTU = 517
REQUEST_BUDGET = 70000
DISCOVERY_STEP_BUDGET = 80_000


# ---------------------------------------------------------------------------
# small helpers on bumble objects (reading public attributes only)
# ---------------------------------------------------------------------------
def u128(uuid_obj) -> bytes:
    return M.widen(bytes(uuid_obj.uuid_bytes))


def mk_uuid(raw: bytes):
    from bumble.core import UUID

    return UUID.from_bytes(raw)


class Findings:
    """Violations of one case, before they are put into a Stats."""

    def __init__(self, base_case):
        self.items = []
        self.base = base_case

    def add(self, check, sig, msg, **case_extra):
        self.items.append((check, sig, msg, dict(self.base, **case_extra)))

    def into(self, st: core.Stats):
        for check, sig, msg, case in self.items:
            st.violation(check, sig, msg, case)


# ---------------------------------------------------------------------------
# database shape grammar
# ---------------------------------------------------------------------------
W3 = [16, 32, 128]


def service_patterns(quick: bool):
    """Axis A1: list of service lists; each service = (width, primary, includes, registered)."""
    out = []
    for w in W3 + ['b128']:
        out.append([(w, 1, [], 1)])
    for a, b in itertools.product(W3, repeat=2):
        out.append([(a, 1, [], 1), (b, 1, [], 1)])
    trip = list(itertools.product(W3, repeat=3))
    if quick:
        trip = [(16, 128, 16), (128, 16, 32), (32, 32, 128)]
    for t in trip:
        out.append([(w, 1, [], 1) for w in t])
    # include edges (acyclic; the included service is defined first)
    for w in W3:
        for prim in (0, 1):
            out.append([(w, prim, [], 1), (16, 1, [0], 1)])
    out.append([(16, 0, [], 1), (128, 1, [0], 1), (16, 1, [0], 1)])  # one service included twice
    out.append([(16, 0, [], 1), (16, 0, [0], 1), (16, 1, [1], 1)])  # chain primary -> secondary -> secondary
    out.append([(16, 0, [], 1), (128, 0, [], 1), (16, 1, [0, 1], 1)])  # include run of mixed widths
    out.append([(128, 0, [], 1), (16, 0, [], 1), (32, 1, [0, 1], 1)])
    out.append([(16, 0, [], 1), (16, 1, [0], 1), (16, 0, [], 1), (128, 1, [2, 0], 1)][:4])
    # an included service that is never added by itself
    out.append([(16, 0, [], 0), (16, 1, [0], 1)])
    out.append([(16, 1, [], 0), (16, 1, [0], 1)])
    # two services with the same UUID (spec allows several instances)
    out.append('same_uuid')
    return out


def char_patterns(quick: bool):
    """Axis A2: width pattern of the characteristics of every service."""
    out = [(), (16,), (32,), (128,), ('b128',)]
    # 'd16' / 'd128': a fixed UUID, so that it occurs more than once in a service (and in several services)
    out += [('d16', 'd16'), ('d16', 16, 'd16'), (16, 'd16', 'd16'), ('d128', 16, 'd128'), ('d16', 128, 16)]
    out += list(itertools.product(W3, repeat=2))
    trip = list(itertools.product(W3, repeat=3))
    if quick:
        trip = [(16, 16, 16), (16, 128, 16), (128, 16, 16), (16, 32, 128), (128, 128, 16)]
    out += trip
    return out


def desc_patterns(quick: bool):
    """Axis A4: descriptors of every characteristic."""
    out = [(), (16,), (32,), (128,)]
    out += list(itertools.product(W3, repeat=2))
    out.append(('cccd',))
    return out


DEFAULT_AXES = {'svc': [(16, 1, [], 1)], 'chr': (16,), 'props': 0, 'desc': (), 'dyn': 0}


def make_spec(svc, chr_pat, props_shift, desc_pat, dyn, rot=0):
    """Build a database spec from axis values.  UUID numbers are distinct per item."""
    n = [0]

    def nn():
        n[0] += 1
        return n[0]

    same = svc == 'same_uuid'
    if same:
        svc = [(16, 1, [], 1), (16, 1, [], 1)]
    spec = []
    k = rot
    for si, (w, prim, inc, reg) in enumerate(svc):
        chars = []
        for ci, cw in enumerate(chr_pat):
            props = PROPS[(ci + si + props_shift) % len(PROPS)]
            descs = []
            for dw in desc_pat:
                if dw == 'cccd':
                    if props & (M.P_NOTIFY | M.P_INDICATE):
                        descs.append({'u': 'cccd', 'vl': 2})
                    else:
                        descs.append({'u': [16, nn()], 'vl': VL_ROT[k % len(VL_ROT)]})
                else:
                    descs.append({'u': [dw, nn()], 'vl': VL_ROT[(k + 3) % len(VL_ROT)]})
                k += 1
            cu = [16, 90] if cw == 'd16' else [128, 200] if cw == 'd128' else [cw, nn()]
            chars.append({'u': cu, 'pr': props, 'vl': VL_ROT[k % len(VL_ROT)], 'dyn': dyn if (ci % 2 == 0) else 0, 'ds': descs})
            k += 1
        spec.append({'u': [w, 1 if same else nn()], 'p': prim, 'inc': list(inc), 'reg': reg, 'ch': chars})
    return spec


def enumerate_shapes(quick: bool, max_off: int):
    """All axis assignments with at most `max_off` axes off their default value."""
    axes = {
        'svc': service_patterns(quick),
        'chr': char_patterns(quick),
        'props': list(range(len(PROPS))),
        'desc': desc_patterns(quick),
        'dyn': [0, 1],
    }
    names = list(axes)
    out = []
    seen = set()
    for k in range(0, max_off + 1):
        for off in itertools.combinations(names, k):
            doms = []
            for nme in off:
                doms.append([v for v in axes[nme] if v != DEFAULT_AXES[nme]])
            for vals in itertools.product(*doms):
                a = dict(DEFAULT_AXES)
                a.update(dict(zip(off, vals)))
                key = core.canon_json(a)
                if key in seen:
                    continue
                seen.add(key)
                out.append(a)
    return out


def spec_of_axes(a, idx=0):
    return make_spec(a['svc'], tuple(a['chr']), a['props'], tuple(a['desc']), a['dyn'], rot=idx)


# ---------------------------------------------------------------------------
# discovery / read / write of one database over one link
# ---------------------------------------------------------------------------
def link_name(link):
    return 'eatt' if link[0] in ('eatt', 'eatt_n') else 'att'


def expected_mtu(link):
    if link[0] in ('eatt', 'eatt_n'):
        return min(link[1], 2048)
    if link[1] is None:
        return 23
    return max(23, min(link[1], link[2]))


def run_link(g, model, link, f: Findings, info: dict, do_writes=True, light=False):
    """One fresh connection: negotiate the MTU as `link` says, run every discovery
    procedure, read everything, write everything writable."""
    from bumble import att as b_att

    bearer = link_name(link)
    autoreg = model.autoreg()
    c_conn, s_conn = g.connect(0)
    try:
        if link[0] == 'att':
            client = c_conn.gatt_client
            srv_bearer = s_conn
            if link[1] is not None:
                g.server.max_mtu = link[2]
                try:
                    g.world.run(client.request_mtu(link[1]))
                except Exception as e:  # noqa: BLE001
                    f.add('mtu_exchange', {'problem': 'exception', 'exc': type(e).__name__, 'bearer': bearer}, f'request_mtu({link[1]}) raised {e!r}', link=link)
        elif link[0] == 'eatt_n':
            # ('eatt_n', mtu, count, index): `count` enhanced bearers opened by ONE connect_eatt call; everything is then
            # done on bearer number `index` of them
            clients, srv_bearers = g.open_eatt_many(c_conn, s_conn, link[1], link[2])
            client, srv_bearer = clients[link[3]], srv_bearers[link[3]]
        else:
            client, srv_bearer = g.open_eatt(c_conn, s_conn, link[1])
        m = expected_mtu(link)
        info['mtu_agree'] = info.get('mtu_agree', 0) + (1 if (client.mtu == m and srv_bearer.att_mtu == m) else 0)
        info['links'] = info.get('links', 0) + 1

        def sig(problem, handle, **kw):
            s = {'problem': problem, 'width': model.width_at(handle)}
            s.update(kw)
            return s

        def report(check, exp, obs, fields, where=''):
            info['compared'] = info.get('compared', 0) + len(exp)
            for problem, handle, detail in M.compare(exp, obs, fields):
                f.add(check, sig(problem, handle), f'{check}{where} at ATT_MTU {m} ({bearer}): {detail}', link=link)

        def failed(check, e, where=''):
            f.add(check, {'problem': 'exception', 'exc': type(e).__name__}, f'{check}{where} at ATT_MTU {m} ({bearer}) raised {type(e).__name__}: {e}', link=link)

        async def chars_and_descs(sp, msvc, where):
            try:
                chars = await client.discover_characteristics([], sp)
            except Exception as e:  # noqa: BLE001
                failed('discover_characteristics', e, where)
                return
            info['procedures'] = info.get('procedures', 0) + 1
            report('discover_characteristics', model.exp_chars(msvc), [(c.handle, c.end_group_handle, u128(c.uuid), int(c.properties)) for c in chars],
                   ['handle', 'end', 'uuid', 'props'], where)
            mc_by = {c['handle']: c for c in msvc['chars']}
            for c in chars:
                mc = mc_by.get(c.handle)
                if mc is None or c.end_group_handle != mc['end']:
                    continue  # already reported; a descriptor search over a wrong range proves nothing more
                try:
                    descs = await c.discover_descriptors()
                except Exception as e:  # noqa: BLE001
                    failed('discover_descriptors', e, where)
                    continue
                info['procedures'] = info.get('procedures', 0) + 1
                report('discover_descriptors', model.exp_descs(mc), [(d.handle, u128(d.type)) for d in descs], ['handle', 'type'], f'{where} char 0x{c.handle:04X}')

        async def go():
            # 1. all primary services
            try:
                services = await client.discover_services()
            except Exception as e:  # noqa: BLE001
                failed('discover_services', e)
                services = []
            info['procedures'] = info.get('procedures', 0) + 1
            obs_services = [(s.handle, s.end_group_handle, u128(s.uuid)) for s in services]
            if autoreg:
                # A service that is only ever given to the server as an *included* service is added by bumble in
                # the middle of the including service.  If that breaks the grouping every later comparison is a
                # consequence of it: report this one root cause and stop.
                diffs = M.compare(model.exp_services(), obs_services, ['handle', 'end', 'uuid'])
                info['compared'] = info.get('compared', 0) + len(obs_services)
                if diffs:
                    f.add('discover_services', {'problem': 'service_groups_nested', 'autoreg_include': True},
                          f'discover_services at ATT_MTU {m} ({bearer}) of a database whose included service was never added by itself: {diffs[0][2]} '
                          f'(client sees {[(hex(a), hex(b)) for a, b, _ in obs_services]}: service groups overlap)', link=link)
                    return
            report('discover_services', model.exp_services(), obs_services, ['handle', 'end', 'uuid'])
            primary_handles = {s.handle for s in services}
            # 2. per service: includes, characteristics, descriptors
            secondary = []
            for sp in services:
                msvc = model.service_at(sp.handle)
                if msvc is None or msvc['end'] != sp.end_group_handle:
                    continue
                where = f' of service 0x{sp.handle:04X}'
                try:
                    incs = await client.discover_included_services(sp)
                except Exception as e:  # noqa: BLE001
                    failed('discover_included_services', e, where)
                    incs = []
                info['procedures'] = info.get('procedures', 0) + 1
                exp_inc = model.exp_includes(msvc)
                # an include is identified by the declaration order (a service may be included twice)
                obs_inc = [(p.handle, p.end_group_handle, u128(p.uuid)) for p in incs]
                if len(exp_inc) == len(obs_inc):
                    for (eh, ee, eu), (oh, oe, ou), r in zip(exp_inc, obs_inc, msvc['includes']):
                        info['compared'] = info.get('compared', 0) + 1
                        if (eh, ee) != (oh, oe):
                            f.add('discover_included_services', sig('range', eh), f'include{where}: expected 0x{eh:04X}-0x{ee:04X}, client has 0x{oh:04X}-0x{oe:04X}', link=link)
                        elif eu != ou:
                            f.add('discover_included_services', sig('uuid', eh), f'include{where} at ATT_MTU {m}: included service UUID expected {eu.hex()}, client has {ou.hex()}', link=link)
                else:
                    f.add('discover_included_services', sig('missing' if len(obs_inc) < len(exp_inc) else 'extra', sp.handle),
                          f'include{where} at ATT_MTU {m}: expected {len(exp_inc)} included services, client has {len(obs_inc)}', link=link)
                for p, (eh, ee, _eu) in zip(incs, exp_inc):
                    if (p.handle, p.end_group_handle) == (eh, ee) and eh not in primary_handles and all(q.handle != eh for q in secondary):
                        secondary.append(p)
                await chars_and_descs(sp, msvc, where)
            # 3. secondary services are reachable only through includes
            for p in secondary:
                msvc = model.service_at(p.handle)
                if msvc is not None:
                    info['secondary_walked'] = info.get('secondary_walked', 0) + 1
                    await chars_and_descs(p, msvc, f' of included service 0x{p.handle:04X}')
            # 4. by service UUID
            done = set()
            for s in model.services:
                if not s['primary'] or s['uuid'] in done:
                    continue
                done.add(s['uuid'])
                try:
                    found = await client.discover_service(mk_uuid(s['uuid']))
                except Exception as e:  # noqa: BLE001
                    failed('discover_service', e)
                    continue
                info['procedures'] = info.get('procedures', 0) + 1
                report('discover_service', model.exp_service_by_uuid(s['uuid']), [(x.handle, x.end_group_handle) for x in found], ['handle', 'end'], f' uuid {s["uuid"].hex()}')
            # 5. all attributes
            try:
                attrs = await client.discover_attributes()
            except Exception as e:  # noqa: BLE001
                failed('discover_attributes', e)
                attrs = None
            if attrs is not None:
                info['procedures'] = info.get('procedures', 0) + 1
                report('discover_attributes', model.exp_attributes(), [(a.handle, u128(a.type)) for a in attrs], ['handle', 'type'])
            # 6. the filtered forms: characteristics by UUID (every UUID of the service = first / middle / last /
            #    duplicated, an absent UUID, the UUID written in another width, two UUIDs, all services at once), the
            #    descriptors of what the filtered discovery returned, get_characteristics_by_uuid, discover_services(uuids)
            def char_tuple(c):
                return (c.handle, c.end_group_handle, u128(c.uuid), int(c.properties))

            async def filtered(sp, msvc, uuid_objs, exp, form, where):
                try:
                    chars = await client.discover_characteristics(uuid_objs, sp)
                except Exception as e:  # noqa: BLE001
                    failed('discover_characteristics_by_uuid', e, where)
                    return
                info['procedures'] = info.get('procedures', 0) + 1
                info['filtered'] = info.get('filtered', 0) + 1
                info['compared'] = info.get('compared', 0) + len(exp)
                for problem, handle, detail in M.compare(exp, [char_tuple(c) for c in chars], ['handle', 'end', 'uuid', 'props']):
                    f.add('discover_characteristics_by_uuid', sig(problem, handle, form=form), f'discover_characteristics(uuids={[str(u) for u in uuid_objs]}){where} at ATT_MTU {m} ({bearer}): {detail}', link=link)
                if sp is None:
                    return
                if [char_tuple(c) for c in sp.characteristics] != [char_tuple(c) for c in chars]:
                    f.add('discover_characteristics_by_uuid', {'problem': 'service_proxy_list', 'form': form}, f'{where}: service.characteristics differs from the returned list', link=link)
                mc_by = {c['handle']: c for c in msvc['chars']}
                for c in chars:
                    mc = mc_by.get(c.handle)
                    if mc is None:
                        continue
                    # what a user does next with the result: descriptors (this is also what subscribe() does first)
                    try:
                        descs = await c.discover_descriptors()
                    except Exception as e:  # noqa: BLE001
                        failed('discover_descriptors_after_filter', e, where)
                        continue
                    info['procedures'] = info.get('procedures', 0) + 1
                    for problem, handle, detail in M.compare(model.exp_descs(mc), [(d.handle, u128(d.type)) for d in descs], ['handle', 'type']):
                        f.add('discover_descriptors_after_filter', sig(problem, handle, form=form),
                              f'descriptors of characteristic 0x{c.handle:04X} found by uuid{where} at ATT_MTU {m} ({bearer}): {detail}', link=link)
                for u in uuid_objs:
                    got = sorted(c.handle for c in client.get_characteristics_by_uuid(u, sp))
                    want = sorted(t[0] for t in exp if t[2] == u128(u))
                    if got != want:
                        f.add('get_characteristics_by_uuid', {'problem': 'set', 'form': form}, f'get_characteristics_by_uuid({u}){where} after the filtered discovery: handles {got}, expected {want}', link=link)

            def other_width(raw):
                """The same UUID value written in another width, if there is one."""
                if len(raw) in (2, 4):
                    return M.widen(raw)
                if raw[:12] == M.BASE_TAIL_LE:
                    return raw[12:14] if raw[14:] == b'\x00\x00' else raw[12:]
                return None

            absent = mk_uuid(M.uuid_raw(16, 0x7F))
            for sp in ([] if light else services):
                msvc = model.service_at(sp.handle)
                if msvc is None or msvc['end'] != sp.end_group_handle:
                    continue
                where = f' in service 0x{sp.handle:04X}'
                all_chars = model.exp_chars(msvc)
                distinct = []
                for c in msvc['chars']:
                    if c['uuid'] not in distinct:
                        distinct.append(c['uuid'])
                for raw in distinct:
                    await filtered(sp, msvc, [mk_uuid(raw)], [t for t in all_chars if t[2] == M.widen(raw)], 'same', where)
                    ow = other_width(raw)
                    if ow is not None:
                        await filtered(sp, msvc, [mk_uuid(ow)], [t for t in all_chars if t[2] == M.widen(raw)], 'other_width', where)
                await filtered(sp, msvc, [absent], [], 'absent', where)
                if len(distinct) >= 2:
                    pair = [distinct[0], distinct[-1]]
                    await filtered(sp, msvc, [mk_uuid(r) for r in pair], [t for t in all_chars if t[2] in [M.widen(r) for r in pair]], 'pair', where)
            if not light and services:
                # service=None: every service the client knows (= the primary services discovered above)
                known = [model.service_at(x.handle) for x in client.services]
                if all(k is not None for k in known):
                    first = next((c['uuid'] for k in known for c in k['chars']), None)
                    if first is not None:
                        exp = [t for k in known for t in model.exp_chars(k) if t[2] == M.widen(first)]
                        await filtered(None, None, [mk_uuid(first)], exp, 'all_services', ' in all services')
            # discover_services(uuids): the filtered form of Discover All Primary Services
            if not light:
                done = set()
                wanted = [s_['uuid'] for s_ in model.services if s_['primary']]
                for raw in wanted + [M.uuid_raw(16, 0x7F)]:
                    if raw in done:
                        continue
                    done.add(raw)
                    forms = [('same', raw)] + ([('other_width', other_width(raw))] if other_width(raw) is not None else [])
                    for form, r2 in forms:
                        try:
                            found = await client.discover_services([mk_uuid(r2)])
                        except Exception as e:  # noqa: BLE001
                            failed('discover_services_by_uuid', e)
                            continue
                        info['procedures'] = info.get('procedures', 0) + 1
                        info['filtered'] = info.get('filtered', 0) + 1
                        exp = [t for t in model.exp_services() if t[2] == M.widen(raw)]
                        for problem, handle, detail in M.compare(exp, [(x.handle, x.end_group_handle, u128(x.uuid)) for x in found], ['handle', 'end', 'uuid']):
                            f.add('discover_services_by_uuid', sig(problem, handle, form=form), f'discover_services(uuids=[{r2.hex()}]) at ATT_MTU {m} ({bearer}): {detail}', link=link)
                try:
                    found = await client.discover_service(absent)
                    if found:
                        f.add('discover_service', sig('extra', found[0].handle, form='absent'), f'discover_service(absent uuid) returned {len(found)} services', link=link)
                except Exception as e:  # noqa: BLE001
                    failed('discover_service', e, ' absent uuid')
            # 7. read every attribute (light: values only; declarations do not depend on the link)
            for r in model.rows:
                if not light or role_of(r) == 'value':
                    await read_check(g, client, r, m, bearer, f, info, link)
            # 8. writes
            if do_writes and not light:
                salt = 100
                for r in model.rows:
                    if r['kind'] not in ('chr_value', 'descriptor') or r.get('user_cccd'):
                        continue
                    for with_response, ln in ((True, min(m - 3, 5)), (False, min(m - 3, 512)), (True, 0)):
                        salt += 1
                        await write_check(g, client, r, M.pattern(ln, salt), with_response, m, bearer, f, info, link)
                    await read_check(g, client, r, m, bearer, f, info, link)

        if not run_bounded(g, go(), DISCOVERY_STEP_BUDGET):
            f.add('discovery', {'problem': 'no_termination'}, f'discovery/read sequence against the real server at ATT_MTU {m} ({bearer}) did not finish within {DISCOVERY_STEP_BUDGET} loop steps '
                  f'(several thousand requests; a normal run needs < 5000 steps) or stalled; last procedure count {info.get("procedures", 0)}', link=link)
        ex = g.loop.collect_exceptions()
        for msg, exc in ex:
            f.add('loop_exception', {'problem': 'exception', 'exc': exc.split('(')[0], 'bearer': bearer}, f'event loop exception during discovery: {msg} {exc}', link=link)
    finally:
        g.server.max_mtu = SERVER_DEFAULT_MTU
        try:
            g.disconnect(c_conn)
        except Exception:  # noqa: BLE001
            pass


def run_bounded(g, coro, max_steps):
    """Run a coroutine on the world's loop; False if it neither finishes within the step
    budget nor can make progress (timers included)."""
    from ..vloop import StepBudgetExceeded

    loop = g.loop
    task = loop.create_task(coro)
    try:
        ok = loop.run_until(task.done, horizon=loop.time() + 3600.0, max_steps=max_steps)
    except StepBudgetExceeded:
        ok = False
    if not ok:
        task.cancel()
        try:
            loop.run_quiescent()
        except StepBudgetExceeded:
            pass
        return False
    task.result()
    return True


def length_class(n, m):
    if n <= m - 3:
        return 'le_mtu-3'
    if n < m - 1:
        return 'lt_mtu-1'
    if n == m - 1:
        return 'eq_mtu-1'
    if n % (m - 1) == 0:
        return 'multiple_of_mtu-1'
    return 'gt_mtu-1'


def role_of(row):
    return 'value' if row['kind'] in ('chr_value', 'descriptor') else row['kind']


async def read_check(g, client, row, m, bearer, f, info, link, via=None):
    exp = row['value'] if row['kind'] not in ('chr_value', 'descriptor') else g.server_value(row)
    if exp is None:
        info['reads_skipped_dynamic'] = info.get('reads_skipped_dynamic', 0) + 1
        return
    info['reads'] = info.get('reads', 0) + 1
    try:
        got = await (via.read_value() if via is not None else client.read_value(row['handle']))
    except Exception as e:  # noqa: BLE001
        f.add('read_value', {'problem': 'exception', 'exc': type(e).__name__, 'role': role_of(row), 'bearer': bearer},
              f'read_value(0x{row["handle"]:04X}) of a {len(exp)}-byte {row["kind"]} at ATT_MTU {m} ({bearer}) raised {type(e).__name__}: {e}', link=link, handle=row['handle'], length=len(exp))
        return
    if bytes(got) != exp:
        if len(got) < len(exp) and exp.startswith(bytes(got)):
            problem = 'truncated'
        elif len(got) > len(exp) and bytes(got).startswith(exp):
            problem = 'too_long'
        else:
            problem = 'content'
        s = {'problem': problem, 'role': role_of(row)}
        if row['kind'] == 'include':
            s['width'] = M.width_name(row['w'])
        elif role_of(row) == 'value':
            s['length'] = length_class(len(exp), m)
            s['bearer'] = bearer
        f.add('read_value', s, f'read_value(0x{row["handle"]:04X}) of a {row["kind"]} at ATT_MTU {m} ({bearer}): server value is {len(exp)} bytes, client got {len(got)} bytes '
              f'(expected {exp[:24].hex()}{"..." if len(exp) > 24 else ""}, got {bytes(got)[:24].hex()}{"..." if len(got) > 24 else ""})', link=link, handle=row['handle'], length=len(exp))


async def write_check(g, client, row, data, with_response, m, bearer, f, info, link):
    info['writes'] = info.get('writes', 0) + 1
    s0 = {'with_response': with_response, 'dyn': bool(row.get('dyn')), 'bearer': bearer}
    try:
        await client.write_value(row['handle'], data, with_response=with_response)
        if not with_response:
            # a command has no reply: give the server the chance to process it by doing a round trip
            await client.read_value(row['handle'], no_long_read=True)
    except Exception as e:  # noqa: BLE001
        f.add('write_value', dict(s0, problem='exception', exc=type(e).__name__), f'write_value(0x{row["handle"]:04X}, {len(data)} bytes, with_response={with_response}) at ATT_MTU {m} raised {type(e).__name__}: {e}', link=link)
        return
    now = g.server_value(row)
    if now != data:
        f.add('write_value', dict(s0, problem='not_stored'), f'write_value(0x{row["handle"]:04X}, {len(data)} bytes, with_response={with_response}) at ATT_MTU {m} ({bearer}): server value afterwards is '
              f'{now[:24].hex()} ({len(now)} bytes), written {data[:24].hex()} ({len(data)} bytes)', link=link)
    row['value'] = now


def discovery_case(spec, links, seed=0, do_writes=True, light_after_first=False, defaults=False):
    """-> (Findings, info) for one database over the given links (one connection each)."""
    from ..harness.c12_world import GattWorld

    f = Findings({'sub': 'discovery', 'spec': spec, 'links': [list(l) for l in links], 'defaults': defaults})
    info: dict = {}
    if defaults:
        do_writes = False
    with GattWorld(2, 1, seed=seed, eatt=any(l[0] in ('eatt', 'eatt_n') for l in links), defaults=defaults) as g:
        model = g.set_database(spec)
        probs = [] if (defaults or model.autoreg()) else g.layout_problems()
        if probs:
            f.add('db_layout', {'problem': 'sequence', 'autoreg_include': model.autoreg()}, 'server attribute list differs from the model: ' + probs[0])
            return f, info
        info['attributes'] = len(model.rows)
        shapes_seen = info.setdefault('resp_shapes', set())

        def tap(_h, pdu):
            if pdu and pdu[0] & 1:
                shapes_seen.add((pdu[0], len(pdu)))
            return True

        g.tap_device(g.server_dev, tap)
        for k, link in enumerate(links):
            run_link(g, model, tuple(link), f, info, do_writes, light=light_after_first and k > 0)
            if any(it[1].get('problem') == 'no_termination' for it in f.items):
                info['aborted'] = 1
                break
    return f, info


def w_discovery(arg):
    items, seed = arg
    st = core.Stats('discovery')
    aborted = 0
    for idx, axes, links, *rest in items:
        defaults = bool(rest and rest[0])
        if aborted >= 3:
            st.cap('discovery slice abandoned after 3 databases whose discovery did not terminate')
            break
        spec = spec_of_axes(axes, idx)
        n_off = sum(1 for k, v in axes.items() if v != DEFAULT_AXES[k])
        f, info = discovery_case(spec, links, seed, do_writes=n_off <= 1, light_after_first=n_off > 1, defaults=defaults)
        for link in links:
            st.case(('disc', idx, tuple(link), defaults))
        f.into(st)
        for k in ('procedures', 'compared', 'filtered', 'reads', 'writes', 'links', 'mtu_agree', 'secondary_walked'):
            st.count(k, info.get(k, 0))
        for rs in info.get('resp_shapes', ()):
            st.add('response_opcode_size_classes', rs)
        aborted += info.get('aborted', 0)
        st.add('db_sizes', info.get('attributes', 0))
        st.add('shapes', idx)
        if len(st.samples) < 2:
            st.samples.append({'axes': axes, 'links': [list(l) for l in links], 'attributes': info.get('attributes')})
    return st


# ---------------------------------------------------------------------------
# long reads / writes: value length x MTU
# ---------------------------------------------------------------------------
LONG_SPEC = [{'u': [16, 1], 'p': 1, 'inc': [], 'reg': 1, 'ch': [
    {'u': [16, 2], 'pr': RW_PROPS, 'vl': 1, 'dyn': 0, 'ds': [{'u': [16, 3], 'vl': 1}]},
    {'u': [128, 4], 'pr': RW_PROPS, 'vl': 1, 'dyn': 1, 'ds': []},
]}]


def long_read_case(links, seed=0, only_length=None):
    from ..harness.c12_world import GattWorld

    f = Findings({'sub': 'long_read'})
    info: dict = {}
    with GattWorld(2, 1, seed=seed, eatt=any(l[0] in ('eatt', 'eatt_n') for l in links)) as g:
        model = g.set_database(LONG_SPEC)
        targets = [r for r in model.rows if r['kind'] in ('chr_value', 'descriptor')]
        for link in links:
            link = tuple(link)
            bearer = link_name(link)
            m = expected_mtu(link)
            c_conn, s_conn = g.connect(0)
            try:
                if link[0] == 'att':
                    client = c_conn.gatt_client
                    if link[1] is not None:
                        g.server.max_mtu = link[2]
                        g.world.run(client.request_mtu(link[1]))
                else:
                    client, _sch = g.open_eatt(c_conn, s_conn, link[1])
                info['links'] = info.get('links', 0) + 1
                lengths = M.value_lengths(m) if only_length is None else [only_length]

                async def go():
                    # proxies, to exercise AttributeProxy.read_value as well
                    services = await client.discover_services()
                    chars = await services[0].discover_characteristics()
                    proxies = {c.handle: c for c in chars}
                    salt = 0
                    for ln in lengths:
                        for r in targets:
                            salt += 1
                            g.set_server_value(r, M.pattern(ln, salt))
                            await read_check(g, client, r, m, bearer, f, info, link)
                            if r['handle'] in proxies:
                                await read_check(g, client, r, m, bearer, f, info, link, via=proxies[r['handle']])
                    for ln in sorted({0, 1, min(m - 3, 512)}):
                        for r in targets:
                            for with_response in (True, False):
                                salt += 1
                                await write_check(g, client, r, M.pattern(ln, salt), with_response, m, bearer, f, info, link)
                                await read_check(g, client, r, m, bearer, f, info, link)

                if not run_bounded(g, go(), 3_000_000):
                    f.add('long_read', {'problem': 'no_termination', 'bearer': bearer}, f'read/write sequence at {link} did not finish within 3000000 loop steps', link=link)
                for msg, exc in g.loop.collect_exceptions():
                    f.add('loop_exception', {'problem': 'exception', 'exc': exc.split('(')[0], 'bearer': bearer}, f'event loop exception during reads: {msg} {exc}', link=link)
            except Exception as e:  # noqa: BLE001
                f.add('long_read', {'problem': 'exception', 'exc': type(e).__name__, 'bearer': bearer}, f'long read family at {link} raised {type(e).__name__}: {e}', link=link)
            finally:
                g.server.max_mtu = SERVER_DEFAULT_MTU
                try:
                    g.disconnect(c_conn)
                except Exception:  # noqa: BLE001
                    pass
    # a replay needs the link and the length only
    for it in f.items:
        it[3]['links'] = [list(it[3].get('link', links[0]))]
    return f, info


def w_long_read(arg):
    links, seed = arg
    st = core.Stats('long_read')
    f, info = long_read_case(links, seed)
    for link in links:
        m = expected_mtu(tuple(link))
        for ln in M.value_lengths(m):
            st.case(('lr', tuple(link), ln))
        st.add('mtus', (link_name(tuple(link)), m))
    f.into(st)
    for k in ('reads', 'writes', 'links'):
        st.count(k, info.get(k, 0))
    if links and len(st.samples) < 1:
        st.samples.append({'link': list(links[0]), 'value_lengths': M.value_lengths(expected_mtu(tuple(links[0])))})
    return st


# ---------------------------------------------------------------------------
# notifications / indications
# ---------------------------------------------------------------------------
def notify_configs(quick):
    from ..harness import c12_notify as N

    out = []
    for combo in itertools.product(N.BASE_STATES, repeat=6):
        out.append(list(combo))
    for i in range(6):
        for s in N.EXT_STATES:
            c = ['none'] * 6
            c[i] = s
            out.append(c)
    pairs = [(0, 2), (2, 4), (0, 1)] if quick else list(itertools.combinations(range(6), 2))
    for i, j in pairs:
        for s, t in itertools.product(N.EXT_STATES, repeat=2):
            c = ['none'] * 6
            c[i], c[j] = s, t
            out.append(c)
    return out


def notify_values(mtus3):
    """Value selectors: ('n', length) explicit value of that length, or None = stored value (300 bytes)."""
    lens = {0, 512}
    for m in mtus3:
        lens.update((m - 4, m - 3, m - 2))
    return [None] + [('n', x) for x in sorted(l for l in lens if 0 <= l <= 512)]


def notify_case(states, mtus, ops, values, seed=0, faults=True, only_fault=None):
    """One rig, one subscription configuration, many operations.  -> (Findings, info)"""
    from ..harness import c12_notify as N

    f = Findings({'sub': 'notify', 'states': list(states), 'mtus': list(mtus)})
    info = {'ops': 0, 'pdus': 0, 'indications': 0, 'calls': 0}
    with N.NotifyRig(tuple(mtus), seed) as rig:
        st_map = {}
        for (bi, name), s in zip(N.CELLS, states):
            st_map[(bi, name)] = s
            rig.apply_state(bi, name, s)
        bmtu = [b.mtu for b in rig.bearers]
        if rig.mtu_seen != bmtu:
            f.add('notify', {'problem': 'server_att_mtu', 'api': 'setup'}, f'server-side ATT_MTU per bearer is {rig.mtu_seen}, reference says {bmtu}')
            return f, info
        # the subscription the server holds, read back through each client
        for (bi, name), s in zip(N.CELLS, states):
            got = rig.server_bits(bi, name)
            exp = struct.pack('<H', N.STATE_BITS[s])
            if got != exp:
                f.add('notify', {'problem': 'cccd_readback', 'api': 'subscribe', 'state': s, 'bearer': N.BEARER_KIND[bi]},
                      f'after state {s} on bearer {bi} char {name} the CCCD reads {got.hex()} through that bearer, expected {exp.hex()}')
        stored = rig.g.server_value(rig.model.by_handle[rig.handle['X']])
        for api, target, force in ops:
            for vsel in values:
                value = None if vsel is None else M.pattern(vsel[1], 7 + vsel[1])
                info['ops'] += 1
                res = rig.do_op(api, target, force, value)
                exp = N.expected_wire(api, target, force, value, st_map, bmtu, rig.handle['X'], stored)
                check_notify(f, info, api, target, force, vsel, st_map, exp, res, rig.handle['X'])
        if faults:
            check_faulty_bearers(f, info, rig, st_map, bmtu, only_fault)
    return f, info


FAULT_MODES = {'indicate_subscribers': ['late', 'never', 'send_raises'], 'notify_subscribers': ['send_raises']}


def check_faulty_bearers(f, info, rig, st_map, bmtu, only=None):
    """Independence of the fan-out: one misbehaving bearer (confirmation late / lost, or a failing
    transmission) must not keep the indication / notification from the other subscribed bearers."""
    from ..harness import c12_notify as N

    value = M.pattern(5, 12)
    for api, modes in FAULT_MODES.items():
        bit = 1 if api.startswith('notify') else 2
        want_op = M.OP_NOTIFICATION if bit == 1 else M.OP_INDICATION
        letter = 'N' if bit == 1 else 'I'
        subs = [bi for bi in range(3) if N.STATE_BITS[st_map[(bi, 'X')]] & bit]
        if len(subs) < 2:
            continue
        for faulty in subs:
            for mode in modes:
                if only is not None and [api, faulty, mode] != list(only):
                    continue
                info['fault_ops'] = info.get('fault_ops', 0) + 1
                res = rig.do_faulty_bearer(api, False, value, faulty, mode)
                case = {'fault': [api, faulty, mode]}
                where = f'{api}(5 bytes) with states {[st_map[c] for c in N.CELLS]} while bearer {faulty} ' + {
                    'late': 'has not confirmed yet', 'never': 'never confirms', 'send_raises': 'cannot be sent to (transmission raises)'}[mode]
                for phase in ('during', 'final'):
                    obs = res[phase]
                    bad = None
                    for o in subs:
                        if o == faulty:
                            continue
                        pdu = (want_op, rig.handle['X'], value[: bmtu[o] - 3])
                        calls = sorted((c[1], c[2], c[3]) for c in obs['calls'] if c[0] == o)
                        exp_calls = sorted([('X', 'ev', pdu[2]), ('X', 'fn', pdu[2])]) if letter in N.STATE_CLIENT[st_map[(o, 'X')]] else []
                        if obs['wire'][o] != [pdu]:
                            bad = f'bearer {o} (subscribed) was sent {[(hex(p[0]), len(p[2])) for p in obs["wire"][o]]}, expected one 0x{want_op:02X}'
                        elif calls != exp_calls:
                            bad = f'bearer {o} got the PDU but its client ran callbacks {[(c[0], c[1]) for c in calls]}'
                        elif bit == 2 and obs['confirmations'][o] != 1:
                            bad = f'bearer {o} got the indication but its client sent {obs["confirmations"][o]} confirmations'
                        if bad:
                            break
                    if bad:
                        problem = 'others_wait_for_faulty_bearer' if phase == 'during' else 'others_never_served'
                        f.add('notify', {'api': api, 'force': False, 'fault': mode, 'problem': problem},
                              f'{where}: {"while the fault is outstanding" if phase == "during" else "after the fault was resolved / timed out"} {bad}', **case)
                if mode in ('late', 'never') and res['during']['wire'][faulty] != [(want_op, rig.handle['X'], value[: bmtu[faulty] - 3])]:
                    f.add('notify', {'api': api, 'force': False, 'fault': mode, 'problem': 'faulty_bearer_not_served'}, f'{where}: that bearer itself was sent {res["during"]["wire"][faulty]}', **case)
                if mode in ('late', 'never') and res['done_during']:
                    f.add('notify', {'api': api, 'force': False, 'fault': mode, 'problem': 'not_awaited'}, f'{where}: the call completed although one indication is unconfirmed', **case)
                if not res['done_final']:
                    f.add('notify', {'api': api, 'force': False, 'fault': mode, 'problem': 'never_completes'},
                          f'{where}: the call is still pending after the confirmation arrived / the 30 s timeout passed', **case)


def check_notify(f, info, api, target, force, vsel, st_map, exp, res, hx):
    from ..harness import c12_notify as N

    tk = 'all' if target is None else N.BEARER_KIND[target]
    want_op = M.OP_NOTIFICATION if api.startswith('notify') else M.OP_INDICATION
    case = {'op': [api, target, force], 'value': vsel}

    def sig(problem, bi=None, **kw):
        s = {'api': api, 'target': tk, 'force': force, 'problem': problem}
        if bi is not None:
            s['at'] = N.BEARER_KIND[bi] + ('' if (target is None or bi == target) else '_other')
        s.update(kw)
        return s

    def desc():
        return f'{api}({"bearer %d" % target if target is not None else "all"}, force={force}, value={"stored" if vsel is None else str(vsel[1]) + " bytes"}) with states {[st_map[c] for c in N.CELLS]}'

    wire_ok = True
    n_ind = 0
    for bi in range(3):
        got = res['wire_after'][bi]
        info['pdus'] += len(got)
        n_ind += sum(1 for p in got if p[0] == M.OP_INDICATION)
        e = exp[bi]
        # kind first: whatever is sent for this call must be the kind of PDU that was requested
        wrong_kind = [p for p in got if p[0] != want_op]
        if wrong_kind:
            wire_ok = False
            f.add('notify', sig('kind', bi), f'{desc()}: bearer {bi} was sent opcode 0x{wrong_kind[0][0]:02X}, the call asks for 0x{want_op:02X}', **case)
            continue
        if e is None:
            # forced broadcast to a bearer that is not subscribed: only the kind is fixed by the statement
            # (the size bound of every server PDU is C10's clause)
            continue
        if len(got) < len(e):
            wire_ok = False
            f.add('notify', sig('missing', bi), f'{desc()}: bearer {bi} is subscribed/targeted but was sent nothing', **case)
        elif len(got) > len(e):
            wire_ok = False
            f.add('notify', sig('unexpected' if not e else 'duplicate', bi), f'{desc()}: bearer {bi} was sent {len(got)} PDU(s) {[(hex(p[0]), len(p[2])) for p in got]}, expected {len(e)}', **case)
        elif e:
            (eo, eh, ev), (go_, gh, gv) = e[0], got[0]
            if gh != eh:
                wire_ok = False
                f.add('notify', sig('handle', bi), f'{desc()}: bearer {bi} PDU names handle 0x{gh:04X}, expected 0x{eh:04X}', **case)
            elif gv != ev:
                wire_ok = False
                if len(gv) > len(ev):
                    pr = 'not_truncated'
                elif len(gv) < len(ev):
                    pr = 'over_truncated'
                else:
                    pr = 'content'
                f.add('notify', sig(pr, bi), f'{desc()}: bearer {bi} value is {len(gv)} bytes, expected {len(ev)} (= min(len, ATT_MTU-3))', **case)
    info['indications'] += n_ind
    if not wire_ok:
        return
    # pending until confirmed
    exp_ind = want_op == M.OP_INDICATION and n_ind > 0
    if exp_ind and res['done_before_confirmation']:
        f.add('notify', sig('not_awaited'), f'{desc()}: the call completed while {n_ind} indication(s) were still unconfirmed', **case)
    if not exp_ind and not res['done_before_confirmation']:
        f.add('notify', sig('blocked'), f'{desc()}: nothing to confirm, but the call did not complete', **case)
    if not res['done_after_confirmation']:
        f.add('notify', sig('never_completes'), f'{desc()}: the call is still pending after every confirmation was delivered', **case)
    if res['exception']:
        f.add('notify', sig('raised'), f'{desc()}: raised {res["exception"]}', **case)
    for bi in range(3):
        n_here = sum(1 for p in res['wire_after'][bi] if p[0] == M.OP_INDICATION)
        if res['confirmations'][bi] != n_here:
            f.add('notify', sig('confirmation_count', bi), f'{desc()}: bearer {bi} got {n_here} indication(s) and its client sent {res["confirmations"][bi]} confirmation(s)', **case)
    # client callbacks (unforced calls: the clients' subscriber sets match the server's subscriptions)
    if force:
        return
    kind_letter = 'N' if want_op == M.OP_NOTIFICATION else 'I'
    for bi in range(3):
        calls = [(c[1], c[2], c[3]) for c in res['calls_after'] if c[0] == bi]
        info['calls'] += len(calls)
        e = exp[bi] or []
        exp_calls = []
        if e and kind_letter in N.STATE_CLIENT[st_map[(bi, 'X')]]:
            exp_calls = [('X', 'ev', e[0][2]), ('X', 'fn', e[0][2])]
        if sorted(calls) != sorted(exp_calls):
            if len(calls) < len(exp_calls):
                pr = 'callback_missing'
            elif len(calls) > len(exp_calls):
                pr = 'callback_unexpected'
            else:
                pr = 'callback_value'
            f.add('notify', sig(pr, bi), f'{desc()}: client of bearer {bi} ran callbacks {[(c[0], c[1], len(c[2])) for c in calls]}, expected {[(c[0], c[1], len(c[2])) for c in exp_calls]}', **case)


def w_notify(arg):
    cases, seed = arg
    st = core.Stats('notify')
    for states, mtus, ops, values in cases:
        f, info = notify_case(states, mtus, ops, values, seed)
        st.case(('ncfg', tuple(states), tuple(mtus)))
        f.into(st)
        for k, v in info.items():
            st.count(k, v)
        st.add('configs', (tuple(states), tuple(mtus)))
        if info.get('fault_ops'):
            st.add('configs_with_faulty_bearer', (tuple(states), tuple(mtus)))
        if len(st.samples) < 1:
            st.samples.append({'states': states, 'mtus': list(mtus), 'ops': len(ops), 'values': len(values)})
    return st


# ---------------------------------------------------------------------------
# termination
# ---------------------------------------------------------------------------
def term_task(arg):
    """All scripts of one procedure that start with `first`, explored as a tree: a script
    is extended only if the client actually consumed all of it (otherwise the extension
    is indistinguishable from the shorter script)."""
    from ..harness.c12_adversary import Adversary, PROCS
    from ..harness.c12_world import GattWorld

    proc, first, max_len, seed = arg
    st = core.Stats('termination')
    suspects = []
    with GattWorld(2, 1, seed=seed) as g:
        adv = Adversary(g)
        stack = [[first]]
        while stack:
            script = stack.pop()
            r = adv.run(proc, script, REQUEST_BUDGET, lasso=True)
            st.case((proc, tuple(script)))
            st.count('requests', r['requests'])
            st.add('outcomes', (proc, r['outcome'].split(':')[0] if r['outcome'].startswith('returned') else r['outcome']))
            if r['unexpected']:
                st.count('unexpected_client_pdus', len(r['unexpected']))
            if r['outcome'] in ('lasso', 'budget', 'hang'):
                if r['outcome'] == 'lasso':
                    suspects.append((proc, script))
                else:
                    st.violation('termination', {'proc': proc, 'loop_item': script[-1], 'kind': r['outcome']},
                                 f'{proc} against responses {script} (last repeated forever): {r["outcome"]} after {r["requests"]} requests', {'sub': 'termination', 'proc': proc, 'script': script})
                continue
            if len(script) < max_len and r['requests'] > len(script):
                for item in reversed(M.ITEMS):
                    if item != script[-1]:
                        stack.append(script + [item])
        if len(st.samples) < 1:
            st.samples.append({'proc': proc, 'first': first, 'family': PROCS[proc][0]})
    st.sets['suspects'] = {json.dumps(s) for s in suspects}
    return st


def term_confirm(arg):
    """Full-budget run (no lasso shortcut) of one suspect script."""
    from ..harness.c12_adversary import Adversary
    from ..harness.c12_world import GattWorld

    proc, script, seed, step = arg
    with GattWorld(2, 1, seed=seed) as g:
        adv = Adversary(g)
        return adv.run(proc, script, REQUEST_BUDGET, lasso=False, step=step)


# ---------------------------------------------------------------------------
def w_any(arg):
    kind, payload = arg
    if kind == 'discovery':
        return w_discovery(payload)
    if kind == 'long_read':
        return w_long_read(payload)
    if kind == 'notify':
        return w_notify(payload)
    if kind == 'confirm':
        return term_confirm(payload)
    raise ValueError(kind)


def rotate(items, k):
    if not items:
        return items
    k %= len(items)
    return items[k:] + items[:k]


def run(ctx: core.Context) -> int:
    quick = ctx.quick
    only = getattr(ctx, 'only', None)
    seed = ctx.seed

    def want(name):
        return not only or name in only

    prefs = [23, 24, 50, 185, 517]
    all_links = [('att', None, None)] + [('att', a, b) for a in prefs for b in prefs] + [('eatt', 64), ('eatt', 2048)] + [('eatt_n', 64, 2, 0), ('eatt_n', 64, 2, 1), ('eatt_n', 185, 3, 0), ('eatt_n', 185, 3, 1), ('eatt_n', 185, 3, 2)]
    tasks = []  # (kind, payload) for one shared pool, long-running first

    # ---------------- termination, phase 1 (cheap): every script, non-termination suspected by repetition
    reps, extra, by_sig = [], [], {}
    if want('termination'):
        from ..harness.c12_adversary import PROCS

        st = ctx.sub('termination')
        t1 = rotate([(proc, first, 3, seed) for proc in PROCS for first in M.ITEMS], seed)
        suspects = []
        for r in core.pmap(term_task, t1, ctx.jobs):
            suspects += sorted(r.sets.pop('suspects', set()))
            st.merge(r)
        for sj in sorted(suspects):
            proc, script = json.loads(sj)
            by_sig.setdefault((proc, script[-1]), []).append(script)
        # phase 2: one full-budget confirmation per (procedure, repeated item)
        reps = [(proc, min(scripts, key=lambda s: (len(s), s)), seed, None) for (proc, _item), scripts in sorted(by_sig.items())]
        if not quick:
            # slow walk: one handle per request over the whole handle space (discover_services / discover_service are
            # left out: the client's service list makes that walk quadratic, minutes per run)
            extra = [('discover_attributes', ['prog'], seed, 1)]
        st.count('lasso_suspects', len(suspects))
        st.count('full_budget_runs', len(reps) + len(extra))
        for a in reps + extra:
            tasks.append(('confirm', a))
        ctx.log(f'termination phase 1: {st.summary()}')

    # ---------------- discovery
    if want('discovery'):
        shapes = enumerate_shapes(quick, 2)
        if quick:
            full = [('att', None, None), ('att', 50, 517), ('eatt', 64), ('att', 23, 517), ('att', 517, 185), ('att', 517, 517), ('eatt_n', 64, 2, 0), ('eatt_n', 100, 3, 1)]
            link_sets = [[full[0], full[2]], [full[1], full[5]], [full[3], full[4]]]
        else:
            full = all_links
            link_sets = [full[k::5] for k in range(5)]
        items = []
        for idx, axes in enumerate(shapes):
            n_off = sum(1 for k, v in axes.items() if v != DEFAULT_AXES[k])
            links = full if n_off <= 1 else link_sets[idx % len(link_sets)]
            items.append((idx, axes, links))
        # the same databases behind bumble's default GAP + GATT services (reference adopted from the server's objects)
        n_plain = len(items)
        for idx, axes in enumerate(shapes):
            n_off = sum(1 for k, v in axes.items() if v != DEFAULT_AXES[k])
            if n_off <= 1 and axes['svc'] != 'same_uuid':
                items.append((idx, axes, full[:3] if quick else full[::5], True))
        for p in core.split(rotate(items, seed), ctx.jobs * 8):
            tasks.append(('discovery', (p, seed)))
        ctx.log(f'discovery: {len(shapes)} shapes, {sum(len(i[2]) for i in items)} (shape, link) cases')

    # ---------------- long reads
    if want('long_read'):
        if quick:
            links = list(all_links)
        else:
            links = [('att', None, None)]
            for mm in range(23, 518):
                links += [('att', mm, 517), ('att', 517, mm)]
                if mm in prefs and mm != 517:
                    links += [('att', mm, b) for b in prefs if b != 517]
            links += [('eatt', e) for e in (64, 65, 100, 185, 512, 513, 514, 517, 2048)]
        for p in core.split(rotate(links, seed), ctx.jobs * 6):
            tasks.append(('long_read', (p, seed)))
        ctx.log(f'long_read: {len(links)} links')

    # ---------------- notifications
    if want('notify'):
        from ..harness import c12_notify as N

        ops = N.all_ops()
        cases = []
        base_mtus = (50, 64, None)
        short_values = [None, ('n', 5)]
        for states in notify_configs(quick):
            cases.append((states, base_mtus, ops, short_values))
        # truncation family: MTU triples x value lengths around each bearer's MTU-3
        mtu_triples = [(None, 64, None), (50, 64, 185), (517, 2048, 23), (185, 100, 517), (24, 512, 50)]
        if not quick:
            mtu_triples += [(a, e, b) for a in (23, 24, 517) for e in (64, 65, 517) for b in (None, 100)]
        for mt in mtu_triples:
            eff = [23 if mt[0] is None else mt[0], min(mt[1], 2048), 23 if mt[2] is None else mt[2]]
            for states in (['N'] * 6, ['I'] * 6, ['N', 'I', 'I', 'N', 'N', 'I'], ['I', 'N', 'N', 'I', 'I', 'N']):
                cases.append((states, mt, ops, notify_values(eff)))
        for p in core.split(rotate(cases, seed), ctx.jobs * 8):
            tasks.append(('notify', (p, seed)))
        ctx.log(f'notify: {len(cases)} configurations x {len(ops)} calls')

    results = core.pmap(w_any, tasks, ctx.jobs)
    confirm_results = []
    for (kind, _payload), r in zip(tasks, results):
        if kind == 'confirm':
            confirm_results.append(r)
        else:
            ctx.sub(kind).merge(r)

    if want('termination'):
        st = ctx.sub('termination')
        for (proc, script, _seed, _step), r in zip(reps + extra, confirm_results):
            st.case((proc, tuple(script), 'full'))
            st.count('requests', r['requests'])
            st.add('outcomes', (proc, 'full:' + r['outcome'].split(':')[0]))
            if r['outcome'] in ('budget', 'hang'):
                n_same = len(by_sig.get((proc, script[-1]), [])) or 1
                st.violation('termination', {'proc': proc, 'loop_item': script[-1], 'kind': r['outcome']},
                             f'{proc} against responses {script} (last one repeated forever) does not terminate: {r["requests"]} requests sent, budget {REQUEST_BUDGET} '
                             f'({n_same} scripts ending in this item repeat one identical request 300+ times)', {'sub': 'termination', 'proc': proc, 'script': script})
            elif (proc, script[-1]) in by_sig:
                # the shortcut was wrong for this class: every suspect of the class gets the full budget
                st.notes.append(f'repetition suspicion not confirmed for {proc}/{script[-1]}: re-running {len(by_sig[(proc, script[-1])])} scripts with the full budget')
                more = [(proc, s2, seed, None) for s2 in by_sig[(proc, script[-1])]]
                for (p2, s2, _a, _b), r2 in zip(more, core.pmap(term_confirm, more, ctx.jobs)):
                    st.count('full_budget_runs')
                    if r2['outcome'] in ('budget', 'hang'):
                        st.violation('termination', {'proc': p2, 'loop_item': s2[-1], 'kind': r2['outcome']}, f'{p2} against {s2}: {r2["outcome"]} after {r2["requests"]} requests',
                                     {'sub': 'termination', 'proc': p2, 'script': s2})
    for name, st in ctx.subs.items():
        ctx.log(f'{name}: {st.summary()}')

    return core.finish(
        ctx,
        LEVEL,
        rule=(
            'discovery: every database shape with at most 2 of the 5 grammar axes off the minimal database (axes: service list = 1-3 services x UUID width 16/32/128 '
            'x primary/secondary x include edges; characteristic UUID-width pattern of 0-3 characteristics; property rotation over 6 property sets; descriptor pattern '
            'of 0-2 descriptors x width; static/dynamic values); each shape on a fresh world, one fresh connection per link; links = no MTU exchange, client/server MTU '
            'preference pairs from {23,24,50,185,517}^2 (thorough: all 25; quick: 5), EATT with L2CAP MTU 64 / 2048; shapes with <=1 axis off get every link of the '
            'tier, shapes with 2 axes off a fixed subset chosen by shape index (quick 2 of 6, thorough 5-6 of 28). long_read: every value length of '
            '{0,1,MTU-4..MTU,k(MTU-1)-1..+1 (k=1,2,3),511,512} x {static, dynamic, descriptor} for every link (quick 28 links; thorough every MTU 23..517 as client and '
            'as server preference plus 9 EATT MTUs). notify: every subscription vector in {none,N,I}^6 over 3 bearers x 2 characteristics, plus <=2 cells in '
            '{unsubscribed-after-N/I, switched N->I / I->N, both bits}, each x 16 API calls (4 entry points x targets x force) x {stored value, 5 bytes}; plus MTU triples '
            'x value lengths around every bearer MTU-3. termination: per discovery procedure every script of <=3 response kinds out of 14 (last repeated forever), '
            'explored as a tree: a script is extended only when the client consumed all of it. A case is non-trivial when it is a distinct (shape, link) / '
            '(link, length) / (state vector, MTU triple) / (procedure, script).'
        ),
        assumptions=[
            'the server device is created without the default GAP/GATT services so that the database is exactly the enumerated one',
            'handles are taken from the server; order, types, grouping and values are computed by the reference model',
            'forced *_subscribers broadcasts to bearers that are not subscribed are only checked for PDU kind (the statement fixes routing for subscribed bearers)',
            'a Connection passed to notify_subscriber/indicate_subscriber stands for all bearers of that connection (bumble documents it so)',
            'independence under a faulty bearer (confirmation late / lost until the 30 s timeout, or a transmission that raises, injected at the wire tap) is demanded of the fan-out calls '
            'notify_subscribers / indicate_subscribers only, for every configuration with >= 2 subscribed bearers and each of them as the faulty one; indicate_subscriber(connection) '
            'serves the bearers of that one connection (one peer) one after the other and is not held to it',
            'non-termination is shown by exceeding 70 000 requests for one script per (procedure, repeated item); other scripts of the class are stopped after 300 identical request/response rounds',
            'writes longer than ATT_MTU-3 (prepare/execute write) are not part of the client API and are not enumerated',
        ],
    )


def replay(v: core.Violation):
    c = v.case
    msgs = []
    sub = c.get('sub')

    def collect(f):
        for check, sig, msg, _case in f.items:
            if core.canon_json(dict(sig, check=check)) == v.key:
                msgs.append(msg)

    if sub == 'discovery':
        f, _ = discovery_case(c['spec'], [tuple(c['link'])] if 'link' in c else [tuple(l) for l in c['links']], defaults=bool(c.get('defaults')))
        collect(f)
    elif sub == 'long_read':
        f, _ = long_read_case([tuple(c['link'])] if 'link' in c else [tuple(l) for l in c['links']], only_length=c.get('length'))
        collect(f)
    elif sub == 'notify':
        ops = [tuple(c['op'])] if 'op' in c else []
        values = [None if c.get('value') is None else tuple(c['value'])]
        f, _ = notify_case(c['states'], [None if x is None else x for x in c['mtus']], ops, values, faults='fault' in c, only_fault=c.get('fault'))
        collect(f)
    elif sub == 'termination':
        r = term_confirm((c['proc'], c['script'], 0, None))
        if r['outcome'] in ('budget', 'hang'):
            msgs.append(f'{c["proc"]} against {c["script"]}: {r["outcome"]} after {r["requests"]} requests')
    return msgs
