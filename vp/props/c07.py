"""C07 — LE / enhanced credit-based L2CAP channels: exact byte stream, credit discipline, progress.

Two real Device/Host/Controller stacks on a LocalLink under the virtual loop.  Device 1 runs an LE CoC server, device 0
opens a channel with `Connection.create_l2cap_channel` (LE CoC) or
`ChannelManager.create_enhanced_credit_based_channels` (enhanced, 1 or 2 channels).  Both ends then write a sequence
of byte blocks concurrently.

Observation is done by a *wire monitor* (vp/harness/c07_wire.py, no bumble imports) that wraps `Host.send_acl_sdu`
(every L2CAP frame a host emits, signalling and data) and `Host.on_l2cap_pdu` (the moment a frame reaches the other
host) on both host instances.  From the frames alone it rebuilds, per channel and direction: the negotiated MTU / MPS /
initial credits, the credit ledger (initial + credits in flow-control frames already *delivered* to the sender - data
frames sent), the SDU segmentation and the byte stream.  An optional CID-translating shim in the same wrapper makes
one device's dynamic CIDs appear +5 to the other, so each end talks to a peer whose identifiers differ from its own
allocation.

Oracle (per direction of each channel; nothing else):
  stream      bytes handed to the receiver's sink == bytes written, in order (also: bytes on the wire == bytes written)
  credit      when a data frame is sent, ledger >= 1
  mps / mtu   every frame payload <= receiver's MPS; every SDU length <= receiver's MTU; frames add up to the SDU
  progress    with a sink that takes everything, every write arrives and drain() returns before quiescence

Sub-checks: `params` = (mtu, mps, credits) x write-size sequences under stock scheduling; `sched` = order-preserving
delivery delays (vp/explore.py) on credit-starved configurations; `early` = the server writes from its connection
handler (data right behind / ahead of the response).
"""
from __future__ import annotations

import asyncio
import contextlib
import hashlib
import itertools
import os

from .. import core, explore
from ..harness import c07_wire as wire
from ..harness.devices import World
from ..vloop import Hang, StepBudgetExceeded

LEVEL = 'exploration'

DEF = (2048, 2048, 256)  # bumble's LeCreditBasedChannelSpec defaults
MTUS = [23, 24, 100, 65535]
MPSS = [23, 24, 64, 2046, 65533]
CREDS = [1, 2, 3, 65535]
KINDS = ['coc', 'enh1', 'enh2']
SHIMS = ['off', 'client', 'server']
SHIM_DELTA = 5
PSM = 0x81

# ---------------------------------------------------------------------------
# payload bytes: one long aperiodic master string; each (channel, direction) writes a slice of it, so a
# duplicated / dropped / reordered / cross-routed block shows as a mismatch
# ---------------------------------------------------------------------------
_MASTER = None


def master(n):
    global _MASTER
    if _MASTER is None or len(_MASTER) < n:
        out = bytearray()
        i = 0
        while len(out) < max(n, 1 << 20):
            out += hashlib.sha256(b'c07:%d' % i).digest()
            i += 1
        _MASTER = bytes(out)
    return _MASTER


def stream_bytes(lane: int, total: int) -> bytes:
    # VERIF_SEED only picks which slice of the master string is used as fill bytes
    off = 4099 * lane + 17 + 131 * (int(os.environ.get('VERIF_SEED', '0') or 0) % 64)
    m = master(off + total)
    return m[off : off + total]


# ---------------------------------------------------------------------------
# the write-size alphabet of DESIGN §3 C07, relative to the *receiver's* mtu/mps
# ---------------------------------------------------------------------------
def size_alphabet(peer_mtu, peer_mps):
    vals = [1, peer_mps - 3, peer_mps - 2, peer_mps - 1, peer_mps, peer_mtu - 1, peer_mtu, peer_mtu + 1, 2 * peer_mtu + 1]
    out = []
    for v in vals:
        if v >= 1 and v not in out:
            out.append(v)
    return out


# ---------------------------------------------------------------------------
# one execution
# ---------------------------------------------------------------------------
class Tap:
    """Wraps the L2CAP send / receive seams of both hosts; feeds the monitor; applies the CID shim."""

    def __init__(self, w, mon, shim, absorb_data_from=()):
        self.mon = mon
        self.shim_side = {'off': None, 'client': 0, 'server': 1}[shim]
        self.harness_errors = []
        # sides whose data frames are seen (and accounted) by the monitor but not carried any further: a wire
        # short-circuit for experiments that only ask how many frames a sender is able to emit
        self.absorb = set(absorb_data_from)
        self.absorbed = 0
        for side in (0, 1):
            self._wrap(w.hosts[side], side)

    def _wrap(self, host, side):
        real_send = host.send_acl_sdu  # bound method of the class
        real_recv = host.on_l2cap_pdu
        mon = self.mon
        shim = self.shim_side

        def send_acl_sdu(connection_handle, sdu):
            sdu = bytes(sdu)
            if side in self.absorb and len(sdu) >= 4 and (sdu[2] | (sdu[3] << 8)) >= wire.DYN_FIRST:
                mon.sent(side, sdu)
                mon.inflight[1 - side].pop()  # never delivered
                self.absorbed += 1
                return None
            if shim is None:
                mon.sent(side, sdu)
                return real_send(connection_handle, sdu)
            if side == shim:
                w_ = wire.translate(sdu, True, SHIM_DELTA)  # local view -> wire view
                mon.sent(side, w_)
                return real_send(connection_handle, w_)
            mon.sent(side, sdu)  # the other device speaks the wire view; un-translate for the shimmed device
            return real_send(connection_handle, wire.translate(sdu, False, SHIM_DELTA))

        def on_l2cap_pdu(connection, cid, pdu):
            d = mon.delivered(side)
            if d is not None and shim is None:
                # harness self-check: FIFO pairing of sent and delivered frames
                if d.get('kind') == 'data' and (d['cid'] != cid or d['payload'] != pdu):
                    self.harness_errors.append(f'delivery to side {side} does not match the oldest frame in flight')
            return real_recv(connection, cid, pdu)

        host.send_acl_sdu = send_acl_sdu
        host.on_l2cap_pdu = on_l2cap_pdu


def mk_spec(t, psm=None):
    from bumble import l2cap

    return l2cap.LeCreditBasedChannelSpec(psm=psm, mtu=t[0], mps=t[1], max_credits=t[2])


def acl_len_for(case):
    if case.get('acl'):
        return case['acl']
    big = max(max(case['wc'], default=0), max(case['ws'], default=0))
    return 27 if big <= 300 else (251 if big <= 5000 else 1021)


def run_case(case, prefix=None, fp=None, want_obs=False):
    """case: {'kind','shim','c':(mtu,mps,cr),'s':(...),'wc':[sizes],'ws':[sizes],'style':..,'early':bool}
    Returns {'viol': [(check, sig, msg)], 'obs': ..., 'points': [...], 'fp': [...], 'cov': {...}}"""
    kind, shim = case['kind'], case['shim']
    nchan = 2 if kind == 'enh2' else 1
    style = case.get('style', 'yield')
    early = case.get('early', False)
    viol = []
    lost_lanes = set()
    acl = acl_len_for(case)
    with World(2, controller_attrs={0: {'le_acl_data_packet_length': acl}, 1: {'le_acl_data_packet_length': acl}}) as w:
        w.power_on()
        c_conn, _p_conn = w.connect_le()
        mon = wire.Monitor()
        tap = Tap(w, mon, shim)
        loop = w.loop
        sched = None
        if prefix is not None:
            sched = explore.Sched(prefix, hold=True, expect_fp=fp)
            loop.scheduler = sched

        # what each lane writes: lane = (channel index, direction)
        wc, ws = list(case['wc']), list(case['ws'])
        lanes = {}
        for i in range(nchan):
            # second channel of an enhanced pair writes the same sizes in reverse order
            lanes[(i, 'c2s')] = wc if i == 0 else wc[::-1]
            lanes[(i, 's2c')] = ws if i == 0 else ws[::-1]
        data = {k: stream_bytes(2 * k[0] + (k[1] == 's2c'), sum(v)) for k, v in lanes.items()}
        got = {k: bytearray() for k in lanes}
        sdus_in = {k: [] for k in lanes}
        written = {k: 0 for k in lanes}
        done = {k: not lanes[k] for k in lanes}
        server_chans = []
        writer_tasks = []

        def make_sink(key):
            def sink(b):
                got[key] += b
                sdus_in[key].append(len(b))

            return sink

        async def writer(ch, key, skip=0):
            blob, off = data[key], sum(lanes[key][:skip])
            for n in lanes[key][skip:]:
                ch.write(blob[off : off + n])
                off += n
                written[key] = off
                if style == 'yield':
                    await asyncio.sleep(0)
                elif style == 'drain':
                    await ch.drain()
            await ch.drain()
            done[key] = True

        def on_server_channel(ch):
            i = len(server_chans)
            server_chans.append(ch)
            ch.sink = make_sink((i, 'c2s'))
            if early and lanes.get((i, 's2c')):
                # the application writes from its connection handler, as soon as it is handed the open channel
                key = (i, 's2c')
                n = lanes[key][0]
                ch.write(data[key][:n])
                written[key] = n
                writer_tasks.append(loop.create_task(writer(ch, key, skip=1)))

        w.devices[1].create_l2cap_server(mk_spec(case['s'], PSM), on_server_channel)

        async def open_channels():
            if kind == 'coc':
                return [await c_conn.create_l2cap_channel(mk_spec(case['c'], PSM))]
            return await w.devices[0].l2cap_channel_manager.create_enhanced_credit_based_channels(c_conn, mk_spec(case['c'], PSM), nchan)

        sigbase = {'kind': 'le_coc' if kind == 'coc' else 'enhanced', 'shim': shim}
        if early:
            sigbase['phase'] = 'write_from_connection_handler'
        if early and sched is not None:
            sched.active = True
        setup = loop.create_task(open_channels())
        try:
            loop.run_until(setup.done, horizon=loop.time() + 5.0, max_steps=100000)
        except StepBudgetExceeded:
            pass
        client_chans = None
        if not setup.done():
            viol.append(('setup_hang', dict(sigbase, what='open_never_completes'), f'channel creation still pending at quiescence: {mon.trace()}'))
        elif setup.exception() is not None:
            viol.append(('setup_error', dict(sigbase, what='open_raises', exc=type(setup.exception()).__name__), f'channel creation raised {setup.exception()!r}: {mon.trace()}'))
        else:
            client_chans = setup.result()
        if client_chans is not None:
            for i, ch in enumerate(client_chans):
                ch.sink = make_sink((i, 's2c'))
            if not early:
                loop.run_quiescent(max_steps=100000)
            if len(server_chans) != nchan and not early:
                viol.append(('setup_server', dict(sigbase, what='server_handler_count'), f'server handler saw {len(server_chans)} channels, {nchan} opened'))
            # ---- transfer window ------------------------------------------------------------------------------------
            for i, ch in enumerate(client_chans):
                if lanes[(i, 'c2s')]:
                    writer_tasks.append(loop.create_task(writer(ch, (i, 'c2s'))))
            if not early:
                for i, ch in enumerate(server_chans[:nchan]):
                    if lanes[(i, 's2c')]:
                        writer_tasks.append(loop.create_task(writer(ch, (i, 's2c'))))
            if sched is not None:
                sched.active = True

            def finished():
                return all(done.values()) and all(len(got[k]) >= len(data[k]) for k in lanes)

            budget_hit = False
            try:
                loop.run_until(finished, horizon=loop.time() + 30.0, max_steps=2000000)
                loop.run_quiescent(max_steps=200000)
            except StepBudgetExceeded:
                budget_hit = True
            if sched is not None:
                sched.active = False
            if budget_hit:
                viol.append(('harness_budget', dict(sigbase, what='step_budget'), 'step budget exceeded during the transfer'))

            # ---- verdicts -------------------------------------------------------------------------------------------
            for key in sorted(lanes):
                i, direction = key
                sender_side = 0 if direction == 'c2s' else 1
                mch = mon.channel(0, i)
                dr = mch.dirs[sender_side] if mch is not None else None
                want = data[key]
                have = bytes(got[key])
                lsig = dict(sigbase, dir=direction)
                onwire = bytes(dr.stream) if dr is not None else b''
                wire_ok = onwire == want
                # (1) the bytes carried by the data frames are a prefix of the bytes written (sender side of the stream)
                if not want.startswith(onwire):
                    first = next((j for j, (a, b) in enumerate(zip(onwire, want)) if a != b), min(len(onwire), len(want)))
                    viol.append(
                        (
                            'wire_stream_mismatch',
                            dict(lsig, what='wire_bytes_differ'),
                            f'{direction} ch{i}: bytes carried by the data frames differ from the bytes written {lanes[key]} at offset {first} '
                            f'(SDUs on the wire {dr.sdus[:8]}): {mon.trace()}',
                        )
                    )
                # (2) what the sink got is exactly what the completed SDUs on the wire carry (receiver side)
                expect_sink = onwire[: dr.complete_len] if dr is not None else b''
                if have != expect_sink:
                    first = next((j for j, (a, b) in enumerate(zip(have, expect_sink)) if a != b), min(len(have), len(expect_sink)))
                    cls = 'lost' if len(have) < len(expect_sink) else ('extra' if len(have) > len(expect_sink) else 'altered')
                    viol.append(
                        (
                            'stream_mismatch',
                            dict(lsig, what='sink_differs_from_wire', cls=cls),
                            f'{direction} ch{i}: completed SDUs on the wire carry {len(expect_sink)} bytes ({dr.sdus[:8] if dr else None}), the sink got {len(have)} '
                            f'(SDUs {sdus_in[key][:8]}); first difference at {first}; written {lanes[key]}; {mon.trace()}',
                        )
                    )
                    if cls == 'lost':
                        lost_lanes.add(key)
                # (3) progress: everything written arrives and drain() returns
                if not done[key] or len(have) < len(want):
                    ledger = (dr.granted - dr.sent) if dr is not None else None
                    if dr is None:
                        cause = 'no_channel_on_wire'
                    elif len(onwire) < written[key] and ledger > 0:
                        cause = 'sender_idle_with_credits'
                    elif len(onwire) < written[key]:
                        cause = 'sender_out_of_credits'
                    elif len(have) < len(onwire):
                        cause = 'receiver_did_not_deliver'
                    else:
                        cause = 'drain_pending'
                    if cause == 'receiver_did_not_deliver' and key in lost_lanes:
                        continue  # consequence of the loss already reported for this lane
                    viol.append(
                        (
                            'no_progress',
                            dict(lsig, what='transfer_incomplete', cause=cause),
                            f'{direction} ch{i}: at quiescence wrote {written[key]}/{len(want)} bytes {lanes[key]}, on the wire {len(onwire)}, at the sink {len(have)}, '
                            f'drain() {"returned" if done[key] else "pending"}; wire ledger of the sender {ledger}; {mon.trace()}',
                        )
                    )
        for check, sig, msg in mon.problems:
            viol.append((check, dict(sigbase, **sig), msg + ' | ' + mon.trace()))
        for e in tap.harness_errors:
            viol.append(('harness_tap', {'what': 'tap'}, e))
        excs = loop.collect_exceptions()
        for msg, exc in excs:
            viol.append(('exception', dict(sigbase, what='exception', exc=exc.split('(')[0]), f'{msg}: {exc} | {mon.trace()}'))
        for t in writer_tasks:
            if t.done() and not t.cancelled() and t.exception() is not None:
                viol.append(('exception', dict(sigbase, what='writer_raises', exc=type(t.exception()).__name__), f'write()/drain() raised {t.exception()!r}'))

        cov = {}
        obs = []
        for ch in mon.chans:
            for side in (0, 1):
                dr = ch.dirs[side]
                obs.append((ch.ccid, ch.scid, side, tuple(dr.frames), tuple(dr.credit_frames), dr.min_ledger))
                cov[(ch.enhanced, side)] = (len(dr.frames), len(dr.sdus), len(dr.credit_frames), dr.min_ledger, dr.zero_credit_waits)
        res = {'viol': viol, 'cov': cov, 'n_data': mon.n_data, 'n_sig': mon.n_sig, 'steps': loop.steps}
        res['obs'] = [obs, sorted(set(v[0] for v in viol)), mon.log if want_obs else core.digest(mon.log)]
        if sched is not None:
            res['points'] = sched.points
            res['fp'] = sched.fp
        return res


# ---------------------------------------------------------------------------
# credit arithmetic at the top of the 16-bit range
# ---------------------------------------------------------------------------
TOP_BALANCES = [0, 1, 2, 32766, 32767, 32768, 65533, 65534, 65535]
TOP_TOTALS = [65533, 65534, 65535]
TOP_RX = (65535, 23)  # receiver's (mtu, mps) in these runs: one written burst becomes 2850-frame SDUs
TOP_FPS = (TOP_RX[0] + 2 + TOP_RX[1] - 1) // TOP_RX[1]  # frames per full SDU


def bytes_for_frames(n):
    """Size of ONE write that the sender must cut into exactly n frames (full-MTU SDUs, then a shorter one)."""
    full, r = divmod(n, TOP_FPS)
    return full * TOP_RX[0] + (r * TOP_RX[1] - 2 if r else 0)


@contextlib.contextmanager
def open_pair(kind, c, s, acl, absorb=()):
    """World + LE connection + one channel (LE CoC or enhanced x1) with the monitor and tap installed.
    Yields a dict, or raises SetupFailed."""
    with World(2, controller_attrs={0: {'le_acl_data_packet_length': acl}, 1: {'le_acl_data_packet_length': acl}}) as w:
        w.power_on()
        c_conn, p_conn = w.connect_le()
        mon = wire.Monitor()
        tap = Tap(w, mon, 'off', absorb_data_from=absorb)
        server_chans = []
        w.devices[1].create_l2cap_server(mk_spec(s, PSM), server_chans.append)

        async def go():
            if kind == 'coc':
                return await c_conn.create_l2cap_channel(mk_spec(c, PSM))
            return (await w.devices[0].l2cap_channel_manager.create_enhanced_credit_based_channels(c_conn, mk_spec(c, PSM), 1))[0]

        cch = w.run(go(), horizon=w.loop.time() + 5.0)
        w.settle()
        yield {'w': w, 'mon': mon, 'tap': tap, 'conns': [c_conn, p_conn], 'chans': [cch, server_chans[0]]}


def run_top(case):
    """case: {'kind', 'sender': 0|1, 'I': initial credits, 'c': balance when the grant arrives, 'g': grant,
    'pending': sender has data queued (only with c == 0)}.  The sender's data frames are absorbed behind the
    monitor, so the peer's real channel stays passive and the only grants are the initial credits and the injected
    LE Flow Control Credit packet, which travels the real path (peer host -> link -> sender's host -> ChannelManager)."""
    kind, snd, I, c, g = case['kind'], case['sender'], case['I'], case['c'], case['g']
    pending = case.get('pending', False)
    rcv = 1 - snd
    specs = [DEF, DEF]
    specs[rcv] = (TOP_RX[0], TOP_RX[1], I)
    sig = {'kind': 'le_coc' if kind == 'coc' else 'enhanced', 'sender': 'client' if snd == 0 else 'server'}
    viol = []
    with open_pair(kind, specs[0], specs[1], 251, absorb=(snd,)) as p:
        w, mon = p['w'], p['mon']
        ch = p['chans'][snd]
        p['chans'][rcv].sink = lambda b: None
        mch = mon.channel(0, 0)
        dr = mch.dirs[snd]
        own_cid_of_receiver = mch.scid if rcv == 1 else mch.ccid
        T = c + g
        extra = 3 if pending else 0
        n1, n2 = I - c + extra, T + 7
        blob = stream_bytes(snd, bytes_for_frames(n1) + bytes_for_frames(n2))
        b1 = bytes_for_frames(n1)
        if b1:
            ch.write(blob[:b1])
        w.settle()
        if dr.sent != I - c:
            viol.append(('credit_top', dict(sig, what='initial_credits_not_usable', initial=I), f'with {I} initial credits and {n1} frames to send, {dr.sent} frames were sent (expected {I - c})'))
        at_grant = dr.sent
        w.devices[rcv].send_l2cap_pdu(p['conns'][rcv].handle, wire.LE_SIG_CID, wire.encode_credit(0xE1, own_cid_of_receiver, g))
        w.settle()
        ch.write(blob[b1:])
        w.settle()
        usable = dr.sent - at_grant
        if dr.granted != I + g:
            viol.append(('harness_top', {'what': 'ledger'}, f'wire ledger counts {dr.granted} granted credits, expected {I}+{g}'))
        if usable < T and not viol:
            viol.append(
                (
                    'credit_top',
                    dict(sig, what='granted_credits_not_usable', balance_after_grant=T),
                    f'sender holding {c} credits (initial {I}, {I - c} frames sent{", data queued" if pending else ", idle"}) was granted {g}: balance {T} <= 65535, '
                    f'but it then sent only {usable} of {n2 + extra} queued frames (wire ledger still {dr.granted - dr.sent})',
                )
            )
        want = blob[: len(dr.stream)]
        if bytes(dr.stream) != want:
            viol.append(('wire_stream_mismatch', dict(sig, what='wire_bytes_differ', phase='top'), 'bytes carried by the data frames differ from the bytes written'))
        for check, sg, msg in mon.problems:
            viol.append((check, dict(sig, **sg, phase='top'), msg))
        for msg, exc in w.loop.collect_exceptions():
            viol.append(('exception', dict(sig, what='exception', exc=exc.split('(')[0], phase='top'), f'{msg}: {exc}'))
        return {'viol': viol, 'frames': dr.sent, 'usable': usable}


def top_cases(quick):
    """Every (balance c, grant g) with c in TOP_BALANCES and c + g in TOP_TOTALS, g >= 1.
    (a) c is what the peer granted initially (c == 0: one initial credit, spent; also with data queued);
    (b) c is what is left of 65533 / 65534 / 65535 initial credits after sending the difference.
    thorough: (a) and (b) for both channel kinds and both sender roles.  quick: (a) for LE CoC in both roles, and on
    the enhanced server for c in {0, 32767}; (b) from 65535 on the LE CoC client for c in {0, 32767, 65534}."""
    out = []
    pairs = [(c, t - c) for c in TOP_BALANCES for t in TOP_TOTALS if t - c >= 1]
    for kind in ('coc', 'enh1'):
        for snd in (0, 1):
            for c, g in pairs:
                if not quick or kind == 'coc' or (snd == 1 and c in (0, 32767)):
                    out.append({'kind': kind, 'sender': snd, 'I': max(c, 1), 'c': c, 'g': g})
                    if c == 0:
                        out.append({'kind': kind, 'sender': snd, 'I': 1, 'c': 0, 'g': g, 'pending': True})
                for I in (65533, 65534, 65535):
                    if quick and not (I == 65535 and (kind, snd) == ('coc', 0) and c in (0, 32767, 65534)):
                        continue
                    if I > c and I != max(c, 1):
                        out.append({'kind': kind, 'sender': snd, 'I': I, 'c': c, 'g': g})
    return out


def w_top(chunk):
    st = core.Stats('top')
    for case in chunk:
        r = run_top(case)
        st.case((case['kind'], case['sender'], case['I'], case['c'], case['g'], case.get('pending', False)), sample={'case': case, 'frames_sent': r['frames'], 'usable_after_grant': r['usable']})
        st.count('data_frames', r['frames'])
        st.add('balance_x_total', (case['c'], case['c'] + case['g']))
        st.add('initial_credits', case['I'])
        for check, sg, msg in r['viol']:
            st.violation(check, sg, msg, {'top': case})
    return st


def run_long(case):
    """One end-to-end transfer, both directions, initial credits 65535 on both sides, one-frame SDUs: 32768 frames,
    wait until everything is quiet (the half-way credit return of 32768 reaches an idle sender holding 32767), then
    32768 + 300 more."""
    kind = case['kind']
    t = (23, 64, 65535)
    sig = {'kind': 'le_coc' if kind == 'coc' else 'enhanced', 'phase': 'long_transfer'}
    viol = []
    n1, n2 = 32768, 32768 + 300
    with open_pair(kind, t, t, 251) as p:
        w, mon = p['w'], p['mon']
        got = [bytearray(), bytearray()]
        p['chans'][0].sink = got[1].__iadd__  # client's sink receives what side 1 wrote
        p['chans'][1].sink = got[0].__iadd__
        blobs = [stream_bytes(s_, 23 * (n1 + n2)) for s_ in (0, 1)]
        mch = mon.channel(0, 0)

        def burst(lo, hi):
            for s_ in (0, 1):
                ch, blob = p['chans'][s_], blobs[s_]
                for i in range(lo, hi):
                    ch.write(blob[23 * i : 23 * i + 23])

        burst(0, n1)
        w.loop.run_quiescent(max_steps=20000000)
        half = [(mch.dirs[s_].sent, list(mch.dirs[s_].credit_frames)) for s_ in (0, 1)]
        burst(n1, n1 + n2)
        w.loop.run_quiescent(max_steps=20000000)
        drains = [w.loop.create_task(p['chans'][s_].drain()) for s_ in (0, 1)]
        w.loop.run_quiescent(max_steps=100000)
        for s_ in (0, 1):
            dr = mch.dirs[s_]
            lsig = dict(sig, dir='c2s' if s_ == 0 else 's2c')
            if bytes(dr.stream) != blobs[s_][: len(dr.stream)]:
                viol.append(('wire_stream_mismatch', dict(lsig, what='wire_bytes_differ'), 'bytes carried by the data frames differ from the bytes written'))
            if bytes(got[s_]) != bytes(dr.stream[: dr.complete_len]):
                viol.append(('stream_mismatch', dict(lsig, what='sink_differs_from_wire'), f'sink got {len(got[s_])} bytes, completed SDUs on the wire carry {dr.complete_len}'))
            if len(got[s_]) < len(blobs[s_]) or not drains[s_].done():
                ledger = dr.granted - dr.sent
                cause = 'sender_idle_with_credits' if dr.sent < n1 + n2 and ledger > 0 else ('sender_out_of_credits' if dr.sent < n1 + n2 else ('receiver_did_not_deliver' if len(got[s_]) < len(dr.stream) else 'drain_pending'))
                viol.append(
                    (
                        'no_progress',
                        dict(lsig, what='transfer_incomplete', cause=cause),
                        f'{n1 + n2} one-frame SDUs written, {dr.sent} frames on the wire, {len(got[s_]) // 23} SDUs at the sink; wire ledger of the sender {ledger}; '
                        f'credit frames delivered {dr.credit_frames[:4]}; at the pause: {half[s_]}',
                    )
                )
        for check, sg, msg in mon.problems:
            viol.append((check, dict(sig, **sg), msg))
        for msg, exc in w.loop.collect_exceptions():
            viol.append(('exception', dict(sig, what='exception', exc=exc.split('(')[0]), f'{msg}: {exc}'))
        return {'viol': viol, 'half': half, 'frames': [mch.dirs[s_].sent for s_ in (0, 1)], 'credit_frames': [list(mch.dirs[s_].credit_frames) for s_ in (0, 1)]}


def w_top_or_long(item):
    return w_long(item[1]) if item[0] == 'long' else w_top(item[1])


def w_long(case):
    st = core.Stats('long')
    r = run_long(case)
    st.case(case['kind'], sample={'case': case, 'frames': r['frames'], 'credit_frames': r['credit_frames'], 'at_pause': r['half']})
    st.count('data_frames', sum(r['frames']))
    for s_ in (0, 1):
        if r['half'][s_] == (32768, [32768]):
            st.count('lanes_idle_holding_32767_when_32768_credits_arrived')
    for check, sg, msg in r['viol']:
        st.violation(check, sg, msg, {'long': case})
    return st


# ---------------------------------------------------------------------------
# the parameter space
# ---------------------------------------------------------------------------
def param_configs(k):
    """(client triple, server triple) with <= k of the six parameters off bumble's default."""
    dims = []
    for side in (0, 1):
        dims.append([(side, 0, v) for v in MTUS])
        dims.append([(side, 1, v) for v in MPSS])
        dims.append([(side, 2, v) for v in CREDS])
    out = [(DEF, DEF)]
    for r in range(1, k + 1):
        for chosen in itertools.combinations(range(6), r):
            for vals in itertools.product(*(dims[i] for i in chosen)):
                t = [list(DEF), list(DEF)]
                for side, idx, v in vals:
                    t[side][idx] = v
                out.append((tuple(t[0]), tuple(t[1])))
    return out


MULTI_WRITE_FRAME_LIMIT = 300


def est_frames(size, peer_mps):
    return (size + 2 + peer_mps - 1) // peer_mps


def cases_for(kind, shim, c, s, max_len, style='yield', min_len=1):
    """Both directions use the sequence with the same index, each relative to its own receiver.  Sequences of more
    than one write only use sizes that need <= MULTI_WRITE_FRAME_LIMIT frames (the 64 KiB-over-23-byte-frames writes
    appear alone)."""
    ac = size_alphabet(s[0], s[1])  # client writes, server receives
    as_ = size_alphabet(c[0], c[1])
    for k in range(min_len, max_len + 1):
        if k == 1:
            a1, a2 = ac, as_
        else:
            a1 = [v for v in ac if est_frames(v, s[1]) <= MULTI_WRITE_FRAME_LIMIT]
            a2 = [v for v in as_ if est_frames(v, c[1]) <= MULTI_WRITE_FRAME_LIMIT]
        # alphabets may differ in length after de-duplication: iterate the longer, wrap the shorter
        m = max(len(a1), len(a2))
        for seq in itertools.product(range(m), repeat=k):
            yield {
                'kind': kind,
                'shim': shim,
                'c': c,
                's': s,
                'wc': [a1[i % len(a1)] for i in seq],
                'ws': [a2[i % len(a2)] for i in seq],
                'style': style,
            }


def w_params(chunk):
    st = core.Stats('params')
    for case in chunk:
        r = run_case(case)
        key = (case['kind'], case['shim'], case['c'], case['s'], tuple(case['wc']), tuple(case['ws']), case['style'])
        st.case(key, sample={'case': case, 'frames': r['n_data'], 'sig': r['n_sig']})
        record(st, case, r)
    return st


def record(st, case, r):
    st.count('data_frames', r['n_data'])
    st.count('signalling_frames', r['n_sig'])
    for (enh, side), (nf, ns, ncf, minl, zw) in r['cov'].items():
        st.add('frames_per_lane', min(nf, 50))
        st.add('sdus_per_lane', min(ns, 20))
        st.add('credit_frames_per_lane', min(ncf, 50))
        st.add('min_ledger', min(minl, 5))
        if zw:
            st.count('lanes_that_ran_out_of_credits')
        if ns and nf > ns:
            st.count('lanes_with_segmented_sdus')
    for check, sig, msg in r['viol']:
        st.violation(check, sig, msg, {'case': case})


# ---------------------------------------------------------------------------
# schedule exploration
# ---------------------------------------------------------------------------
def run_sched(params, prefix, fp):
    return run_case(params, prefix=prefix, fp=fp)


def sched_configs(quick):
    """(case, deviation bound).  Credit-starved channels: every SDU is segmented, each frame or two needs a credit
    round trip, traffic flows both ways, so data frames, credit frames and the writers' task steps interleave."""
    out = []
    tight = [(23, 23, 1), (23, 23, 2), (100, 23, 3)]
    for kind, shim in (('coc', 'off'), ('coc', 'client'), ('enh1', 'off'), ('enh2', 'off'), ('enh2', 'server')):
        for t in tight:
            mtu, mps, _ = t
            wcs = [[2 * mtu + 1], [mtu + 1, 1]] if quick else [[2 * mtu + 1], [mtu + 1, 1], [mps, mtu, 1]]
            for wseq in wcs:
                if quick and (t == tight[1] or (kind != 'coc' and t != tight[0]) or (kind, shim) == ('enh2', 'server')):
                    continue
                out.append(({'kind': kind, 'shim': shim, 'c': t, 's': t, 'wc': wseq, 'ws': wseq[::-1], 'style': 'yield', 'acl': 27}, 1))
    if not quick:
        # two deviations, on the shortest credit-starved transfers
        for kind in ('coc', 'enh1'):
            for t in ((23, 23, 1), (23, 23, 2)):
                out.append(({'kind': kind, 'shim': 'off', 'c': t, 's': t, 'wc': [24, 1], 'ws': [24], 'style': 'yield', 'acl': 27}, 2))
    return out


def early_configs(quick):
    out = []
    for kind in KINDS:
        for t in (DEF, (23, 23, 1)) if quick else (DEF, (23, 23, 1), (100, 23, 2)):
            for ws in ([10, 20], [t[0] + 1]) if quick else ([10], [10, 20], [t[0] + 1]):
                deep = not quick and kind != 'enh2' and t == (23, 23, 1) and ws == [10, 20]
                out.append(({'kind': kind, 'shim': 'off', 'c': t, 's': t, 'wc': [5], 'ws': ws, 'style': 'yield', 'early': True, 'acl': 27}, 2 if deep else 1))
    return out


def w_sched(arg):
    name, case, bound, max_runs = arg
    st = core.Stats(name)
    explore.explore(run_sched, case, bound, 1, st, max_runs=max_runs, label='')
    st.count(f'configs_bound_{bound}')
    return st


# ---------------------------------------------------------------------------
def run(ctx: core.Context) -> int:
    quick = ctx.quick
    only = getattr(ctx, 'only', None)
    if not only or 'params' in only:
        cases = []
        # LE CoC, no shim: k <= 2 parameters off default
        for c, s in param_configs(2):
            off = sum(1 for a, b in zip(c + s, DEF + DEF) if a != b)
            max_len = (2 if off <= 1 else 1) if quick else (3 if off <= 1 else 2)
            cases.extend(cases_for('coc', 'off', c, s, max_len))
        # every other (kind, shim): k <= 1
        for kind in KINDS:
            for shim in SHIMS:
                if (kind, shim) == ('coc', 'off'):
                    continue
                for c, s in param_configs(1):
                    cases.extend(cases_for(kind, shim, c, s, 1 if quick else 2))
        # write styles: burst (all writes in one task step) and drain-between-writes, on the single-parameter configs
        # (a single write is the same run in every style)
        for style in ('burst',) if quick else ('burst', 'drain'):
            for c, s in param_configs(1):
                if quick and (c[2], s[2]) == (DEF[2], DEF[2]) and (c, s) != (DEF, DEF):
                    continue  # quick: default and credit-limited configurations only
                cases.extend(cases_for('coc', 'off', c, s, 2 if quick else 3, style, min_len=2))
        if quick:
            # the 64 KiB-SDU-over-23-byte-frames transfers (thousands of frames, ~2 s each) are left to the thorough tier
            n0 = len(cases)
            cases = [cs for cs in cases if max(est_frames(v, cs['s'][1]) for v in cs['wc']) <= 1000 and max(est_frames(v, cs['c'][1]) for v in cs['ws']) <= 1000]
            ctx.sub('params').notes.append(f'quick tier leaves {n0 - len(cases)} single-write cases of more than 1000 frames to the thorough tier')
        # cost-sort so the big transfers are spread over the workers
        cases.sort(key=lambda cs: -(sum(cs['wc']) + sum(cs['ws'])))
        ctx.log(f'params: {len(cases)} cases')
        st = ctx.sub('params')
        for r in core.pmap(w_params, core.split(cases, ctx.jobs * 8), ctx.jobs):
            st.merge(r)
        ctx.log('params:', st.summary())
    if not only or 'top' in only or 'long' in only:
        # one pool pass: the two long transfers (~13 s each) run beside the credit-arithmetic cases
        items = []
        if not only or 'long' in only:
            items += [('long', {'kind': 'coc'}), ('long', {'kind': 'enh1'})]
        if not only or 'top' in only:
            items += [('top', ch) for ch in core.split(top_cases(quick), ctx.jobs * 3)]
        for (name, _), r in zip(items, core.pmap(w_top_or_long, items, ctx.jobs)):
            ctx.sub(name).merge(r)
        for name in ('top', 'long'):
            if name in ctx.subs:
                ctx.log(f'{name}:', ctx.sub(name).summary())
    if not only or 'wrap' in only:
        for r in core.pmap(w_wrap, [[c] for c in wrap_cases(quick)], ctx.jobs):
            ctx.sub('wrap').merge(r)
        ctx.log('wrap:', ctx.sub('wrap').summary())
    if not only or 'crossed' in only:
        for r in core.pmap(w_crossed, core.split(crossed_cases(quick), ctx.jobs), ctx.jobs):
            ctx.sub('crossed').merge(r)
        ctx.log('crossed:', ctx.sub('crossed').summary())
    if not only or 'sched' in only:
        st = ctx.sub('sched')
        items = [('sched', c, b, 20000) for c, b in sched_configs(quick)]
        items.sort(key=lambda it: -it[2])
        for r in core.pmap(w_sched, items, ctx.jobs):
            st.merge(r)
        ctx.log('sched:', st.summary())
    if not only or 'early' in only:
        st = ctx.sub('early')
        items = [('early', c, b, 20000) for c, b in early_configs(quick)]
        items.sort(key=lambda it: -it[2])
        for r in core.pmap(w_sched, items, ctx.jobs):
            st.merge(r)
        ctx.log('early:', st.summary())
    return core.finish(
        ctx,
        LEVEL,
        rule=(
            'params: one fresh two-device world per case; (client, server) x (mtu, mps, max_credits) from {23,24,100,2048,65535} x {23,24,64,2046,2048,65533} x '
            '{1,2,3,256,65535} with <= 2 of the 6 parameters off default for LE CoC without shim and <= 1 for the other 8 (kind in LE CoC / enhanced x1 / '
            'enhanced x2, CID shim in off / client / server) pairs, x every write-size sequence up to the tier length over '
            '{1, mps-3, mps-2, mps-1, mps, mtu-1, mtu, mtu+1, 2mtu+1} (receiver\'s mtu/mps) in both directions at once, x write style (yield / burst / drain '
            'between writes); distinct = (kind, shim, parameters, write sizes, style). sched: credit-starved transfers, every order-preserving delivery delay '
            'with <= d deviations during the transfer. early: the server writes from its connection handler, schedules with <= d deviations from the '
            'connection request on; distinct = (schedule prefix, choice fingerprints); outcomes = distinct wire traces. top: every (balance c, grant g), '
            'c in {0,1,2,32766,32767,32768,65533,65534,65535}, c+g in {65533,65534,65535}, reached from initial credits c or from 65533..65535, per channel '
            'kind and sender role; the grant is an injected LE Flow Control Credit packet on the real receive path, the frames the sender then emits are '
            'counted on the wire. long: 32768 one-frame SDUs, pause, 33068 more, both directions, initial credits 65535.'
        ),
        assumptions=[
            'both ends are bumble; the CID shim only renames identifiers',
            'the receiving application consumes every SDU synchronously in its sink',
            'ACL fragment size is 27/251/1021 depending on the transfer size (fragmentation itself is C05)',
        ],
    )


def replay(v: core.Violation):
    c = v.case
    if 'top' in c:
        res = run_top(c['top'])
    elif 'long' in c:
        res = run_long(c['long'])
    elif 'crossed' in c:
        res = run_crossed(c['crossed'])
    elif 'wrap' in c:
        res = run_wrap(c['wrap'])
    elif 'prefix' in c:
        res = run_case(c['params'], prefix=c['prefix'], fp=None)
    else:
        res = run_case(c['case'])
    return [m for ck, sig, m in res['viol'] if ck == v.check and core.canon_json(dict(sig, check=ck)) == v.key]


# ---------------------------------------------------------------------------
# crossed: both devices open channels towards each other AT THE SAME TIME, so that on each device the channel it opened
# and the channel it accepted have crossed identifiers (X: local 0x40 / peer 0x41, Y: local 0x41 / peer 0x40).  One of
# them is closed, then the survivor carries more SDUs than its credits in both directions: credits returned for the
# survivor must still find it (the table of channels by the PEER's identifier is not the table by our own).
# ---------------------------------------------------------------------------
def crossed_cases(quick):
    out = []
    for kind in ('coc', 'enhanced'):
        for close in ('opened_by_0', 'opened_by_1', None):
            for closer in ((0, 1) if close else (None,)):
                for credits in (1, 2) if quick else (1, 2, 3, 7):
                    out.append({'kind': kind, 'close': close, 'closer': closer, 'credits': credits})
    return out


def run_crossed(case):
    viol = []
    sig = {'kind': 'le_coc' if case['kind'] == 'coc' else 'enhanced', 'phase': 'crossed_identifiers', 'closed': case['close'] or 'none'}
    t = (64, 32, case['credits'])
    with World(2) as w:
        w.power_on()
        conns = list(w.connect_le())  # [connection object on device 0, on device 1]
        accepted = {0: [], 1: []}
        for d in (0, 1):
            w.devices[d].create_l2cap_server(mk_spec(t, PSM), accepted[d].append)

        async def go(d):
            if case['kind'] == 'coc':
                return await conns[d].create_l2cap_channel(mk_spec(t, PSM))
            return (await w.devices[d].l2cap_channel_manager.create_enhanced_credit_based_channels(conns[d], mk_spec(t, PSM), 1))[0]

        tasks = [w.loop.create_task(go(d)) for d in (0, 1)]
        w.loop.run_until(lambda: all(x.done() for x in tasks), horizon=w.loop.time() + 5.0)
        w.settle()
        if any(x.exception() for x in tasks) or not accepted[0] or not accepted[1]:
            return {'viol': [('crossed_setup', dict(sig, what='simultaneous_open_failed'), f'simultaneous opens: {[repr(x.exception()) for x in tasks]} accepted {[len(accepted[0]), len(accepted[1])]}')], 'crossed': False}
        # channel "opened_by_d": ends = (opener's object on device d, acceptor's object on device 1-d)
        ch = {'opened_by_0': {0: tasks[0].result(), 1: accepted[1][0]}, 'opened_by_1': {1: tasks[1].result(), 0: accepted[0][0]}}
        crossed = all(c[0].source_cid != c[0].destination_cid for c in ch.values())
        if case['close']:
            victim = ch.pop(case['close'])
            dt = w.loop.create_task(victim[case['closer']].disconnect())
            w.loop.run_until(dt.done, horizon=w.loop.time() + 5.0)
            w.settle()
            if not dt.done() or dt.exception():
                viol.append(('crossed_close', dict(sig, what='close_failed'), f'closing {case["close"]} by device {case["closer"]}: {dt.exception()!r}' if dt.done() else 'disconnect() never completed'))
        n_sdus = 4 * case['credits'] + 3
        for name, ends in ch.items():
            got = {0: [], 1: []}
            ends[0].sink = got[0].append
            ends[1].sink = got[1].append
            sent = {0: [], 1: []}
            for i in range(n_sdus):
                for d in (0, 1):
                    data = stream_bytes(d + 2 * (name == 'opened_by_1'), 400)[i * 9 : i * 9 + 20 + (i % 3) * 15]
                    sent[d].append(bytes(data))
                    ends[d].write(data)
            w.loop.run_quiescent(max_steps=2000000)
            drains = [w.loop.create_task(ends[d].drain()) for d in (0, 1)]
            w.loop.run_quiescent(max_steps=200000)
            for d in (0, 1):
                rx = b''.join(bytes(x) for x in got[1 - d])  # a byte stream: write boundaries are not SDU boundaries
                tx = b''.join(sent[d])
                lsig = dict(sig, survivor=name, dir='opener_to_acceptor' if (name == f'opened_by_{d}') else 'acceptor_to_opener')
                if rx != tx:
                    what = 'transfer_incomplete' if rx == tx[: len(rx)] else 'stream_differs'
                    viol.append(('crossed_stream', dict(lsig, what=what), f'{case}: channel {name} (device {d} local {ends[d].source_cid:#x} / peer {ends[d].destination_cid:#x}): {len(rx)} of {len(tx)} bytes arrived at the peer'))
                elif not drains[d].done():
                    viol.append(('crossed_stream', dict(lsig, what='drain_pending'), f'{case}: channel {name}: everything arrived but drain() of device {d} never completed'))
        for msg, exc in w.loop.collect_exceptions():
            viol.append(('exception', dict(sig, what='exception', exc=exc.split('(')[0]), f'{msg}: {exc}'))
    return {'viol': viol, 'crossed': crossed}


def w_crossed(cases):
    st = core.Stats('crossed')
    for case in cases:
        r = run_crossed(case)
        st.case(case, sample={'case': case, 'identifiers_crossed': r['crossed']})
        if r['crossed']:
            st.count('runs_with_crossed_identifiers')
        for check, sg, msg in r['viol']:
            st.violation(check, sg, msg, {'crossed': case})
    return st


# ---------------------------------------------------------------------------
# many credit returns: a receiver with 1 or 2 credits sends a Flow Control Credit packet for (nearly) every frame, so a
# transfer of several hundred frames makes the signalling identifier of the connection wrap (1..255) more than once
# ---------------------------------------------------------------------------
def wrap_cases(quick):
    return [{'kind': k, 'credits': c, 'frames': n} for k in ('coc', 'enhanced') for c in (1, 2) for n in ((300, 700) if quick else (300, 700, 1500))]


def run_wrap(case):
    viol = []
    sig = {'kind': 'le_coc' if case['kind'] == 'coc' else 'enhanced', 'phase': 'many_credit_returns', 'credits': case['credits']}
    t = (64, 32, case['credits'])
    with open_pair(case['kind'], t, t, 251) as p:
        w = p['w']
        got = [bytearray(), bytearray()]
        p['chans'][0].sink = got[1].__iadd__
        p['chans'][1].sink = got[0].__iadd__
        blobs = [stream_bytes(s_, 30 * case['frames']) for s_ in (0, 1)]
        for s_ in (0, 1):
            for i in range(case['frames']):
                p['chans'][s_].write(blobs[s_][30 * i : 30 * i + 30])
        w.loop.run_quiescent(max_steps=20000000)
        drains = [w.loop.create_task(p['chans'][s_].drain()) for s_ in (0, 1)]
        w.loop.run_quiescent(max_steps=200000)
        for s_ in (0, 1):
            lsig = dict(sig, dir='c2s' if s_ == 0 else 's2c')
            if bytes(got[s_]) != blobs[s_]:
                what = 'transfer_incomplete' if blobs[s_].startswith(bytes(got[s_])) else 'stream_differs'
                viol.append(('wrap_stream', dict(lsig, what=what), f'{case}: {len(got[s_])} of {len(blobs[s_])} bytes arrived ({len(got[s_]) // 30} frames of {case["frames"]})'))
            elif not drains[s_].done():
                viol.append(('wrap_stream', dict(lsig, what='drain_pending'), f'{case}: everything arrived but drain() never completed'))
        for check, sg, msg in p['mon'].problems:
            viol.append((check, dict(sig, **sg), msg))
        for msg, exc in w.loop.collect_exceptions():
            viol.append(('exception', dict(sig, what='exception', exc=exc.split('(')[0]), f'{msg}: {exc}'))
    return {'viol': viol}


def w_wrap(cases):
    st = core.Stats('wrap')
    for case in cases:
        r = run_wrap(case)
        st.case(case, sample={'case': case})
        for check, sg, msg in r['viol']:
            st.violation(check, sg, msg, {'wrap': case})
    return st
