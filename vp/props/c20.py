"""C20 - RFCOMM carries the exact byte stream; HFP on top negotiates consistently.

Real rfcomm.Server / rfcomm.Client (and hfp.HfProtocol / hfp.AgProtocol) on two
real classic-connected Device/Host/Controller stacks under the virtual loop.  An
independent RFCOMM decoder (harness/c20_wire.py) watches the raw L2CAP payloads of
the RFCOMM channel at both ends and keeps, from frames alone, the announced
parameters, a credit ledger, the carried byte streams and the set-up state.

Sub-checks
  stream : frame size / initial credits / L2CAP MTU / ACL size (<= 2 off default)
           x write-size sequences in both directions (burst, stepped, written in
           the acceptor) -> exact bytes, payload bound, credits, progress
  multi  : all operation histories (open / close by either side / transfer /
           transfer while another link opens or closes / shutdown / restart) over
           3 channels up to a depth -> both ends and the wire agree after every op
  sched  : scripts under all order-preserving delivery delays (deviation bound)
  slc    : HF x AG feature subsets x indicator / codec / call-hold lists ->
           initiate_slc completes, both ends hold the same negotiated values
  at     : every AG handler x arity {n-1, n, n+1} x value classes, every command
           the HF role emits -> exactly one final result code, AG not wedged
"""
from __future__ import annotations

import inspect
import itertools
import os

from .. import core, explore
from ..harness import c20_wire as wire
from ..harness.devices import World
from ..vloop import Hang, StepBudgetExceeded

LEVEL = 'exploration'

# ---------------------------------------------------------------------------
# data patterns
# ---------------------------------------------------------------------------
_P = bytes(range(251))
_T = [bytes((x + 37 * t) & 0xFF for x in range(256)) for t in range(16)]
_SEED = int(os.environ.get('VERIF_SEED', '0') or 0)  # only picks the fill bytes among equivalent representatives


def pattern(tag: int, off: int, n: int) -> bytes:
    """n bytes of an offset-dependent stream with period 251 (so chunks that are
    swapped, dropped or duplicated at any power-of-two or frame-size granularity
    are visible), different per tag."""
    if n <= 0:
        return b''
    s = off % 251
    return (_P * ((n + s) // 251 + 2))[s : s + n].translate(_T[(tag + 5 * _SEED) % 16])


# ---------------------------------------------------------------------------
# rig
# ---------------------------------------------------------------------------
DEFAULT = {'mfs_c': 1000, 'mfs_s': 1000, 'k_c': 7, 'k_s': 7, 'mtu_c': 2048, 'mtu_s': 2048, 'acl': 1021}
STATE_ABS = {'CONNECTED': 'open', 'DISCONNECTED': 'closed', 'RESET': 'closed'}


def end_view(mux) -> dict:
    """{dlci: 'open' | 'closed' | 'transient:<STATE>'} of one end; absent = closed."""
    out = {}
    if mux is None:
        return out
    for dlci, d in mux.dlcs.items():
        a = STATE_ABS.get(d.state.name, 'transient:' + d.state.name)
        if a != 'closed':
            out[dlci] = a
    return out


_POOL = {}  # acl size -> (World, conn_c, conn_s): worlds kept alive between independent cases of one worker


def _fresh_world(acl, seed):
    attrs = {i: {'acl_data_packet_length': acl} for i in (0, 1)}
    w = World(2, seed=seed, classic=True, controller_attrs=attrs)
    w.__enter__()
    try:
        w.power_on()
        cc, cs = w.connect_classic()
    except BaseException:
        w.__exit__()
        raise
    return w, cc, cs


def _activate(loop):
    """Make a pooled world's loop the running loop again (another world may have been entered since)."""
    import asyncio
    from asyncio import events

    events._set_running_loop(None)
    events._set_running_loop(loop)
    asyncio.set_event_loop(loop)


class Rig:
    """Client = device 0 (ACL and RFCOMM initiator), server = device 1.

    reuse=True keeps the two powered-on, ACL-connected stacks between cases (the
    RFCOMM server, client, L2CAP channel and taps are per case); any case that
    leaves something behind, and every case with a violation (see `confirm`), is
    re-run on fresh stacks."""

    def __init__(self, cfg=None, channels=None, seed=0, reuse=False):
        self.cfg = dict(DEFAULT, **(cfg or {}))
        # per-channel (mfs_c, k_c, mfs_s, k_s); default from cfg
        c = self.cfg
        self.channels = channels or {1: (c['mfs_c'], c['k_c'], c['mfs_s'], c['k_s'])}
        self.seed = seed
        self.reuse = reuse

    def __enter__(self):
        from bumble import rfcomm

        from .. import determinism

        c = self.cfg
        ent = _POOL.pop(c['acl'], None) if self.reuse else None
        if ent is None:
            ent = _fresh_world(c['acl'], self.seed)
        else:
            determinism.reset(self.seed)
            _activate(ent[0].loop)
        self.w, self.conn_c, self.conn_s = ent
        try:
            w = self.w
            self.mon = wire.Monitor((c['mtu_c'], c['mtu_s']))
            self.data_log = []  # (end, dlci, payload) of data frames in wire order (tx seam)
            self._tap()
            self.got = {}  # (end, ch, generation) -> bytearray delivered to that end's sink
            self.gen = {}  # ch -> generation counter of the server-side DLC
            self.s_dlc = {}
            self.c_dlc = {}
            self.s_muxes = []
            self.accept_hook = None
            self.rx_waiters = []
            self.server = rfcomm.Server(w.devices[1], l2cap_mtu=c['mtu_s'])
            self.server.on('start', self.s_muxes.append)
            for ch, (_, _, mfs_s, k_s) in self.channels.items():
                r = self.server.listen(self._acceptor, channel=ch, max_frame_size=mfs_s, initial_credits=k_s)
                assert r == ch
            self.client = None
            self.mux = None
        except BaseException:
            self.w.__exit__()
            raise
        return self

    def __exit__(self, et, ev, tb):
        w = self.w
        if self.reuse and et is None and self._clean_up():
            _POOL[self.cfg['acl']] = (w, self.conn_c, self.conn_s)
            return False
        return w.__exit__(et, ev, tb)

    def _clean_up(self) -> bool:
        """Return the stacks to 'ACL up, no L2CAP channel, no RFCOMM server'.  False = not provably clean, discard."""
        w = self.w
        try:
            w.loop.scheduler = None
            w.loop.held.clear()
            w.settle()
            if self.client is not None:
                if self.client.multiplexer is None or self.client.l2cap_channel is None:
                    return False
                w.run(self.client.shutdown())
            self.server.l2cap_server.close()
            w.settle()
            for end in (0, 1):
                mgr = w.devices[end].l2cap_channel_manager
                del mgr.send_pdu
                del mgr.on_pdu
                if any(mgr.channels.values()) or 0x0003 in mgr.servers:
                    return False
            if w.loop.collect_exceptions():
                return False
            import asyncio

            if any(not t.done() for t in asyncio.all_tasks(w.loop)):
                return False
            if w.devices[0].find_connection_by_bd_addr(w.devices[1].public_address) is None:
                return False
            return True
        except BaseException:
            return False

    def _tap(self):
        mon = self.mon
        log = self.data_log
        for end in (0, 1):
            mgr = self.w.devices[end].l2cap_channel_manager

            def mk(end, mgr):
                osend, orecv = mgr.send_pdu, mgr.on_pdu

                def send_pdu(connection, cid, pdu, with_fcs=False):
                    if cid >= 0x40:
                        b = bytes(pdu)
                        mon.tx(end, b)
                        f = wire.decode(b)
                        if not f.errors and f.type == wire.UIH and f.dlci != 0 and f.payload:
                            log.append((end, f.dlci, f.payload))
                    return osend(connection, cid, pdu, with_fcs)

                def on_pdu(connection, cid, pdu):
                    if cid >= 0x40:
                        mon.rx(end, bytes(pdu))
                    return orecv(connection, cid, pdu)

                mgr.send_pdu = send_pdu
                mgr.on_pdu = on_pdu

            mk(end, mgr)

    def _acceptor(self, dlc):
        ch = dlc.dlci >> 1
        g = self.gen.get(ch, 0) + 1
        self.gen[ch] = g
        self.s_dlc[ch] = dlc
        dlc.sink = self._sink((1, ch, g))
        if self.accept_hook:
            self.accept_hook(ch, dlc)

    # -- session / link operations (coroutines: usable under any scheduler) --
    async def start(self):
        from bumble import rfcomm

        self.client = rfcomm.Client(self.conn_c, l2cap_mtu=self.cfg['mtu_c'])
        self.mux = await self.client.start()
        return self.mux

    async def open(self, ch):
        mfs_c, k_c, _, _ = self.channels[ch]
        dlc = await self.mux.open_dlc(ch, max_frame_size=mfs_c, initial_credits=k_c)
        self.attach_client(ch, dlc)
        return dlc

    def attach_client(self, ch, dlc):
        self.c_dlc[ch] = dlc
        g = self.gen.get(ch, 0)
        dlc.sink = self._sink((0, ch, g))

    def _sink(self, key):
        buf = self.got.setdefault(key, bytearray())

        def sink(data):
            buf.extend(data)
            for ev in self.rx_waiters:
                ev.set()

        return sink

    async def wait_received(self, end, ch, n):
        import asyncio

        ev = asyncio.Event()
        self.rx_waiters.append(ev)
        try:
            while len(self.received(end, ch)) < n:
                ev.clear()
                await ev.wait()
        finally:
            self.rx_waiters.remove(ev)

    def s_mux(self):
        return self.s_muxes[-1] if self.s_muxes else None

    def received(self, end, ch):
        return bytes(self.got.get((end, ch, self.gen.get(ch, 0)), b''))

    def eff(self, ch):
        """Reference: largest payload that fits both the receiver's announced frame
        size and its L2CAP MTU with the longest header (2-octet length, credit
        octet excluded).  -> (client->server, server->client)"""
        mfs_c, _, mfs_s, _ = self.channels[ch]
        return min(mfs_s, self.cfg['mtu_s'] - 5), min(mfs_c, self.cfg['mtu_c'] - 5)


def mon_violations(mon, prefix=''):
    return [(prefix + k, dict(d), m) for k, d, m in mon.viol]


def loop_exceptions(w):
    return [e for e in w.loop.collect_exceptions()]


def short_exc(e):
    r = e[1] if isinstance(e, tuple) else repr(e)
    return r.split('(')[0]


# ---------------------------------------------------------------------------
# sub-check 1: stream
# ---------------------------------------------------------------------------
ALT = {
    'mfs_c': [23, 24, 127, 128, 129, 32767],
    'mfs_s': [23, 24, 127, 128, 129, 32767],
    'k_c': [1, 2, 3, 4, 5, 6],
    'k_s': [1, 2, 3, 4, 5, 6],
    'mtu_c': [48, 132, 133, 65535],
    'mtu_s': [48, 132, 133, 65535],
    'acl': [27],
}
SIZES_Q = ['1', 'E-1', 'E', 'E+1', '3E', '20E']
SIZES_T = SIZES_Q + ['2E+1', '33E', '70E']


def configs(k):
    """All configurations with at most k parameters off their default, as
    dicts of the off-default parameters, simplest first."""
    names = list(ALT)
    out = [{}]
    for n in range(1, k + 1):
        for combo in itertools.combinations(names, n):
            for vals in itertools.product(*(ALT[c] for c in combo)):
                out.append(dict(zip(combo, vals)))
    return out


def resolve(sym, e):
    if sym == '1':
        return 1
    if sym == '0':
        return 0  # a write of no bytes: nothing to send, nothing to wait for
    mul, _, add = sym.partition('E')
    n = (int(mul) if mul else 1) * e + (int(add) if add else 0)
    return max(n, 1)


def seqs(alphabet, maxlen):
    out = [()]
    for n in range(1, maxlen + 1):
        out.extend(itertools.product(alphabet, repeat=n))
    return out


def stream_cost(cfg, plan):
    c = dict(DEFAULT, **cfg)
    ec, es = min(c['mfs_s'], c['mtu_s'] - 5), min(c['mfs_c'], c['mtu_c'] - 5)
    n = sum(resolve(s, ec) for s in plan['c']) + sum(resolve(s, es) for s in plan['s'])
    return 12 + n / (50 if c['acl'] == 27 else 3000)


def run_stream_case(cfg, plan, reuse=False):
    """-> (violations, obs)"""
    viol = []
    with Rig(cfg, reuse=reuse) as r:
        w = r.w
        ec, es = r.eff(1)
        wc = [resolve(s, ec) for s in plan['c']]
        ws = [resolve(s, es) for s in plan['s']]
        exp = {0: bytearray(), 1: bytearray()}  # by sender end
        mode = plan['mode']

        def wr(end, dlc, n):
            data = pattern(3 + end, len(exp[end]), n)
            exp[end] += data
            dlc.write(data)

        try:
            w.run(r.start())
            if mode == 'early':
                # the server application writes inside its acceptor, i.e. before the client's open_dlc() has returned
                def hook(ch, dlc):
                    for n in ws:
                        wr(1, dlc, n)

                r.accept_hook = hook
            cd = w.run(r.open(1))
            if mode == 'early':
                for n in wc:
                    wr(0, cd, n)
                w.settle()
            else:
                w.settle()
                sd = r.s_dlc[1]
                for i in range(max(len(wc), len(ws))):
                    if i < len(wc):
                        wr(0, cd, wc[i])
                        if mode == 'stepped':
                            w.settle()
                    if i < len(ws):
                        wr(1, sd, ws[i])
                        if mode == 'stepped':
                            w.settle()
                w.settle()
            sd = r.s_dlc[1]
            drains = [w.loop.create_task(cd.drain()), w.loop.create_task(sd.drain())]
            w.settle()
        except (Hang, StepBudgetExceeded) as e:
            viol.append(('stream_setup_hang', {'what': type(e).__name__}, f'session/link set-up or transfer did not finish: {e}'))
            return viol, {'hang': True}
        # 1. exact bytes
        for sender, name in ((0, 'client->server'), (1, 'server->client')):
            got = r.received(1 - sender, 1)
            want = bytes(exp[sender])
            if got != want:
                d = r.mon.dls.get(2)
                if want.startswith(got):
                    kind = 'bytes_missing'
                    held = d.credits.get(sender, 0) if d else None
                    detail = f'{len(got)} of {len(want)} bytes arrived by quiescence; sender holds {held} credits by the wire ledger'
                    sig = {'dir': name, 'sender_credits_zero': held == 0}
                elif len(got) == len(want):
                    kind = 'bytes_altered'
                    i = next(i for i in range(len(want)) if got[i] != want[i])
                    detail = f'first difference at offset {i} of {len(want)}'
                    sig = {'dir': name}
                else:
                    kind = 'bytes_wrong'
                    detail = f'{len(got)} bytes arrived, {len(want)} written, not a prefix'
                    sig = {'dir': name}
                viol.append(('stream_' + kind, sig, f'{name}: {detail}'))
        # 2. drain() finished
        for end, t in enumerate(drains):
            if not t.done():
                t.cancel()
                viol.append(('stream_drain_pending', {'end': end}, f'drain() of end {end} still pending at quiescence'))
        # 3. wire rules
        viol.extend(mon_violations(r.mon, 'wire_'))
        # 4. nothing raised inside the stack
        for e in loop_exceptions(w):
            viol.append(('stream_exception', {'exc': short_exc(e)}, f'exception inside the stack: {e}'))
        d = r.mon.dls.get(2)
        obs = {
            'frames': [d.frames[0], d.frames[1]],
            'credit_frames': [d.credit_frames[0], d.credit_frames[1]],
            'empty_credit_frames': [d.empty_credit_frames[0], d.empty_credit_frames[1]],
            'max_payload': [d.max_payload[0], d.max_payload[1]],
            'min_credits': [d.min_credits[0], d.min_credits[1]],
            'pn_resp_larger': r.mon.pn_response_larger,
            'over_pn_resp': r.mon.frames_over_pn_response_n1,
            'cr_anomalies': r.mon.cr_anomalies,
        }
        return viol, obs


def stream_cases(quick):
    """[(cfg, plan)] - see the `rule` text in run()."""
    S = SIZES_Q
    cases = []
    one = seqs(S, 1)
    two = seqs(S, 2)
    cfg0 = configs(0)
    cfg1 = configs(1)[1:]
    cfg2 = configs(2)[len(cfg1) + 1 :]
    pairs1 = [(a, b) for a in one for b in one if a or b]
    pairs2 = [(a, b) for a in two for b in two if a or b]
    few = [(('E+1',), ('20E',)), (('20E',), ('E+1',)), (('20E',), ('20E',)), (('1',), ('1',))]
    # both directions at once with more frames each way than the 32 credits an end ever holds (both ends run out of
    # credits with data still queued: the credits have to travel in frames of their own)
    big = [(('70E',), ('70E',)), (('33E',), ('33E',)), (('70E',), ('33E',)), (('33E', '70E'), ('70E',))]
    for cfg in cfg0 + (cfg1[:6] if quick else cfg1):
        for a, b in big:
            cases.append((cfg, {'mode': 'burst', 'c': a, 's': b}))
    # writes of no bytes among the others: the stream is unchanged and drain() still returns
    zero = [(('0',), ()), ((), ('0',)), (('0',), ('0',)), (('0', 'E'), ('1',)), (('E+1', '0'), ('0', '3E')), (('0', '0'), ('E',))]
    for cfg in cfg0 + (cfg1[:6] if quick else cfg1):
        for a, b in zero:
            for mode in ('burst', 'stepped'):
                cases.append((cfg, {'mode': mode, 'c': a, 's': b}))
    if quick:
        for cfg in cfg0:
            for a, b in pairs2:
                if len(a) <= 1 or len(b) <= 1:
                    cases.append((cfg, {'mode': 'burst', 'c': a, 's': b}))
            for a, b in pairs1:
                for mode in ('stepped', 'early'):
                    cases.append((cfg, {'mode': mode, 'c': a, 's': b}))
            for a in two:
                if len(a) == 2:
                    cases.append((cfg, {'mode': 'stepped', 'c': a, 's': a}))
        for cfg in cfg1:
            for a, b in pairs1:
                cases.append((cfg, {'mode': 'burst', 'c': a, 's': b}))
            for a, b in few:
                cases.append((cfg, {'mode': 'early', 'c': a, 's': b}))
        for cfg in cfg2:
            for a, b in few:
                cases.append((cfg, {'mode': 'burst', 'c': a, 's': b}))
    else:
        ST = SIZES_T
        three = seqs(S, 3)
        twoT = seqs(ST, 2)
        for cfg in cfg0:
            for a in three:
                for b in two:
                    if a or b:
                        for mode in ('burst', 'stepped', 'early'):
                            if len(a) == 3 and (mode != 'burst' or len(b) == 2):
                                continue
                            cases.append((cfg, {'mode': mode, 'c': a, 's': b}))
                            if len(a) == 3:
                                cases.append((cfg, {'mode': mode, 'c': b, 's': a}))
            for a in twoT:
                for b in seqs(ST, 1):
                    if any(x in ('2E+1', '33E', '70E') for x in a + b):
                        for mode in ('burst', 'stepped'):
                            cases.append((cfg, {'mode': mode, 'c': a, 's': b}))
                            cases.append((cfg, {'mode': mode, 'c': b, 's': a}))
        for cfg in cfg1:
            for a, b in pairs2:
                if len(a) <= 1 or len(b) <= 1 or a == b:
                    for mode in ('burst', 'stepped'):
                        cases.append((cfg, {'mode': mode, 'c': a, 's': b}))
            for a, b in pairs1:
                cases.append((cfg, {'mode': 'early', 'c': a, 's': b}))
            for a in seqs(['33E', '70E'], 1)[1:]:
                cases.append((cfg, {'mode': 'burst', 'c': a, 's': ('E+1',)}))
                cases.append((cfg, {'mode': 'burst', 'c': ('E+1',), 's': a}))
        for cfg in cfg2:
            for a, b in pairs1:
                cases.append((cfg, {'mode': 'burst', 'c': a, 's': b}))
            for a, b in few:
                cases.append((cfg, {'mode': 'early', 'c': a, 's': b}))
    return cases


_CONFIRMED = set()


def _needs_confirmation(viol):
    """A verdict obtained on reused stacks is re-derived on fresh stacks the first time each distinct set of
    signatures shows up in this worker."""
    key = core.digest(sorted(core.canon_json(x[:2]) for x in viol))
    if key in _CONFIRMED:
        return False
    _CONFIRMED.add(key)
    return True


def w_stream(items):
    st = core.Stats('stream')
    for cfg, plan in items:
        plan = {'mode': plan['mode'], 'c': list(plan['c']), 's': list(plan['s'])}
        viol, obs = run_stream_case(cfg, plan, reuse=True)
        if viol and _needs_confirmation(viol):
            # confirm on fresh stacks; the replay file must reproduce from a fresh process
            viol2, obs2 = run_stream_case(cfg, plan)
            if sorted(core.canon_json(x[:2]) for x in viol2) != sorted(core.canon_json(x[:2]) for x in viol):
                raise core.HarnessError(f'stream case {cfg} {plan}: verdict differs between reused and fresh stacks: {viol} / {viol2}')
            st.count('violations_confirmed_on_fresh_stacks')
        st.case((cfg, plan), None)
        st.add('outcomes', core.digest(obs))
        st.add('configs', core.canon_json(cfg))
        if obs.get('min_credits'):
            for e in (0, 1):
                if obs['min_credits'][e] == 1:
                    st.count('runs_where_a_sender_used_its_last_credit')
                    break
            if any(obs['empty_credit_frames']):
                st.count('runs_with_credit_only_frames')
            if obs['pn_resp_larger']:
                st.count('runs_pn_response_n1_larger_than_request')
            if obs['over_pn_resp']:
                st.count('runs_with_frames_larger_than_pn_response_n1')
            if obs['cr_anomalies']:
                st.count('runs_with_cr_bit_anomalies')
        if len(st.samples) < 2 and plan['c'] and plan['s'] and cfg:
            st.samples.append({'cfg': cfg, 'plan': plan, 'obs': obs})
        for check, sig, msg in viol:
            sig = dict(sig)
            st.violation(check, sig, f'[{cfg or "default"} {plan}] {msg}', {'cfg': cfg, 'plan': plan})
    return st


# ---------------------------------------------------------------------------
# sub-check 2: operation histories over several data links
# ---------------------------------------------------------------------------
# channel -> (mfs_c, k_c, mfs_s, k_s): three different geometries on one multiplexer
MULTI_CHANNELS = {1: (1000, 7, 1000, 7), 2: (23, 1, 24, 2), 3: (128, 3, 127, 1)}


class Model:
    """Reference: what the operations mean (boring Python)."""

    def __init__(self):
        self.up = False
        self.open = set()

    def enabled(self):
        ops = []
        if not self.up:
            return [('start',)]
        chans = sorted(MULTI_CHANNELS)
        for ch in chans:
            if ch not in self.open:
                ops.append(('open', ch))
        for ch in sorted(self.open):
            ops.append(('close', ch, 'c'))
            ops.append(('close', ch, 's'))
            ops.append(('xfer', ch))
        # traffic on the lowest open link while another link is opened / closed at the same time
        if self.open:
            a = min(self.open)
            for ch in chans:
                if ch == a:
                    continue
                if ch in self.open:
                    ops.append(('cross', a, 'close', ch, 'c'))
                    ops.append(('cross', a, 'close', ch, 's'))
                else:
                    ops.append(('cross', a, 'open', ch))
            if len(self.open) >= 2:
                b = sorted(self.open)[1]
                ops.append(('both_close', a, b))
        ops.append(('shutdown',))
        return ops

    def apply(self, op):
        k = op[0]
        if k == 'start':
            self.up = True
        elif k == 'open':
            self.open.add(op[1])
        elif k == 'close':
            self.open.discard(op[1])
        elif k == 'cross':
            if op[2] == 'open':
                self.open.add(op[3])
            else:
                self.open.discard(op[3])
        elif k == 'both_close':
            self.open.discard(op[1])
            self.open.discard(op[2])
        elif k == 'shutdown':
            self.up = False
            self.open.clear()

    def touched(self, op):
        k = op[0]
        if k in ('open', 'close', 'xfer'):
            return {op[1]}
        if k == 'cross':
            return {op[1], op[3]}
        if k == 'both_close':
            return {op[1], op[2]}
        return set(MULTI_CHANNELS)


def histories(depth):
    """All maximal operation histories of exactly `depth` operations."""
    out = []

    def rec(m, h):
        if len(h) == depth:
            out.append(tuple(h))
            return
        for op in m.enabled():
            m2 = Model()
            m2.up, m2.open = m.up, set(m.open)
            m2.apply(op)
            rec(m2, h + [op])

    rec(Model(), [])
    return out


def op_name(op):
    return op[0] if op[0] != 'cross' else f'cross_{op[2]}'


def run_history(hist, stop_at_first=False):
    """Execute one history; after every operation compare both ends, the wire and
    the model.  -> (violations, obs)"""
    viol = []
    m = Model()
    obs = []
    with Rig(channels=MULTI_CHANNELS) as r:
        w = r.w
        sent = {}  # (sender_end, ch, gen) -> bytearray
        prev_views = ({}, {})

        def xfer_start(ch):
            ec, es = r.eff(ch)
            g = r.gen.get(ch, 0)
            for end, dlc, n in ((0, r.c_dlc[ch], 3 * ec + 1), (1, r.s_dlc[ch], 3 * es + 1)):
                buf = sent.setdefault((end, ch, g), bytearray())
                data = pattern(ch * 2 + end, len(buf), n)
                buf += data
                dlc.write(data)

        def closer(ch, side):
            return (r.c_dlc if side == 'c' else r.s_dlc)[ch].disconnect()

        for step, op in enumerate(hist):
            k = op[0]
            tasks = []
            try:
                if k == 'start':
                    tasks.append(w.loop.create_task(r.start()))
                elif k == 'open':
                    tasks.append(w.loop.create_task(r.open(op[1])))
                elif k == 'close':
                    tasks.append(w.loop.create_task(closer(op[1], op[2])))
                elif k == 'xfer':
                    xfer_start(op[1])
                elif k == 'cross':
                    xfer_start(op[1])
                    if op[2] == 'open':
                        tasks.append(w.loop.create_task(r.open(op[3])))
                    else:
                        tasks.append(w.loop.create_task(closer(op[3], op[4])))
                elif k == 'both_close':
                    tasks.append(w.loop.create_task(closer(op[1], 'c')))
                    tasks.append(w.loop.create_task(closer(op[2], 's')))
                elif k == 'shutdown':
                    tasks.append(w.loop.create_task(r.client.shutdown()))
                w.settle()
            except StepBudgetExceeded as e:
                viol.append(('multi_livelock', {'op': op_name(op)}, f'step {step} {op}: {e}'))
                break
            m.apply(op)
            here = []
            # a. the operation itself concluded
            for t in tasks:
                if not t.done():
                    t.cancel()
                    here.append(('multi_op_pending', {'op': op_name(op)}, f'{op} never completed'))
                elif t.exception() is not None:
                    here.append(('multi_op_failed', {'op': op_name(op), 'exc': type(t.exception()).__name__}, f'{op} raised {t.exception()!r}'))
            # b. the wire agrees with the model
            want = sorted(2 * ch for ch in m.open)
            if r.mon.open_dlcis() != want or r.mon.session_up() != m.up:
                here.append(
                    ('multi_wire_state', {'op': op_name(op)}, f'after {op}: frames on the wire leave DLCIs {r.mon.open_dlcis()} open, session up={r.mon.session_up()}; expected {want}, up={m.up}')
                )
            # c. both ends agree with each other and the model
            cv, sv = end_view(r.mux), end_view(r.s_mux())
            touched = {2 * ch for ch in m.touched(op)}
            for dlci in sorted(set(cv) | set(sv) | set(want) | set(prev_views[0]) | set(prev_views[1])):
                c_st, s_st = cv.get(dlci, 'closed'), sv.get(dlci, 'closed')
                exp = 'open' if dlci in want else 'closed'
                if dlci in touched:
                    if c_st != exp or s_st != exp:
                        sig = {'op': op_name(op), 'expected': exp, 'client': c_st, 'server': s_st}
                        if k in ('close', 'cross') and op[-1] in ('c', 's') and dlci == 2 * op[-2]:
                            sig['closed_by'] = op[-1]
                        if k == 'both_close':
                            sig['closed_by'] = 'c' if dlci == 2 * op[1] else 's'
                        by = sig.get('closed_by')
                        if by and exp == 'closed' and (c_st, s_st) == (('closed', 'open') if by == 'c' else ('open', 'closed')):
                            # one failing class whatever the surrounding operation: the closing end is done, its peer still holds the link
                            here.append(('dlc_teardown_one_sided', {'closed_by': by, 'closing_end': 'closed', 'peer_end': 'open'}, f'after {op}: DLCI {dlci} was closed by the {"client" if by == "c" else "server"} end, which is done with it, but its peer still holds the link CONNECTED (client: {c_st}, server: {s_st})'))
                            continue
                        here.append(('multi_dlc_state_disagree', sig, f'after {op}: DLCI {dlci} should be {exp}; client end holds {c_st}, server end holds {s_st}'))
                else:
                    if c_st != prev_views[0].get(dlci, 'closed') or s_st != prev_views[1].get(dlci, 'closed'):
                        here.append(
                            ('multi_interference', {'op': op_name(op)}, f'{op} changed the untouched DLCI {dlci}: client {prev_views[0].get(dlci, "closed")}->{c_st}, server {prev_views[1].get(dlci, "closed")}->{s_st}')
                        )
            prev_views = (cv, sv)
            # d. multiplexer states match
            cm = r.mux.state.name if r.mux else 'NONE'
            sm = r.s_mux().state.name if r.s_mux() else 'NONE'
            want_mux = 'CONNECTED' if m.up else 'DISCONNECTED'
            if cm != want_mux or sm != want_mux:
                here.append(('multi_mux_state', {'op': op_name(op), 'client': cm, 'server': sm}, f'after {op}: multiplexer states client={cm} server={sm}, expected {want_mux} on both'))
            # e. bytes: everything written on a link arrived on that link, nothing anywhere else
            for (end, ch, g), buf in sent.items():
                got = bytes(r.got.get((1 - end, ch, g), b''))
                if got != bytes(buf):
                    here.append(
                        ('multi_bytes', {'op': op_name(op), 'prefix': bytes(buf).startswith(got)}, f'after {op}: channel {ch} end {end}->{1 - end}: {len(got)} of {len(buf)} bytes arrived' + ('' if bytes(buf).startswith(got) else ' (content differs)'))
                    )
                    buf[:] = got  # report once
            for key, buf in r.got.items():
                if buf and (1 - key[0], key[1], key[2]) not in sent:
                    here.append(('multi_stray_bytes', {'op': op_name(op)}, f'after {op}: {len(buf)} bytes arrived at end {key[0]} channel {key[1]} that nobody wrote'))
                    sent[(1 - key[0], key[1], key[2])] = bytearray(buf)
            # f. wire rules, exceptions
            here.extend((c, dict(d, op=op_name(op)), msg) for c, d, msg in mon_violations(r.mon, 'wire_'))
            r.mon.viol.clear()
            for e in loop_exceptions(w):
                here.append(('multi_exception', {'op': op_name(op), 'exc': short_exc(e)}, f'after {op}: exception inside the stack: {e}'))
            obs.append((op_name(op), sorted(cv.items()), sorted(sv.items()), cm, sm))
            for c, s, msg in here:
                viol.append((c, s, f'[step {step}] {msg}'))
            if here and stop_at_first:
                break
    return viol, obs


def w_multi(hists):
    st = core.Stats('multi')
    for h in hists:
        viol, obs = run_history(h)
        st.case(h, None)
        st.count('operations', len(h))
        for o in obs:
            st.add('end_state_tuples', core.digest(o))
        for op in h:
            st.add('op_kinds', op_name(op))
        if len(st.samples) < 1 and len({op[0] for op in h}) >= 4:
            st.samples.append({'history': h, 'obs': obs})
        for check, sig, msg in viol:
            st.violation(check, sig, f'{msg}  history={list(h)}', {'history': [list(op) for op in h]})
    return st


# ---------------------------------------------------------------------------
# sub-check 3: scripts under all order-preserving delivery delays
# ---------------------------------------------------------------------------
SCHED_SCRIPTS = ['single', 'two', 'both_close', 'same_close', 'restart']
SAME_CLOSE_DELAYS = [0, 2, 3, 4, 6, 12]


def run_sched(params, prefix, fp):
    script = params['script']
    viol = []
    with Rig(channels=MULTI_CHANNELS) as r:
        w = r.w
        loop = w.loop
        sent = {}

        def wr(end, ch, dlc, n):
            buf = sent.setdefault((end, ch, r.gen.get(ch, 0) if end == 0 else r.gen.get(ch, 0)), bytearray())
            data = pattern(ch * 2 + end, len(buf), n)
            buf += data
            dlc.write(data)

        # ---- unexplored preamble
        w.run(r.start())
        pre = {'single': [], 'two': [1], 'both_close': [1, 3], 'same_close': [2], 'restart': [1]}[script]
        closers = {'single': {4: 'c'}, 'two': {4: 's'}, 'both_close': {2: 'c', 6: 's'}}.get(script, {})
        for ch in pre:
            w.run(r.open(ch))
        w.settle()
        loop.collect_exceptions()
        sched = explore.Sched(prefix, hold=True, expect_fp=fp)
        loop.scheduler = sched
        expected_open = set()
        expected_up = True
        tasks = []

        if script == 'single':
            # tight geometry (23/24-byte frames, 1 and 2 initial credits); the server application answers from its acceptor
            ec, es = r.eff(2)
            nc, ns = 2 * ec + 1, es + 3

            def hook(ch, dlc):
                wr(1, ch, dlc, ns)

            r.accept_hook = hook

            async def app():
                dlc = await r.open(2)
                wr(0, 2, dlc, nc)
                await dlc.drain()
                await r.wait_received(0, 2, ns)
                await r.wait_received(1, 2, nc)
                await dlc.disconnect()

            tasks.append(loop.create_task(app()))
        elif script == 'two':
            # traffic on channel 1 in both directions while channel 2 is opened by the client and then closed by the server
            ec, es = r.eff(1)

            async def traffic():
                for i in range(3):
                    wr(0, 1, r.c_dlc[1], 2 * ec + 1)
                    wr(1, 1, r.s_dlc[1], 2 * es + 1)
                    await r.c_dlc[1].drain()

            async def churn():
                dlc = await r.open(2)
                wr(0, 2, dlc, 30)
                await r.wait_received(1, 2, 30)
                await r.s_dlc[2].disconnect()

            tasks += [loop.create_task(traffic()), loop.create_task(churn())]
            expected_open = {1}
        elif script == 'both_close':
            tasks += [loop.create_task(r.c_dlc[1].disconnect()), loop.create_task(r.s_dlc[3].disconnect())]
        elif script == 'same_close':
            # both applications decide to close the same link at about the same time
            from bumble.rfcomm import DLC

            async def close(dlc):
                if dlc.state == DLC.State.CONNECTED:
                    await dlc.disconnect()

            async def later(dlc):
                import asyncio

                # the server application decides `delay` loop iterations after the client's: every relative timing of
                # the local close against the arrival of the peer's DISC is enumerated
                for _ in range(params.get('delay', 1)):
                    await asyncio.sleep(0)
                await close(dlc)

            if params.get('late', 's') == 's':
                tasks += [loop.create_task(close(r.c_dlc[2])), loop.create_task(later(r.s_dlc[2]))]
            else:
                tasks += [loop.create_task(close(r.s_dlc[2])), loop.create_task(later(r.c_dlc[2]))]
        elif script == 'restart':
            ec, es = r.eff(1)

            async def app():
                wr(0, 1, r.c_dlc[1], ec + 1)
                await r.wait_received(1, 1, ec + 1)
                await r.client.shutdown()
                await r.start()
                dlc = await r.open(1)
                wr(0, 1, dlc, 2 * ec)
                wr(1, 1, r.s_dlc[1], es + 1)
                await dlc.drain()

            tasks.append(loop.create_task(app()))
            expected_open = {1}

        sched.active = True
        try:
            loop.run_until(lambda: all(t.done() for t in tasks), max_steps=100000)
            loop.run_quiescent(max_steps=100000)
        except StepBudgetExceeded as e:
            viol.append(('sched_livelock', {'script': script}, str(e)))
        sched.active = False
        loop.scheduler = None
        second_close_hung = None
        if script == 'same_close' and tasks[0].done() and not tasks[1].done():
            # the later closer found its DLC still CONNECTED although the peer had already closed the link (its DISC was
            # acknowledged), sent its own DISC for a DLCI the peer no longer has, and waits for ever
            discs = [x for x in r.mon.log if 'DISC(dlci=4' in x or 'UA(dlci=4' in x]
            while discs and 'DISC' not in discs[0]:
                discs.pop(0)
            late = params.get('late', 's')
            first, second = ('>0', '>1') if late == 's' else ('>1', '>0')
            if len(discs) == 3 and discs[0].startswith(first + ' DISC') and discs[1].startswith(second + ' UA') and discs[2].startswith(second + ' DISC'):
                second_close_hung = late
                tasks[1].cancel()
                viol.append(('dlc_close_after_peer_closed_never_completes', {'second_closer': late}, f'same_close (delay {params.get("delay", 1)}): the {"server" if late == "s" else "client"} end still held DLCI 4 CONNECTED after acknowledging the peer\'s DISC; its own disconnect() sent DISC to a peer that has forgotten the DLCI and never completed: {discs}'))
        for i, t in enumerate(tasks):
            if second_close_hung and i == 1:
                continue
            if not t.done():
                t.cancel()
                viol.append(('sched_task_pending', {'script': script, 'task': i}, f'{script}: application task {i} never finished'))
            elif t.exception() is not None:
                viol.append(('sched_task_failed', {'script': script, 'task': i, 'exc': type(t.exception()).__name__}, f'{script}: application task {i} raised {t.exception()!r}'))
        loop.run_quiescent(max_steps=100000)
        cv, sv = end_view(r.mux), end_view(r.s_mux())
        want = sorted(2 * ch for ch in expected_open)
        for dlci in sorted(set(cv) | set(sv) | set(want)):
            c_st, s_st = cv.get(dlci, 'closed'), sv.get(dlci, 'closed')
            exp = 'open' if dlci in want else 'closed'
            if second_close_hung and dlci == 4:
                continue
            by = closers.get(dlci)
            if by and exp == 'closed' and (c_st, s_st) == (('closed', 'open') if by == 'c' else ('open', 'closed')):
                viol.append(('dlc_teardown_one_sided', {'closed_by': by, 'closing_end': 'closed', 'peer_end': 'open'}, f'{script}: DLCI {dlci} was closed by the {"client" if by == "c" else "server"} end, which is done with it, but its peer still holds the link CONNECTED (client: {c_st}, server: {s_st})'))
            elif c_st != exp or s_st != exp:
                viol.append(('sched_dlc_state_disagree', {'script': script, 'dlci': dlci, 'expected': exp, 'client': c_st, 'server': s_st}, f'{script}: DLCI {dlci} should be {exp}; client end holds {c_st}, server end holds {s_st}'))
        if r.mon.open_dlcis() != want:
            viol.append(('sched_wire_state', {'script': script}, f'{script}: frames on the wire leave DLCIs {r.mon.open_dlcis()} open, expected {want}'))
        cm = r.mux.state.name if r.mux else 'NONE'
        sm = r.s_mux().state.name if r.s_mux() else 'NONE'
        if cm != 'CONNECTED' or sm != 'CONNECTED':
            viol.append(('sched_mux_state', {'script': script, 'client': cm, 'server': sm}, f'{script}: multiplexer states client={cm} server={sm}'))
        for (end, ch, g), buf in sorted(sent.items()):
            got = bytes(r.got.get((1 - end, ch, g), b''))
            if got != bytes(buf):
                viol.append(('sched_bytes', {'script': script, 'ch': ch, 'sender': end, 'prefix': bytes(buf).startswith(got)}, f'{script}: channel {ch} end {end}->{1 - end}: {len(got)} of {len(buf)} bytes arrived'))
        viol.extend((c, dict(d, script=script), m) for c, d, m in mon_violations(r.mon, 'wire_'))
        for e in loop_exceptions(w):
            viol.append(('sched_exception', {'script': script, 'exc': short_exc(e)}, f'{script}: exception inside the stack: {e}'))
        obs = [sorted(cv.items()), sorted(sv.items()), cm, sm, r.mon.log[-12:], sorted((k, len(v)) for k, v in r.got.items())]
        return {'points': sched.points, 'fp': sched.fp, 'obs': obs, 'viol': viol}




# ---------------------------------------------------------------------------
# AT traffic seen on the wire
# ---------------------------------------------------------------------------
def at_trace(data_log, dlci=2):
    """-> [[command_line, [result lines...]], ...] in wire order; results that precede
    any command are attributed to the pseudo command None."""
    out = [[None, []]]
    cbuf = b''
    rbuf = b''
    for end, d, payload in data_log:
        if d != dlci:
            continue
        if end == 0:
            cbuf += payload
            lines, cbuf = wire.at_command_lines(cbuf)
            for ln in lines:
                if ln.strip():
                    out.append([ln, []])
        else:
            rbuf += payload
            # complete <CR><LF>text<CR><LF> units only
            while True:
                a = rbuf.find(b'\r\n')
                if a < 0:
                    break
                b = rbuf.find(b'\r\n', a + 2)
                if b < 0:
                    break
                text = rbuf[a + 2 : b].decode('utf-8', 'replace')
                rbuf = rbuf[b + 2 :]
                if text:
                    out[-1][1].append(text)
    return out


def finals(results):
    return [x for x in results if wire.is_final(x)]


# ---------------------------------------------------------------------------
# sub-check 4: service level connection
# ---------------------------------------------------------------------------
# bits the SLC code branches on (HfProtocol.initiate_slc, AgProtocol._on_brsf/_on_bind*/_on_chld_test/_on_clip,
# send_cme_error) + one bit nothing branches on, as a sentinel; the remaining bits are all 0 or all 1
HF_BITS = [0x080, 0x002, 0x100, 0x004, 0x200]  # CODEC_NEGOTIATION, THREE_WAY_CALLING, HF_INDICATORS, CLI_PRESENTATION, ESCO_S4
AG_BITS = [0x200, 0x001, 0x400, 0x100, 0x800]  # CODEC_NEGOTIATION, THREE_WAY_CALLING, HF_INDICATORS, EXTENDED_ERROR_RESULT_CODES, ESCO_S4
HF_ALL, AG_ALL = 0xFFF, 0x3FFF
HF_REST = HF_ALL & ~sum(HF_BITS)
AG_REST = AG_ALL & ~sum(AG_BITS)
AG_IND_SETS = {
    'one': [('call', [0, 1], 1)],
    'three': [('service', [0, 1], 1), ('call', [0, 1], 0), ('callsetup', [0, 1, 2, 3], 2)],
    'all': [
        ('service', [0, 1], 1),
        ('call', [0, 1], 0),
        ('callsetup', [0, 1, 2, 3], 2),
        ('callheld', [0, 1, 2], 1),
        ('signal', [0, 2, 5], 5),  # not a contiguous range: listed value by value in +CIND
        ('roam', [0, 1], 1),
        ('battchg', [0, 1, 2, 3, 4, 5], 4),
    ],
}
CHLD_ALL = ['0', '1', '1x', '2', '2x', '3', '4']
SLC_DEFAULT = {'hf': HF_ALL, 'ag': AG_ALL, 'hf_ind': [1, 2], 'ag_hf_ind': [1, 2], 'ag_ind': 'all', 'codecs': [1, 2], 'chld': CHLD_ALL}


def subsets(bits):
    for n in range(len(bits) + 1):
        for c in itertools.combinations(bits, n):
            yield sum(c)


def build_hfp(r, case):
    """Real HfProtocol on the client DLC, real AgProtocol on the server DLC."""
    from bumble import hfp

    hf_cfg = hfp.HfConfiguration(
        supported_hf_features=[f for f in hfp.HfFeature if case['hf'] & f],
        supported_hf_indicators=[hfp.HfIndicator(i) for i in case['hf_ind']],
        supported_audio_codecs=[hfp.AudioCodec(c) for c in case['codecs']],
    )
    ag_cfg = hfp.AgConfiguration(
        supported_ag_features=[f for f in hfp.AgFeature if case['ag'] & f],
        supported_ag_indicators=[
            hfp.AgIndicatorState(indicator=hfp.AgIndicator(name), supported_values=set(vals), current_status=cur)
            for name, vals, cur in AG_IND_SETS[case['ag_ind']]
        ],
        supported_hf_indicators=[hfp.HfIndicator(i) for i in case['ag_hf_ind']],
        supported_ag_call_hold_operations=[hfp.CallHoldOperation(v) for v in case['chld']],
        supported_audio_codecs=[hfp.AudioCodec.CVSD, hfp.AudioCodec.MSBC, hfp.AudioCodec.LC3_SWB],
    )
    w = r.w
    w.run(r.start())
    cd = w.run(r.open(1))
    w.settle()
    sd = r.s_dlc[1]
    hf = hfp.HfProtocol(cd, hf_cfg)
    ag = hfp.AgProtocol(sd, ag_cfg)
    return hf, ag


def slc_reference(case):
    """What HFP 1.8 section 4.2.1 prescribes for this pair of configurations."""
    hf, ag = case['hf'], case['ag']
    codec = bool(hf & 0x080 and ag & 0x200)
    three = bool(hf & 0x002 and ag & 0x001)
    hfind = bool(hf & 0x100 and ag & 0x400)
    cmds = [f'AT+BRSF={hf}']
    if codec:
        cmds.append('AT+BAC=' + ','.join(str(c) for c in case['codecs']))
    cmds += ['AT+CIND=?', 'AT+CIND?', 'AT+CMER=3,,,1']
    if three:
        cmds.append('AT+CHLD=?')
    if hfind:
        cmds += ['AT+BIND=' + ','.join(str(i) for i in case['hf_ind']), 'AT+BIND=?', 'AT+BIND?']
    inter = sorted(set(case['hf_ind']) & set(case['ag_hf_ind'])) if hfind else []
    return {
        'codec': codec,
        'three': three,
        'hfind': hfind,
        'commands': cmds,
        'ag_codecs': list(case['codecs']) if codec else [],
        'chld': list(case['chld']) if three else [],
        'hf_ind_common': inter,
        'ind_names': [n for n, _, _ in AG_IND_SETS[case['ag_ind']]],
        'ind_values': [sorted(v) for _, v, _ in AG_IND_SETS[case['ag_ind']]],
        'ind_status': [c for _, _, c in AG_IND_SETS[case['ag_ind']]],
    }


def feature_class(case):
    ref = slc_reference(case)
    return {'codec': ref['codec'], 'three_way': ref['three'], 'hf_indicators': ref['hfind']}


def run_slc_case(case, reuse=False):
    viol = []
    ref = slc_reference(case)
    fc = feature_class(case)
    # 'mfs': RFCOMM frame size of the data link carrying the AT stream (both ends); result codes then straddle frames
    cfg = {'mfs_c': case['mfs'], 'mfs_s': case['mfs']} if case.get('mfs') else None
    with Rig(cfg=cfg, reuse=reuse) as r:
        w = r.w
        hf, ag = build_hfp(r, case)
        completes = []
        ag.on('slc_complete', lambda: completes.append(1))
        t = w.loop.create_task(hf.initiate_slc())
        try:
            # every AT command has a 1 s answer timeout in HfProtocol: let (virtual) time pass
            w.loop.run_until(t.done, horizon=w.loop.time() + 60.0, max_steps=200000)
            w.loop.run_quiescent(max_steps=100000)
        except StepBudgetExceeded as e:
            viol.append(('slc_livelock', {}, str(e)))
        excs = loop_exceptions(w)
        trace = at_trace(r.data_log)
        failed_at = None
        ok = False
        if not t.done():
            t.cancel()
            w.loop.run_quiescent(max_steps=100000)
            viol.append(('slc_incomplete', dict(fc, how='pending'), f'initiate_slc() still pending; AT traffic: {trace}'))
        elif t.exception() is not None:
            failed_at = trace[-1][0]
            code = (failed_at or '').split('=')[0].split('?')[0]
            sig = dict(how=type(t.exception()).__name__, at=code + ('=?' if (failed_at or '').endswith('=?') else ''))
            # which empty list (if any) the failing exchange carried
            if code == 'AT+BIND' and ref['hfind']:
                sig['empty_ag_hf_indicators'] = not case['ag_hf_ind']
                sig['empty_hf_indicators'] = not case['hf_ind']
            elif code == 'AT+CHLD' and ref['three']:
                sig['empty_call_hold_operations'] = not case['chld']
            elif code == 'AT+BAC' and ref['codec']:
                sig['empty_codecs'] = not case['codecs']
            else:
                sig.update(fc)
            viol.append(('slc_incomplete', sig, f'initiate_slc() raised {t.exception()!r} after {failed_at!r}; AT traffic: {trace}'))
        else:
            ok = True
        for e in excs:
            viol.append(('slc_exception', dict(fc, exc=short_exc(e)), f'exception inside the stack during the SLC: {e}'))
        # AT clause on the SLC's own traffic
        for cmd, results in trace[1:]:
            n = len(finals(results))
            if n != 1:
                viol.append(('slc_final_result_codes', {'cmd': cmd.split('=')[0].split('?')[0], 'finals': n}, f'{cmd!r} was concluded by {n} final result codes: {results}'))
        if trace[0][1]:
            viol.append(('slc_unsolicited_before_command', {}, f'result codes before any command: {trace[0][1]}'))
        if ok:
            sent = [c for c, _ in trace[1:]]
            if sent != ref['commands']:
                viol.append(('slc_command_sequence', fc, f'HF sent {sent}, HFP 4.2.1 prescribes {ref["commands"]}'))
            if len(completes) != 1:
                viol.append(('slc_ag_completion_events', dict(fc, n=len(completes)), f'AG emitted slc_complete {len(completes)} times'))

            def cmp(kind, what, a_name, a, b_name, b, want):
                if not (a == b == want):
                    rel = {'codecs': ['codec'], 'call_hold': ['three_way'], 'hf_indicators': ['hf_indicators']}.get(kind, [])
                    viol.append(('slc_disagree_' + kind, dict({k: fc[k] for k in rel}, hf_ok=(a == want), ag_ok=(b == want)), f'{what}: {a_name} holds {a}, {b_name} holds {b}, configured/negotiated value is {want}'))

            cmp('ag_features', 'AG feature word', 'HF', hf.supported_ag_features, 'AG', ag.supported_ag_features, case['ag'])
            cmp('hf_features', 'HF feature word', 'HF', hf.supported_hf_features, 'AG', ag.supported_hf_features, case['hf'])
            cmp('ag_indicator_names', 'AG indicator list', 'HF', [s.indicator.value for s in hf.ag_indicators], 'AG', [s.indicator.value for s in ag.ag_indicators], ref['ind_names'])
            cmp('ag_indicator_status', 'AG indicator values', 'HF', [s.current_status for s in hf.ag_indicators], 'AG', [s.current_status for s in ag.ag_indicators], ref['ind_status'])

            def vals(s):
                v = s.supported_values
                return sorted(v) if isinstance(v, (set, frozenset, list, tuple)) else v

            cmp('ag_indicator_ranges', 'AG indicator value ranges', 'HF', [vals(s) for s in hf.ag_indicators], 'AG', [vals(s) for s in ag.ag_indicators], ref['ind_values'])
            if ref['codec']:
                cmp('codecs', 'HF codec list', 'HF', [int(c) for c in hf.supported_audio_codecs], 'AG', [int(c) for c in ag.supported_audio_codecs], ref['ag_codecs'])
            elif ag.supported_audio_codecs:
                viol.append(('slc_disagree_codecs', dict(fc, hf_ok=True, ag_ok=False), f'codec negotiation not agreed but AG holds HF codecs {ag.supported_audio_codecs}'))
            cmp('call_hold', 'call hold operations', 'HF', [o.value for o in hf.supported_ag_call_hold_operations], 'AG', [o.value for o in ag.supported_ag_call_hold_operations] if ref['three'] else [], ref['chld'])
            hf_sup = sorted(int(i) for i, s in hf.hf_indicators.items() if s.supported)
            hf_en = sorted(int(i) for i, s in hf.hf_indicators.items() if s.enabled)
            ag_set = sorted(int(i) for i in ag.hf_indicators)
            cmp('hf_indicators', 'HF indicators in use', 'HF', hf_en, 'AG', ag_set, ref['hf_ind_common'])
            if hf_sup != ref['hf_ind_common']:
                viol.append(('slc_disagree_hf_indicators_supported', dict(fc), f'HF marks {hf_sup} as supported by the AG, common set is {ref["hf_ind_common"]}'))
        viol.extend(mon_violations(r.mon, 'wire_'))
        obs = {'commands': [c for c, _ in trace[1:]], 'ok': ok, 'completes': len(completes)}
    return viol, obs


def slc_cases(quick):
    cases = []
    seen = set()

    def add(**kw):
        c = dict(SLC_DEFAULT, **kw)
        k = core.canon_json(c)
        if k not in seen:
            seen.add(k)
            cases.append(c)

    # 1. feature subsets, default lists
    rests = [(0, 0), (1, 1)] if quick else [(0, 0), (1, 1), (0, 1), (1, 0)]
    for hf in subsets(HF_BITS):
        for ag in subsets(AG_BITS):
            for rh, ra in rests:
                add(hf=hf | (HF_REST if rh else 0), ag=ag | (AG_REST if ra else 0))
    # 2. lists, for feature pairs where they matter
    hf_inds = [[], [1], [2], [1, 2], [2, 1]]
    codecs = [[1], [1, 2], [1, 2, 3], [2, 1], []]
    if quick:
        chlds = [[], CHLD_ALL] + [[v] for v in CHLD_ALL]
    else:
        chlds = [[v for i, v in enumerate(CHLD_ALL) if m >> i & 1] for m in range(128)]
    for feats in ({'hf': HF_ALL, 'ag': AG_ALL}, {'hf': sum(HF_BITS[:3]), 'ag': sum(AG_BITS[:3])}):
        for ai in AG_IND_SETS:
            add(ag_ind=ai, **feats)
            for a in hf_inds:
                for b in hf_inds:
                    add(ag_ind=ai, hf_ind=a, ag_hf_ind=b, **feats)
        for cd in codecs:
            add(codecs=cd, **feats)
            for ch in chlds:
                add(codecs=cd, chld=ch, **feats)
        if not quick:
            for a in hf_inds:
                for b in hf_inds:
                    for cd in codecs:
                        for ch in chlds[:: 7]:
                            add(hf_ind=a, ag_hf_ind=b, codecs=cd, chld=ch, ag_ind='three', **feats)
    # 3. every small frame size of the data link (the AT stream is cut at every offset of its result codes), for the
    #    longest and the shortest negotiation
    sizes = list(range(23, 96)) + [126, 127, 128, 129, 255, 256] if quick else list(range(23, 300))
    for feats in ({'hf': HF_ALL, 'ag': AG_ALL}, {'hf': 0, 'ag': 0}):
        for ai in AG_IND_SETS:
            for m in sizes:
                add(ag_ind=ai, mfs=m, **feats)
    # lists given although the feature is off on one side
    for hf, ag in ((HF_ALL & ~0x100, AG_ALL), (HF_ALL, AG_ALL & ~0x400), (HF_ALL & ~0x002, AG_ALL), (HF_ALL, AG_ALL & ~0x001), (HF_ALL & ~0x080, AG_ALL), (HF_ALL, AG_ALL & ~0x200)):
        for a in hf_inds:
            add(hf=hf, ag=ag, hf_ind=a, ag_hf_ind=[1, 2])
            add(hf=hf, ag=ag, hf_ind=[1, 2], ag_hf_ind=a)
        for ch in chlds[:9]:
            add(hf=hf, ag=ag, chld=ch)
    return cases


def w_slc(cases):
    st = core.Stats('slc')
    for case in cases:
        viol, obs = run_slc_case(case, reuse=True)
        if viol and _needs_confirmation(viol):
            viol2, _ = run_slc_case(case)
            if sorted(core.canon_json(x[:2]) for x in viol2) != sorted(core.canon_json(x[:2]) for x in viol):
                raise core.HarnessError(f'slc case {case}: verdict differs between reused and fresh stacks: {viol} / {viol2}')
        st.case(case, None)
        st.add('command_sequences', core.digest(obs['commands'][1:]))
        st.add('feature_classes', core.canon_json(feature_class(case)))
        if obs['ok']:
            st.count('slc_completed')
        if len(st.samples) < 1:
            st.samples.append({'case': case, 'obs': obs})
        for check, sig, msg in viol:
            st.violation(check, sig, f'{msg}  [case {case}]', {'slc': case})
    return st


def run_slc(ctx):
    cases = slc_cases(ctx.quick)
    for r in core.pmap(w_slc, core.split(cases, ctx.jobs * 4), ctx.jobs):
        ctx.sub('slc').merge(r)
    ctx.log('slc:', ctx.sub('slc').summary())


# ---------------------------------------------------------------------------
# sub-check 5: exactly one final result code per AT command
# ---------------------------------------------------------------------------
AT_STATES = {
    # name -> (slc case, run the SLC first?, commands sent before the probe)
    'fresh': (SLC_DEFAULT, False, []),
    'slc_full': (SLC_DEFAULT, True, []),
    'slc_full_cmee': (SLC_DEFAULT, True, ['AT+CMEE=1']),
    'slc_plain': (dict(SLC_DEFAULT, hf=HF_ALL & ~(0x002 | 0x100 | 0x080), ag=AG_ALL & ~(0x001 | 0x400 | 0x200)), True, []),
}
VALUES_Q = ['1', '0', '3', '15', '99999', '', 'abc', '1x', '(1,2)']
VALUES_T = VALUES_Q + ['2', '7', '21', '255', '-1', '"1"', '4', '2x', '1,']
VALUE_KIND = {'': 'empty', 'abc': 'nonnumeric', '1x': 'digit_letter', '2x': 'digit_letter', '(1,2)': 'nested_list', '"1"': 'quoted_number', '1,': 'extra_comma'}


def ag_handlers():
    """[(code, sub, required, max_or_None)] introspected from the real AgProtocol."""
    from bumble import hfp

    out = []
    for name, fn in sorted(inspect.getmembers(hfp.AgProtocol, inspect.isfunction)):
        if not name.startswith('_on_'):
            continue
        body = name[4:]
        sub = ''
        if body.endswith('_test'):
            body, sub = body[:-5], '=?'
        elif body.endswith('_read'):
            body, sub = body[:-5], '?'
        ps = list(inspect.signature(fn).parameters.values())[1:]
        var = any(p.kind == p.VAR_POSITIONAL for p in ps)
        pos = [p for p in ps if p.kind in (p.POSITIONAL_ONLY, p.POSITIONAL_OR_KEYWORD)]
        req = sum(1 for p in pos if p.default is p.empty)
        out.append((body.upper(), sub, req, None if var else len(pos)))
    return out


def command_text(code, sub, args):
    if code == 'A':
        return 'ATA' + ','.join(args)
    if code == 'D':
        return 'ATD' + ','.join(args) + ';'
    if sub in ('=?', '?'):
        return f'AT+{code}{sub}' + ','.join(args)
    if not args:
        return f'AT+{code}'
    return f'AT+{code}=' + ','.join(args)


def at_handler_cases(quick):
    """[(form, arity_rel, value_kind, command line)]"""
    values = VALUES_Q if quick else VALUES_T
    out = []
    seen = set()
    for code, sub, req, mx in ag_handlers():
        form = 'ATA' if code == 'A' else 'ATD' if code == 'D' else f'AT+{code}{sub or "="}'
        ks = sorted({max(req - 1, 0), req, req + 1} | ({0, 1, 2, 3, 8} if mx is None else set(range(req, mx + 2))))
        for k in ks:
            rel = 'too_few' if k < req else 'too_many' if (mx is not None and k > mx) else 'ok'
            combos = []
            if k == 0:
                combos.append(())
            else:
                for v in values:
                    combos.append((v,) * k)
                if k >= 2:
                    small = ['1', '0', '3', '', 'abc']
                    if k <= 4:
                        combos.extend(itertools.product(small, repeat=k) if (not quick or k == 2) else [])
                    for i in range(k):
                        for v in values:
                            combos.append(tuple(v if j == i else '1' for j in range(k)))
            for args in combos:
                line = command_text(code, sub, list(args))
                kinds = sorted({VALUE_KIND.get(a, 'numeric') for a in args}) or ['none']
                key = line
                if key in seen:
                    continue
                seen.add(key)
                out.append((form, rel, '+'.join(kinds), line))
                if code not in ('A', 'D') and not sub and not args:
                    # 'AT+X=' : set form with an empty parameter list
                    out.append((form, rel, 'none', f'AT+{code}='))
    return out


HF_EMITTED = [
    'AT+CCWA=1', 'AT+CCWA=0', 'AT+CLIP=1', 'AT+CLIP=0', 'AT+CMEE=1', 'AT+CMEE=0', 'AT+NREC=0', 'AT+BVRA=1', 'AT+BVRA=0', 'AT+BVRA=2',
    'AT+VGS=0', 'AT+VGS=15', 'AT+VGM=0', 'AT+VGM=15', 'AT+BINP=1', 'AT+BLDN', 'ATD1234567;', 'ATD>1;', 'ATA', 'AT+CHUP', 'AT+VTS=1', 'AT+VTS=#',
    'AT+CNUM', 'AT+COPS=3,0', 'AT+COPS?', 'AT+BTRH?', 'AT+BTRH=1', 'AT+BIA=1,1,0,,1', 'AT+BIA=0,0,0,0,0,0,0', 'AT+BIA=', 'AT+BIA=,,,',
    'AT+BIEV=1,1', 'AT+BIEV=2,50', 'AT+BIEV=3,1', 'AT+CHLD=0', 'AT+CHLD=1', 'AT+CHLD=2', 'AT+CHLD=3', 'AT+CHLD=4', 'AT+CHLD=11', 'AT+CHLD=21', 'AT+CHLD=12',
    'AT+CHLD=5', 'AT+CHLD=?', 'AT+BCC', 'AT+BCS=1', 'AT+BCS=2', 'AT+BCS=3', 'AT+BAC=1', 'AT+BAC=1,2', 'AT+BAC=1,2,3', 'AT+CLCC', 'AT+CKPD=200',
    'AT+XAPL=ABCD-1234-0100,10', 'AT+IPHONEACCEV=1,1,5', 'AT+CIND=?', 'AT+CIND?', 'AT+CMER=3,0,0,1', 'AT+CMER=3,0,0,0', 'AT+CMER=3,,,1', 'AT+CMER=3,,,0',
    'AT+BIND=1', 'AT+BIND=1,2', 'AT+BIND=?', 'AT+BIND?', 'AT+BRSF=0', 'AT+BRSF=4095', 'AT+CSRSF=0,0,0,0,0,7',
]
HF_METHODS = ['setup_audio_connection', 'setup_codec_connection:1', 'setup_codec_connection:2', 'setup_codec_connection:3', 'setup_codec_connection:0',
              'setup_codec_connection:255', 'answer_incoming_call', 'reject_incoming_call', 'terminate_call', 'query_current_calls']
CALL_SETS = {'no_calls': 0, 'one_call': 1, 'two_calls': 2}


def prepare_at(r, state, calls=0):
    from bumble import hfp

    case, do_slc, pre = AT_STATES[state]
    hf, ag = build_hfp(r, case)
    w = r.w
    for i in range(calls):
        ag.calls.append(
            hfp.CallInfo(index=i + 1, direction=hfp.CallInfoDirection.MOBILE_TERMINATED_CALL, status=hfp.CallInfoStatus.ACTIVE, mode=hfp.CallInfoMode.VOICE,
                         multi_party=hfp.CallInfoMultiParty.NOT_IN_CONFERENCE, number='+1234' if i == 0 else None, type=145 if i == 0 else None)
        )
    if do_slc:
        t = w.loop.create_task(hf.initiate_slc())
        w.loop.run_until(t.done, horizon=w.loop.time() + 60.0, max_steps=200000)
        if not t.done() or t.exception() is not None:
            raise core.HarnessError(f'AT state {state}: SLC did not complete')
    for cmd in pre:
        w.run(hf.execute_command(cmd), horizon=w.loop.time() + 5.0)
    w.settle()
    w.loop.collect_exceptions()
    return hf, ag


def run_at_case(state, line=None, method=None, calls=0, reuse=False):
    """Send one command (raw line on the HF's DLC, or by calling a real HfProtocol
    method), then AT+CHUP.  -> dict(finals, results, exc, probe_finals, cmds)"""
    with Rig(reuse=reuse) as r:
        w = r.w
        hf, ag = prepare_at(r, state, calls)
        n0 = len(r.data_log)
        res = {'hf_raised': None}
        if line is not None:
            # raw line on the HF's DLC (HfProtocol.execute_command would add nothing but a timeout)
            hf.dlc.write(line + '\r')
            w.settle()
        else:
            name, _, arg = method.partition(':')
            fn = getattr(hf, name)
            t = w.loop.create_task(fn(int(arg)) if arg else fn())
            w.loop.run_until(t.done, horizon=w.loop.time() + 10.0, max_steps=200000)
            w.loop.run_quiescent(max_steps=100000)
            if not t.done():
                t.cancel()
                res['hf_raised'] = 'pending'
            elif t.exception() is not None:
                res['hf_raised'] = type(t.exception()).__name__
        # let HfProtocol's 1 s answer timeout (if any is pending) expire, then flush
        w.loop.advance(2.0)
        w.settle()
        excs = loop_exceptions(w)
        trace = at_trace(r.data_log[n0:])
        res['unsolicited'] = trace[0][1]
        res['commands'] = [(c, results, len(finals(results))) for c, results in trace[1:]]
        res['exc'] = sorted({short_exc(e) for e in excs})
        # the AG still answers
        n1 = len(r.data_log)
        hf.dlc.write('AT+CHUP\r')
        w.settle()
        tr2 = at_trace(r.data_log[n1:])
        res['probe_finals'] = sum(len(finals(results)) for _, results in tr2)
        res['probe_trace'] = tr2
        loop_exceptions(w)
        # a case that raised inside the stack may leave debris: never reuse those stacks
        if res['exc'] or res['probe_finals'] != 1:
            r.reuse = False
    return res


def ref_arity(line):
    """Number of parameters of an extended-syntax command line (reference tokenisation: top-level commas)."""
    for sep in ('=?', '?', '='):
        if sep in line:
            text = line.split(sep, 1)[1]
            break
    else:
        if line.startswith('ATD'):
            return 1
        return 0
    if text == '':
        return 0
    depth = 0
    n = 1
    quoted = False
    for ch in text:
        if ch == '"':
            quoted = not quoted
        elif quoted:
            continue
        elif ch == '(':
            depth += 1
        elif ch == ')':
            depth -= 1
        elif ch == ',' and depth == 0:
            n += 1
    return n


def w_at(items):
    """items: (kind, state, form, (req, max), vkind, line_or_method, calls) -> raw result dicts"""
    out = []
    for kind, state, form, bounds, vkind, what, calls in items:
        if kind == 'line':
            res = run_at_case(state, line=what, calls=calls, reuse=True)
        else:
            res = run_at_case(state, method=what, calls=calls, reuse=True)
        rel = 'ok'
        if bounds is not None:
            k = ref_arity(what)
            rel = 'too_few' if k < bounds[0] else 'too_many' if (bounds[1] is not None and k > bounds[1]) else 'ok'
        bad = [(c, f) for c, _, f in res['commands'] if f != 1]
        out.append({'kind': kind, 'state': state, 'form': form, 'rel': rel, 'vkind': vkind, 'what': what, 'calls': calls,
                    'n_cmds': len(res['commands']), 'bad': bad, 'exc': res['exc'], 'probe': res['probe_finals'], 'hf_raised': res['hf_raised'],
                    'results': [r_ for _, r_, _ in res['commands']][:3]})
    return out


def at_items(quick):
    items = []
    bounds = {}
    for code, sub, req, mx in ag_handlers():
        form = 'ATA' if code == 'A' else 'ATD' if code == 'D' else f'AT+{code}{sub or "="}'
        bounds[form] = (req, mx)
    hc = at_handler_cases(quick)
    for state in AT_STATES:
        if not quick or state in ('fresh', 'slc_full_cmee'):
            for form, _, vkind, line in hc:
                items.append(('line', state, form, bounds[form], vkind, line, 0))
        for line in HF_EMITTED:
            items.append(('line', state, 'hf:' + line, None, 'as_emitted', line, 0))
    for state in ('slc_full', 'slc_plain'):
        for m in HF_METHODS:
            for cname, n in CALL_SETS.items():
                if n and not m.startswith('query'):
                    continue
                items.append(('method', state, 'hf:' + m, None, cname, m, n))
    for line in ('AT+CHLD=11', 'AT+CHLD=21', 'AT+CHLD=12', 'AT+CHLD=1', 'AT+CLCC'):
        items.append(('line', 'slc_full', 'hf:' + line, None, 'one_call', line, 1))
    return items


def run_at(ctx):
    st = ctx.sub('at')
    items = at_items(ctx.quick)
    results = []
    for part in core.pmap(w_at, core.split(items, ctx.jobs * 4), ctx.jobs):
        results.extend(part)
    groups = {}
    extra = {}
    qkeys = {(it[1], it[5], it[6]) for it in (items if ctx.quick else at_items(True))}
    for res in results:
        st.case((res['state'], res['what'], res['calls']), None)
        st.add('command_forms', res['form'])
        st.add('outcome_classes', core.digest([res['form'], res['rel'], res['vkind'], [f for _, f in res['bad']], res['exc'], res['probe']]))
        if res['n_cmds'] == 0:
            raise core.HarnessError(f'AT case {res}: no command seen on the wire')
        if not res['bad'] and res['probe'] == 1:
            st.count('concluded_by_exactly_one')
            continue
        case = {'state': res['state'], 'kind': res['kind'], 'what': res['what'], 'calls': res['calls']}
        f = res['bad'][0][1] if res['bad'] else 1
        emitted = res['form'].startswith('hf:')
        if emitted:
            # a command exactly as the HF role emits it: listed by its full text (and the HfProtocol method that sent it)
            coarse = 'as_emitted_by_hf'
            res['form'] = res['form'][3:] + (f' [{res["calls"]} calls]' if res['calls'] else '')
        else:
            coarse = '*' if res['rel'] != 'ok' else ('numeric' if res['vkind'] in ('numeric', 'none') else 'not_all_numeric')
        key = (f, tuple(res['exc']), res['rel'], coarse, res['probe'] == 1)
        # signatures are tier-independent: class membership is taken from the quick tier's space; what only the thorough
        # tier's additional values / states add to a class is reported separately
        table = groups if (res['state'], res['what'], res['calls']) in qkeys else extra
        g = table.setdefault(key, {'forms': set(), 'states': set(), 'examples': []})
        g['forms'].add(res['form'])
        g['states'].add(res['state'])
        if res['form'] not in {e['form'] for e in g['examples']}:
            g['examples'].append(dict(case, form=res['form'], results=res['results']))
    report = [(k, g, False) for k, g in groups.items()]
    for k, g in extra.items():
        more = g['forms'] - groups.get(k, {'forms': set()})['forms']
        if more:
            g['forms'] = more
            g['examples'] = [e for e in g['examples'] if e['form'] in more]
            report.append((k, g, True))
    for (f, exc, rel, coarse, answers), g, beyond in sorted(report, key=lambda kv: repr((kv[0], kv[2]))):
        sig = {'finals': f, 'cause': list(exc), 'arity': rel, 'values': coarse, 'ag_answers_afterwards': answers, 'commands': sorted(g['forms'])}
        if beyond:
            sig['only_in_thorough_space'] = True
        ex = g['examples'][0]
        st.violation(
            'at_final_result_codes',
            sig,
            f'{len(g["forms"])} command forms (arity {rel}, values {coarse}) are concluded by {f} final result codes (exception inside the AG: {list(exc) or "none"}; '
            f'a following AT+CHUP is {"answered" if answers else "NOT answered"}) in AG states {sorted(g["states"])}: {sorted(g["forms"])}; e.g. [{ex["state"]}] {ex["what"]!r} -> {ex["results"]}',
            {'at': [{k: e[k] for k in ('state', 'kind', 'what', 'calls')} for e in g['examples'][:40]]},
        )
    ctx.log('at:', st.summary())


def replay_at(v):
    msgs = []
    for c in v.case['at']:
        if c['kind'] == 'method':
            res = run_at_case(c['state'], method=c['what'], calls=c['calls'])
        else:
            res = run_at_case(c['state'], line=c['what'], calls=c['calls'])
        bad = [(cmd, f) for cmd, _, f in res['commands'] if f != 1]
        if bad or res['probe_finals'] != 1:
            msgs.append(f'[{c["state"]}] {c["what"]!r}: {bad}, following AT+CHUP got {res["probe_finals"]} finals, exceptions {res["exc"]}')
    return msgs


# ---------------------------------------------------------------------------
# entry points
# ---------------------------------------------------------------------------
def _balanced(items, cost, n):
    """n slices of roughly equal estimated cost (longest first, greedy)."""
    order = sorted(range(len(items)), key=lambda i: -cost(items[i]))
    bins = [[0.0, []] for _ in range(max(1, min(n, len(items))))]
    for i in order:
        b = min(bins, key=lambda b: b[0])
        b[0] += cost(items[i])
        b[1].append(i)
    return [[items[i] for i in sorted(b[1])] for b in bins]


def run(ctx: core.Context) -> int:
    quick = ctx.quick
    only = getattr(ctx, 'only', None)

    def want(name):
        return not only or name in only

    if want('stream'):
        cases = stream_cases(quick)
        parts = _balanced(cases, lambda cp: stream_cost(*cp), ctx.jobs * 6)
        for r in core.pmap(w_stream, parts, ctx.jobs):
            ctx.sub('stream').merge(r)
        ctx.log('stream:', ctx.sub('stream').summary())
    if want('multi'):
        depth = 5 if quick else 6
        hs = histories(depth)
        for r in core.pmap(w_multi, core.split(hs, ctx.jobs * 6), ctx.jobs):
            ctx.sub('multi').merge(r)
        ctx.sub('multi').counters['history_depth'] = depth
        ctx.log('multi:', ctx.sub('multi').summary())
    if want('late_sink'):
        for r in core.pmap(w_late_sink, core.split(late_sink_cases(quick), ctx.jobs * 2), ctx.jobs):
            ctx.sub('late_sink').merge(r)
        ctx.log('late_sink:', ctx.sub('late_sink').summary())
    if want('sched'):
        st = ctx.sub('sched')
        bound = 1 if quick else 2
        for s in SCHED_SCRIPTS:
            explore.explore(run_sched, {'script': s}, bound, ctx.jobs, st, max_runs=None if quick else 15000, label=f'{s}:')
        for late in ('s', 'c'):
            for delay in SAME_CLOSE_DELAYS:
                explore.explore(run_sched, {'script': 'same_close', 'delay': delay, 'late': late}, 1, ctx.jobs, st, label=f'same_close+{delay}{late}:')
        ctx.log('sched:', st.summary())
    if want('slc'):
        run_slc(ctx)
    if want('at'):
        run_at(ctx)
    return core.finish(
        ctx,
        LEVEL,
        rule=RULE,
        assumptions=ASSUMPTIONS,
    )


RULE = (
    'stream: (max frame size per side in {23,24,127,128,129,1000,32767}, initial credits per side 1..7, L2CAP MTU per side in '
    '{48,132,133,2048,65535}, ACL packet size {27,1021}) with <= 2 parameters off default x write-size sequences over '
    '{1,E-1,E,E+1,3E,20E[,2E+1,33E,70E]} (E = reference payload room of that direction) in both directions, issued back to back, '
    'one per quiescence, or from inside the acceptor; distinct = (configuration, plan). multi: every operation history of the '
    'stated depth over 3 channels of different geometry (open, close by either end, transfer, transfer concurrent with another '
    "link's open/close, simultaneous closes, shutdown, restart); distinct = history. sched: 5 scripts x all order-preserving "
    'delivery delays within the deviation bound; distinct = (schedule prefix, choice fingerprints). slc: HF feature subsets x AG '
    'feature subsets over the bits the SLC code branches on x list configurations; distinct = configuration pair. at: AG '
    'handler x arity x value class x AG state, plus every command-emitting HfProtocol method; distinct = (state, command line).'
)
ASSUMPTIONS = [
    'RFCOMM links are opened by the Client side (bumble.rfcomm.Client has no acceptor, a server-initiated open_dlc is never answered)',
    'applications install their sink as soon as they are handed the DLC (acceptor callback / return of open_dlc)',
    'max frame size is per direction: a frame must fit what its RECEIVER announced in its PN (bumble does not reduce the PN response to the requested N1; counted, not a verdict)',
    'an AG configured without any AG indicator is not a valid HFP configuration and is not enumerated',
    'AT lines that are not HFP commands (V.250 basic commands such as ATZ) belong to C17 and are not enumerated',
]


def replay(v: core.Violation):
    c = v.case
    if 'plan' in c:
        viol, _ = run_stream_case(c['cfg'], c['plan'])
        return [m for ck, _, m in viol if ck == v.check]
    if 'history' in c:
        viol, _ = run_history([tuple(op) for op in c['history']])
        return [m for ck, _, m in viol if ck == v.check]
    if 'prefix' in c:
        res = run_sched(c['params'], c['prefix'], None)
        return [m for ck, _, m in res['viol'] if ck == v.check]
    if 'late_sink' in c:
        return [m for ck, _, m in run_late_sink(c['late_sink']) if ck == v.check]
    if 'slc' in c:
        viol, _ = run_slc_case(c['slc'])
        return [m for ck, _, m in viol if ck == v.check]
    if 'at' in c:
        return replay_at(v)
    return []


# ---------------------------------------------------------------------------
# late sinks: data arrives on several data links BEFORE the application attaches their sinks (between the DLC open event
# and `dlc.sink = ...`); what each link queued meanwhile belongs to that link alone and is handed over, in order, when
# its own sink is attached - in whatever order the sinks are attached
# ---------------------------------------------------------------------------
def late_sink_cases(quick):
    out = []
    chsets = [(1, 2), (1, 3), (1, 2, 3)]
    for chs in chsets:
        for direction in ('c2s', 's2c', 'both'):
            for order in itertools.permutations(chs):
                for writes in ([(c, 1) for c in chs] * 2, [(chs[0], 1), (chs[-1], 2), (chs[0], 3)], [(c, 1) for c in reversed(chs)]):
                    out.append({'chs': list(chs), 'dir': direction, 'attach_order': list(order), 'writes': [list(x) for x in writes]})
    return out


def run_late_sink(case):
    viol = []
    chs = case['chs']
    with Rig(channels={c: MULTI_CHANNELS[c] for c in chs}) as r:
        w = r.w
        held = {}
        r_acceptor = r._acceptor

        def acceptor(dlc):  # the application keeps the DLC and attaches its sink later
            ch = dlc.dlci >> 1
            r.gen[ch] = r.gen.get(ch, 0) + 1
            r.s_dlc[ch] = dlc
            held[(1, ch)] = dlc

        r.server.acceptors = {ch: acceptor for ch in r.server.acceptors} if hasattr(r.server, 'acceptors') else None
        if r.server.acceptors is None:
            return [('late_sink_harness', {}, 'rfcomm.Server has no acceptors table')]
        w.run(r.start())
        for ch in chs:
            mfs_c, k_c, _, _ = r.channels[ch]
            dlc = w.run(r.mux.open_dlc(ch, max_frame_size=mfs_c, initial_credits=k_c))
            r.c_dlc[ch] = dlc
            held[(0, ch)] = dlc
        w.settle()
        expect = {}
        for i, (ch, tag) in enumerate(case['writes']):
            data = pattern(0x30 + ch, i * 7, 5 + tag)
            if case['dir'] in ('c2s', 'both'):
                r.c_dlc[ch].write(data)
                expect.setdefault((1, ch), bytearray()).extend(data)
            if case['dir'] in ('s2c', 'both'):
                d2 = pattern(0x60 + ch, i * 5, 4 + tag)
                r.s_dlc[ch].write(d2)
                expect.setdefault((0, ch), bytearray()).extend(d2)
            w.settle()
        got = {}
        for ch in case['attach_order']:
            for end in (1, 0):
                buf = got.setdefault((end, ch), bytearray())
                held[(end, ch)].sink = buf.extend
        w.settle()
        loop_exceptions(w)
        for key in sorted(set(expect) | set(got)):
            e, g = bytes(expect.get(key, b'')), bytes(got.get(key, b''))
            if e != g:
                end, ch = key
                kind = 'lost' if len(g) < len(e) and e.startswith(g) else 'foreign_or_reordered'
                viol.append(('late_sink_stream', {'kind': kind, 'end': 'server' if end else 'client', 'links': len(chs)},
                             f'late sinks {case}: {"server" if end else "client"} end of channel {ch} was handed {g.hex()} when its sink was attached, its peer had written {e.hex()}'))
    return viol


def w_late_sink(cases):
    st = core.Stats('late_sink')
    for case in cases:
        res = run_late_sink(case)
        st.case(case, None)
        for check, sig, msg in res:
            st.violation(check, sig, msg, {'late_sink': case})
    if cases:
        st.samples.append({'case': cases[0]})
    return st
