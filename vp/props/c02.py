"""C02 — HCI byte streams are re-framed into the same packets under any chunking.

Explicit-state exploration of the real framers: every (stream, chunking) in a
bounded space is fed to the real PacketParser / PacketReader / AsyncPacketReader /
USB PacketSplitter and compared with the reference framer (the generator's own
packet list).  The push parser's internal state graph (state, bytes_needed,
len(packet), type) is recorded to show which states/transitions were reached.
"""
from __future__ import annotations

import asyncio
import io
import itertools
from unittest import mock

from .. import core
from ..vloop import VLoop

LEVEL = 'model_checking'

# type -> (header bytes before length, length size)
INFO = {0x01: (2, 1), 0x02: (2, 2), 0x03: (2, 1), 0x04: (1, 1), 0x05: (2, 2)}
LEN8 = [0, 1, 255]
LEN16 = [0, 1, 255, 256, 65535]


def make_packet(ptype: int, body_len: int, salt: int = 0) -> bytes:
    pre, lsz = INFO[ptype]
    # header bytes before the length: non-zero, and chosen to look like type bytes
    head = bytes(((salt + 2 + i) % 5) + 1 for i in range(pre))
    # body bytes cycle through values that include every valid type byte and 0
    body = bytes(((salt + 3 + 7 * i) & 0xFF) if i % 3 else ((salt + i) % 6) for i in range(body_len))
    return bytes([ptype]) + head + body_len.to_bytes(lsz, 'little') + body


def alphabet():
    out = []
    for t in (0x04, 0x01, 0x03, 0x02, 0x05):
        for n in LEN8 if INFO[t][1] == 1 else LEN16:
            out.append((t, n))
    return out  # 19 packets, simplest first


def streams(max_len: int, big_limit: int):
    sig = alphabet()
    for k in range(1, max_len + 1):
        for combo in itertools.product(sig, repeat=k):
            if sum(1 for (_, n) in combo if n >= 65535) > big_limit:
                continue
            yield combo


def build(combo):
    pkts = [make_packet(t, n, salt=i) for i, (t, n) in enumerate(combo)]
    return pkts, b''.join(pkts)


def boundaries(pkts):
    out, off = [], 0
    for p in pkts:
        off += len(p)
        out.append(off)
    return out


def chunkings(pkts, quick: bool, all_comp_limit: int):
    """Yield lists of cut positions (sorted, in 1..n-1)."""
    n = sum(len(p) for p in pkts)
    if n <= all_comp_limit:
        for mask in range(1 << (n - 1)):
            yield [i + 1 for i in range(n - 1) if mask >> i & 1]
        return
    yield []
    seen = set()
    # interesting positions: near packet boundaries and inside headers
    inter = set()
    start = 0
    for p in pkts:
        for d in range(0, 7):
            if 0 < start + d < n:
                inter.add(start + d)
            if 0 < start - d < n:
                inter.add(start - d)
        start += len(p)
    inter = sorted(inter)
    # every single split
    singles = range(1, n) if (n <= 2000 or not quick) else sorted(set(inter) | set(range(1, n, 251)))
    for i in singles:
        yield [i]
    # pairs (and triples when thorough) of interesting positions
    for a, b in itertools.combinations(inter, 2):
        yield [a, b]
    if not quick and len(inter) <= 40:
        for tr in itertools.combinations(inter, 3):
            yield list(tr)
    # uniform chunk sizes
    for size in (1, 2, 3, 5, 7, 4096):
        if size == 1 and n > 3000 and quick:
            continue
        cuts = list(range(size, n, size))
        if cuts:
            yield cuts


def cut(data: bytes, cuts):
    out, prev = [], 0
    for c in cuts:
        out.append(data[prev:c])
        prev = c
    out.append(data[prev:])
    return out


class Recorder:
    def __init__(self, raise_on=None, exc=None):
        self.got = []
        self.fed = 0
        self.when = []
        self.raise_on = raise_on  # index of the delivered packet on which the sink raises
        self.exc = exc

    def on_packet(self, p):
        self.got.append(p)
        self.when.append(self.fed)
        if self.raise_on is not None and len(self.got) - 1 == self.raise_on:
            raise self.exc


class SinkFault(Exception):
    pass


_PROBE = bytes([0x04, 0x0E, 0x03, 0x01, 0x02, 0x03])
_SCALARS = (int, bool, str, type(None))
_BUFFERS = (bytes, bytearray)


def _buf(v):
    return (len(v), v[0] if v else None)


def _other(v):
    if isinstance(v, (bytes, bytearray, memoryview)):
        return (len(v), v[0] if len(v) else None)
    if isinstance(v, int):  # enums
        return int(v)
    if isinstance(v, dict):
        return len(v)
    if callable(v):
        return None
    return getattr(v, 'name', type(v).__name__)


_NODE_OF = {int: None, bool: None, str: None, type(None): None, bytes: _buf, bytearray: _buf}


def node(parser):
    # every data attribute of the parser, whatever it is called (values in attribute order): buffers by (length, first
    # octet), scalars by value, anything else by a short description
    out = []
    for v in parser.__dict__.values():
        f = _NODE_OF.get(type(v), _other)
        out.append(v if f is None else f(v))
    return tuple(out)


def run_push(pkts, data, cuts, graph=None, raise_on=None, exc=None):
    """Returns None if OK, else message.  With raise_on, the sink raises `exc` while handling that
    packet: whatever the handler does, the parser must go on framing the stream."""
    from bumble.transport.common import PacketParser

    rec = Recorder(raise_on, exc)
    parser = PacketParser(rec)
    prev = node(parser)
    for chunk in cut(data, cuts):
        rec.fed += len(chunk)
        try:
            parser.feed_data(chunk)
        except Exception as e:  # only possible when the sink was made to raise
            if raise_on is None:
                raise
            return f'sink fault {type(exc).__name__} on packet {raise_on} escaped from feed_data as {type(e).__name__}: the rest of the chunk is lost'
        if graph is not None:
            cur = node(parser)
            graph[0].add(cur)
            graph[1].add((prev, min(len(chunk), 9), cur))
            prev = cur
    if rec.got != pkts:
        return f'push parser delivered {len(rec.got)} packets, expected {len(pkts)}; first diff at {first_diff(rec.got, pkts)}'
    ends = boundaries(pkts)
    for k, (w, e) in enumerate(zip(rec.when, ends)):
        if w < e:
            return f'packet {k} delivered after {w} bytes fed but ends at {e}'
    # the parser is ready for the next packet (judged by what it does, not by what its fields hold)
    if raise_on is not None:
        return None
    probe = _PROBE
    n0 = len(rec.got)
    parser.feed_data(probe)
    if rec.got[n0:] != [probe]:
        return f'after the whole stream, one more well-formed packet was not framed: got {[p.hex() for p in rec.got[n0:]]} (parser {node(parser)})'
    return None


def first_diff(a, b):
    for i, (x, y) in enumerate(zip(a, b)):
        if x != y:
            return i
    return min(len(a), len(b))


class ChunkRaw(io.RawIOBase):
    def __init__(self, chunks):
        self.chunks = [c for c in chunks if c]
        self.pending = b''

    def readable(self):
        return True

    def readinto(self, b):
        if not self.pending:
            if not self.chunks:
                return 0
            self.pending = self.chunks.pop(0)
        n = min(len(b), len(self.pending))
        b[:n] = self.pending[:n]
        self.pending = self.pending[n:]
        return n


def _raising_is_a_verdict(fn):
    """The streams fed here are well formed: a framer that raises on one has not delivered the packets."""
    import functools

    @functools.wraps(fn)
    def wrapped(*a, **k):
        try:
            return fn(*a, **k)
        except (AssertionError, core.HarnessError):
            raise
        except Exception as e:
            return f'{fn.__name__[4:]} framer raised {type(e).__name__}: {e} on a well-formed stream'

    return wrapped


@_raising_is_a_verdict
def run_blocking(pkts, data, cuts):
    from bumble.transport.common import PacketReader

    reader = PacketReader(io.BufferedReader(ChunkRaw(cut(data, cuts)), buffer_size=16))
    got = []
    while True:
        p = reader.next_packet()
        if p is None:
            break
        got.append(p)
        if len(got) > len(pkts) + 2:
            break
    if got != pkts:
        return f'blocking reader returned {len(got)} packets, expected {len(pkts)}; first diff at {first_diff(got, pkts)}'
    return None


@_raising_is_a_verdict
def run_async(loop, pkts, data, cuts):
    from bumble.transport.common import AsyncPacketReader

    sr = asyncio.StreamReader(limit=1 << 20, loop=loop)
    reader = AsyncPacketReader(sr)
    got, when = [], []
    fed = [0]

    async def pump():
        try:
            while True:
                got.append(await reader.next_packet())
                when.append(fed[0])
        except asyncio.IncompleteReadError:
            pass

    task = loop.create_task(pump())
    for chunk in cut(data, cuts):
        fed[0] += len(chunk)
        sr.feed_data(chunk)
        loop.run_quiescent()
    sr.feed_eof()
    loop.run_quiescent()
    if not task.done():
        task.cancel()
        loop.run_quiescent()
        return 'async reader task did not finish at EOF'
    if got != pkts:
        return f'async reader returned {len(got)} packets, expected {len(pkts)}; first diff at {first_diff(got, pkts)}'
    for k, (w, e) in enumerate(zip(when, boundaries(pkts))):
        if w < e:
            return f'async packet {k} returned after {w} bytes fed, ends at {e}'
    return None


@_raising_is_a_verdict
def run_usb(ptype, pkts, cuts):
    from bumble.transport import usb

    cls = {0x04: usb.EventPacketSplitter, 0x02: usb.AclPacketSplitter, 0x03: usb.ScoPacketSplitter}[ptype]
    bodies = [p[1:] for p in pkts]
    data = b''.join(bodies)
    got = []
    sp = cls(lambda p: got.append(bytes(p)))
    when, fed = [], 0

    orig = sp.emit

    def emit(p):
        orig(p)
        when.append(fed)

    sp.emit = emit
    for chunk in cut(data, cuts):
        fed += len(chunk)
        sp.feed(chunk)
    if got != bodies:
        return f'usb splitter emitted {len(got)} packets, expected {len(bodies)}; first diff at {first_diff(got, bodies)}'
    for k, (w, e) in enumerate(zip(when, boundaries(bodies))):
        if w < e:
            return f'usb packet {k} emitted after {w} bytes, ends at {e}'
    return None


# ---------------------------------------------------------------------------
# worker: chunking sub-check over a slice of streams
# ---------------------------------------------------------------------------
def w_chunking(arg):
    combos, quick = arg
    st = core.Stats('chunking')
    nodes, edges = set(), set()
    loop = VLoop()
    loop.__enter__()
    try:
        limit = 14 if quick else 17
        for combo in combos:
            pkts, data = build(combo)
            n = len(data)
            nchunk = 0
            for cuts in chunkings(pkts, quick, limit):
                nchunk += 1
                msg = run_push(pkts, data, cuts, (nodes, edges))
                st.case((combo, tuple(cuts)) if n < 600 else (combo, len(cuts), cuts[:3]), None, nontrivial=bool(cuts))
                if msg:
                    st.violation('push_chunking', {'framer': 'PacketParser', 'stream': [list(c) for c in combo]}, msg, {'combo': combo, 'cuts': cuts})
                    break
                if n <= 600 and len(cuts) <= 2:
                    # the packet handler fails on one packet (any exception type): later packets are still framed
                    import struct as _struct

                    for k in range(len(pkts)):
                        for exc in (ValueError('x'), _struct.error('x'), SinkFault('x'), KeyError('x')):
                            st.count('sink_fault_runs')
                            msg = run_push(pkts, data, cuts, None, k, exc)
                            if msg:
                                st.violation('push_sink_fault', {'framer': 'PacketParser', 'exception': type(exc).__name__}, f'sink raising {type(exc).__name__} on packet {k}: {msg}', {'combo': combo, 'cuts': cuts, 'raise_on': k, 'exc': type(exc).__name__})
                                break
                # the other framers: same boundaries required
                if len(cuts) <= 3 or n <= 12:
                    msg = run_blocking(pkts, data, cuts)
                    st.count('blocking_runs')
                    if msg:
                        st.violation('blocking_chunking', {'framer': 'PacketReader', 'stream': [list(c) for c in combo]}, msg, {'combo': combo, 'cuts': cuts})
                        break
                if n <= 10 or (len(cuts) <= 1 and n <= 600) or (len(cuts) == n - 1 and n <= 600):
                    msg = run_async(loop, pkts, data, cuts)
                    st.count('async_runs')
                    if msg:
                        st.violation('async_chunking', {'framer': 'AsyncPacketReader', 'stream': [list(c) for c in combo]}, msg, {'combo': combo, 'cuts': cuts})
                        break
            if len(st.samples) < 3:
                st.samples.append({'stream': [list(c) for c in combo], 'bytes': n, 'chunkings': nchunk})
            # USB per-endpoint: streams of a single type only
            types = {t for t, _ in combo}
            if len(types) == 1 and next(iter(types)) in (0x02, 0x03, 0x04):
                t = next(iter(types))
                bodies = [p[1:] for p in pkts]
                for cuts in chunkings(bodies, quick, limit):
                    st.count('usb_runs')
                    msg = run_usb(t, pkts, cuts)
                    if msg:
                        st.violation('usb_chunking', {'framer': 'PacketSplitter', 'stream': [list(c) for c in combo]}, msg, {'combo': combo, 'cuts': cuts})
                        break
    finally:
        loop.shutdown()
        loop.__exit__()
    st.sets['nodes'] = nodes
    st.sets['edges'] = edges
    return st


# ---------------------------------------------------------------------------
# invalid type byte
# ---------------------------------------------------------------------------
BAD = [0x00, 0x06, 0xFF, 0x07, 0x80]


def run_invalid(combo1, bad, trailing, combo2, split_second):
    from bumble import core as bcore
    from bumble.transport.common import PacketParser

    p1, d1 = build(combo1)
    p2, d2 = build(combo2)
    rec = Recorder()
    # a second parser instance in the same process that knows the bad byte as a vendor packet type:
    # instances must not share their extension tables
    decoy = PacketParser(Recorder())
    decoy.extended_packet_info[bad] = (1, 1, 'B')
    parser = PacketParser(rec)
    raised = False
    try:
        parser.feed_data(d1 + bytes([bad]) + trailing)
    except bcore.InvalidPacketError:
        raised = True
    if not raised:
        return 'invalid type byte not reported (no InvalidPacketError)'
    if rec.got != p1:
        return f'packets before the invalid byte: got {len(rec.got)} expected {len(p1)}'
    rec.got = []
    if split_second and len(d2) > 1:
        parser.feed_data(d2[:1])
        parser.feed_data(d2[1:])
    else:
        parser.feed_data(d2)
    if rec.got != p2:
        return f'data fed after the error framed wrongly: got {len(rec.got)} packets expected {len(p2)} (first diff {first_diff(rec.got, p2)})'
    return None


def w_invalid(arg):
    combos1, combos2 = arg
    st = core.Stats('invalid_type')
    for c1 in combos1:
        for bad in BAD:
            for trailing in (b'', b'\x04\x00\x00', b'\x01'):
                for c2 in combos2:
                    for split in (False, True):
                        st.case((c1, bad, trailing, c2, split), None)
                        msg = run_invalid(c1, bad, trailing, c2, split)
                        if msg:
                            st.violation(
                                'invalid_type',
                                {'bad': bad, 'trailing': trailing.hex()},
                                msg,
                                {'c1': c1, 'bad': bad, 'trailing': trailing.hex(), 'c2': c2, 'split': split},
                            )
    if combos1:
        st.samples.append({'before': [list(c) for c in combos1[0]], 'bad_byte': BAD[0], 'after': [list(c) for c in combos2[0]]})
    return st


# ---------------------------------------------------------------------------
# server hand-over
# ---------------------------------------------------------------------------
class FakeTransport:
    def get_extra_info(self, *a, **k):
        return 'peer'

    def write(self, data):
        pass

    def close(self):
        pass


class FakeWs:
    local_address = ('l', 1)
    remote_address = ('r', 2)

    def __init__(self, chunks):
        self.chunks = list(chunks)

    def __aiter__(self):
        return self

    async def __anext__(self):
        if not self.chunks:
            raise StopAsyncIteration
        return self.chunks.pop(0)


def open_server(loop, kind):
    """Returns (source, client_session) where client_session(chunks, ending) plays one
    client."""
    if kind in ('tcp_server', 'unix_server'):
        captured = {}

        async def fake_create(factory, *a, **k):
            captured['factory'] = factory
            return mock.MagicMock()

        if kind == 'tcp_server':
            from bumble.transport.tcp_server import open_tcp_server_transport

            with mock.patch.object(loop, 'create_server', fake_create):
                transport = loop.run(open_tcp_server_transport('localhost:32100'))
        else:
            from bumble.transport.unix import open_unix_server_transport

            with mock.patch.object(loop, 'create_unix_server', fake_create, create=True):
                transport = loop.run(open_unix_server_transport('@verif'))

        def session(chunks, ending):
            proto = captured['factory']()
            proto.connection_made(FakeTransport())
            for c in chunks:
                proto.data_received(c)
            if ending == 'eof+lost':
                proto.eof_received()
                proto.connection_lost(None)
            elif ending == 'lost':
                proto.connection_lost(ConnectionResetError())
            elif ending == 'open':
                pass

        return transport.source, session
    elif kind == 'ws_server':
        import websockets.asyncio.server

        from bumble.transport.ws_server import open_ws_server_transport

        async def fake_serve(*a, **k):
            return mock.MagicMock()

        with mock.patch.object(websockets.asyncio.server, 'serve', fake_serve):
            transport = loop.run(open_ws_server_transport('localhost:32101'))

        def session(chunks, ending):
            loop.run(transport.on_connection(FakeWs(chunks)))

        return transport.source, session
    raise ValueError(kind)


def run_handover(loop, kind, combo1, cutpos, ending, combo2, chunked2):
    p1, d1 = build(combo1)
    p2, d2 = build(combo2)
    source, session = open_server(loop, kind)
    rec = Recorder()
    source.set_packet_sink(rec)
    session([d1[:cutpos]] if cutpos else [], ending)
    complete = [p for p, e in zip(p1, boundaries(p1)) if e <= cutpos]
    if rec.got != complete:
        return f'first client: {len(rec.got)} packets delivered, expected {len(complete)}'
    rec.got = []
    chunks = [d2[:1], d2[1:]] if (chunked2 and len(d2) > 1) else [d2]
    try:
        session(chunks, 'open')
    except Exception as e:  # an exception while framing a well-formed stream is a mis-framing
        return (
            f'new client stream raised {type(e).__name__} ({e}) after previous client was cut at byte '
            f'{cutpos}/{len(d1)}'
        )
    if rec.got != p2:
        return (
            f'new client stream mis-framed after previous client was cut at byte {cutpos}/{len(d1)}: '
            f'delivered {len(rec.got)} packets expected {len(p2)} (first diff {first_diff(rec.got, p2)})'
        )
    return None


def w_handover(arg):
    kind, combos1, combos2 = arg
    st = core.Stats('handover')
    loop = VLoop()
    loop.__enter__()
    try:
        for c1 in combos1:
            _, d1 = build(c1)
            positions = range(0, len(d1) + 1) if len(d1) <= 600 else [0, 1, 2, 3, 4, 5, 6, 100, len(d1) - 1, len(d1)]
            for ending in ('lost', 'eof+lost'):
                for pos in positions:
                    for c2 in combos2:
                        for ch2 in (False, True):
                            st.case((kind, c1, pos, ending, c2, ch2), None)
                            msg = run_handover(loop, kind, c1, pos, ending, c2, ch2)
                            if msg:
                                p1, _ = build(c1)
                                mid = pos not in ([0] + boundaries(p1))
                                st.violation(
                                    'handover',
                                    {'transport': kind, 'cut_mid_packet': mid},
                                    msg,
                                    {'kind': kind, 'c1': c1, 'pos': pos, 'ending': ending, 'c2': c2, 'ch2': ch2},
                                )
        if combos1:
            st.samples.append({'transport': kind, 'first_client': [list(c) for c in combos1[0]], 'cut': 'every byte position', 'second_client': [list(c) for c in combos2[0]]})
    finally:
        loop.shutdown()
        loop.__exit__()
    return st


# ---------------------------------------------------------------------------
def run(ctx: core.Context) -> int:
    quick = ctx.quick
    all_streams = list(streams(2 if quick else 3, 1))
    # sort so expensive (big) streams are spread across workers
    all_streams.sort(key=lambda c: -sum(n for _, n in c))
    if not quick:
        # length-3 streams: only those without 65535 bodies, except a fixed sample of shapes
        all_streams = [c for c in all_streams if len(c) < 3 or all(n < 65535 for _, n in c)]
    parts = core.split(all_streams, ctx.jobs * 4)
    res = core.pmap(w_chunking, [(p, quick) for p in parts], ctx.jobs)
    ch = ctx.sub('chunking')
    for r in res:
        ch.merge(r)
    ctx.log(f'chunking: streams={len(all_streams)} runs={ch.evaluations}')

    small = [c for c in streams(2, 0) if sum(n for _, n in c) <= 300]
    seconds = [c for c in streams(2 if not quick else 1, 0) if sum(n for _, n in c) <= 300]
    firsts = [()] + small
    res = core.pmap(w_invalid, [(p, seconds) for p in core.split(firsts, ctx.jobs * 2)], ctx.jobs)
    inv = ctx.sub('invalid_type')
    for r in res:
        inv.merge(r)

    ho = ctx.sub('handover')
    ho_first = [c for c in streams(2, 0) if sum(n for _, n in c) <= (2 if quick else 300)]
    ho_second = [c for c in streams(1, 0) if sum(n for _, n in c) <= 300]
    items = []
    for kind in ('tcp_server', 'unix_server', 'ws_server'):
        for p in core.split(ho_first, ctx.jobs):
            items.append((kind, p, ho_second))
    for r in core.pmap(w_handover, items, ctx.jobs):
        ho.merge(r)

    nodes = ch.sets.get('nodes', set())
    edges = ch.sets.get('edges', set())
    total_runs = ch.evaluations + inv.evaluations + ho.evaluations
    extra = {
        'states': len(nodes),
        'transitions': len(edges),
        'traces_validated_against_impl': total_runs,
        'state_definition': 'every data attribute of the PacketParser (buffers as (length, first octet)) observed between feed calls',
        'alphabet': [list(a) for a in alphabet()],
    }
    return core.finish(
        ctx,
        LEVEL,
        rule=(
            'streams = all sequences over 19 (type, body length) packets up to length '
            + ('2' if quick else '3')
            + '; chunkings = all compositions for short streams, else every single split, all pairs'
            + ('' if quick else '/triples')
            + ' of positions within 6 bytes of a packet boundary, and uniform sizes; a case is non-trivial when it has >=1 cut; '
            'each case is executed on the real framers and compared with the generator packet list'
        ),
        assumptions=[
            'socket-level behaviour is represented by the asyncio protocol callbacks (no real sockets in the sandbox)',
            'body byte values follow a fixed pattern containing every type byte; other byte values are not enumerated',
        ],
        extra=extra,
    )


def replay(v: core.Violation):
    c = v.case
    tup = lambda combo: tuple(tuple(x) for x in combo)
    msgs = []
    if v.check in ('push_chunking', 'push_sink_fault', 'blocking_chunking', 'async_chunking', 'usb_chunking'):
        pkts, data = build(tup(c['combo']))
        if v.check == 'push_sink_fault':
            import struct as _struct

            exc = {'ValueError': ValueError('x'), 'error': _struct.error('x'), 'SinkFault': SinkFault('x'), 'KeyError': KeyError('x')}[c['exc']]
            m = run_push(pkts, data, c['cuts'], None, c['raise_on'], exc)
        elif v.check == 'push_chunking':
            m = run_push(pkts, data, c['cuts'])
        elif v.check == 'blocking_chunking':
            m = run_blocking(pkts, data, c['cuts'])
        elif v.check == 'usb_chunking':
            m = run_usb(c['combo'][0][0], pkts, c['cuts'])
        else:
            loop = VLoop()
            with loop:
                m = run_async(loop, pkts, data, c['cuts'])
        if m:
            msgs.append(m)
    elif v.check == 'invalid_type':
        m = run_invalid(tup(c['c1']), c['bad'], bytes.fromhex(c['trailing']), tup(c['c2']), c['split'])
        if m:
            msgs.append(m)
    elif v.check == 'handover':
        loop = VLoop()
        with loop:
            m = run_handover(loop, c['kind'], tup(c['c1']), c['pos'], c['ending'], tup(c['c2']), c['ch2'])
        if m:
            msgs.append(m)
    return msgs
