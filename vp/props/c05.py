"""C05 — L2CAP PDUs of any size cross the ACL link intact for any buffer geometry.

Three sub-checks, all on the real bumble code:

e2e        two real Device/Host/Controller stacks on a LocalLink under the VLoop.
           The controllers' ACL buffer geometry (data packet length L, packet
           count N) is set per side before power-on, so Host.reset learns it.
           Sequences of 1-3 L2CAP PDUs (payload lengths at every fragment
           boundary +-1, and the top of the 16-bit range) are sent in either or
           both directions.  Three observation points, each with an independent
           decoder written here from the Core spec:
             * tap at host->controller (`host.hci_sink` wrapped): every HCI ACL
               packet fits L, has the right handle, pb=start on the first
               fragment / continuation on the rest, and the concatenation is
               the L2CAP frame;
             * `link.send_acl_data` wrapped: what the sending controller
               reassembled (used to localise a loss);
             * receiver: Host 'l2cap_pdu' events and the fixed-channel handler of
               the peer's L2CAP manager == the sent (cid, payload) list, once,
               in order.
iso        Host.send_iso_sdu on a host whose CIS/BIS links were created by
           injected HCI events; ISO buffer length M and count N varied.  Every
           ISO data packet is decoded from the wire bytes: length <= M, pb flags
           10 / 00 01* 11, SDU length and packet sequence number on first
           fragments only, sequence number +1 per SDU per link (wraps at 2^16),
           concatenation == SDU.
assembler  explicit-state BFS (to fixpoint) over fragment sequences from a
           malformed-fragment alphabet, on (a) a bare HCI_AclDataPacketAssembler
           and (b) the host's ACL receive path (Host.on_packet with raw HCI
           bytes, two connections interleaved), in lock-step with a reference
           reassembler.  At every reachable state each of several well-formed
           PDUs (1, 2, 3 fragments) is then fed and must be delivered intact.

Top of the range.  The L2CAP basic header carries a 16-bit length, so payloads
0..65535 are legal and the frame is up to 65539 bytes.  An HCI ACL data packet
carries at most 65535 bytes, so frames of 65536..65539 bytes (payload >= 65532)
need >= 2 HCI packets in *both* directions.  The statement demands delivery for
the whole range; the oracle therefore does too.
"""
from __future__ import annotations

import itertools
import struct
import warnings

from .. import core

LEVEL = 'exploration'

DEFAULT_L, DEFAULT_N = 27, 64
HCI_ACL_MAX = 0xFFFF  # data_total_length is 16 bits

# ---------------------------------------------------------------------------
# independent encoders / decoders (Core spec Vol 4 Part E 5.4.2 / 5.4.5, Vol 3 Part A 3.1)
# ---------------------------------------------------------------------------
_PAT = bytes((i * 7 + 3) % 251 for i in range(251))  # period 251: coprime with every L used
_PAT_BIG = _PAT * (65535 // 251 + 3)


def payload(n: int, salt: int) -> bytes:
    off = salt % 251
    return _PAT_BIG[off : off + n]


def l2cap_frame(cid: int, pl: bytes) -> bytes:
    assert len(pl) <= 0xFFFF and 0 <= cid <= 0xFFFF
    return len(pl).to_bytes(2, 'little') + cid.to_bytes(2, 'little') + pl


def acl_packet(handle: int, pb: int, data: bytes, bc: int = 0) -> bytes:
    return bytes([0x02]) + ((handle & 0xFFF) | (pb << 12) | (bc << 14)).to_bytes(2, 'little') + len(data).to_bytes(2, 'little') + data


def parse_acl(p: bytes):
    """-> (handle, pb, bc, declared_len, data) or None when shorter than a header."""
    if len(p) < 5 or p[0] != 0x02:
        return None
    h = p[1] | (p[2] << 8)
    return h & 0xFFF, (h >> 12) & 3, (h >> 14) & 3, p[3] | (p[4] << 8), p[5:]


def frame_class(flen: int, L: int) -> str:
    if flen > HCI_ACL_MAX:
        return 'gt_65535'
    if flen < L:
        return 'lt'
    if flen == L:
        return 'eq'
    r = flen % L
    if r == 0:
        return 'mult'
    if r == 1:
        return 'mult+1'
    if r == L - 1:
        return 'mult-1'
    return 'other'


def check_fragments(pkts, frames, L, handle, starts):
    """Reference check of the ACL packets one host put on the wire.
    pkts: raw HCI packets (type byte included); frames: the L2CAP frames it was
    asked to send, in order.  Returns None or (rule, index_of_frame, message)."""
    idx = 0
    buf = None
    for n, p in enumerate(pkts):
        dec = parse_acl(p)
        if dec is None:
            return ('bad_header', idx, f'ACL packet #{n} shorter than its header: {p[:8].hex()}')
        h, pb, bc, dlen, data = dec
        if dlen != len(data):
            return ('length_field', idx, f'ACL packet #{n}: data_total_length={dlen} but {len(data)} data bytes')
        if len(data) > L:
            return ('too_long', idx, f'ACL packet #{n} carries {len(data)} bytes > controller ACL data packet length {L}')
        if h != handle:
            return ('bad_handle', idx, f'ACL packet #{n} handle 0x{h:03x}, connection handle is 0x{handle:03x}')
        if bc != 0:
            return ('bad_bc', idx, f'ACL packet #{n} broadcast flag {bc}')
        if buf is None:
            if idx >= len(frames):
                return ('extra_fragment', idx, f'ACL packet #{n} after all {len(frames)} PDUs were complete')
            if pb not in starts:
                return ('bad_pb_start', idx, f'ACL packet #{n} starts PDU {idx} with pb={pb} (expected one of {sorted(starts)})')
            buf = b''
        elif pb != 1:
            return ('bad_pb_cont', idx, f'ACL packet #{n} continues PDU {idx} (at byte {len(buf)}) with pb={pb} (expected 1)')
        buf += data
        exp = frames[idx]
        if len(buf) > len(exp) or exp[: len(buf)] != buf:
            return ('concat_mismatch', idx, f'fragments of PDU {idx} do not concatenate to its L2CAP frame (diverges within first {len(buf)} of {len(exp)} bytes)')
        if len(buf) == len(exp):
            idx += 1
            buf = None
    if buf is not None or idx != len(frames):
        return ('missing_fragments', idx, f'only {idx} of {len(frames)} PDUs fully emitted at the host->controller boundary')
    return None


def classify_delivery(expected, got):
    """expected/got: lists of hashable items, expected items pairwise distinct.
    -> None or (kind, index of the affected expected item or None)."""
    if expected == got:
        return None
    counts = [got.count(e) for e in expected]
    lost = [k for k, c in enumerate(counts) if c == 0]
    dup = [k for k, c in enumerate(counts) if c > 1]
    extras = [g for g in got if g not in expected]
    if lost and extras:
        return ('corrupted', lost[0], lost)
    if lost:
        return ('lost', lost[0], lost)
    if extras:
        return ('spurious', None, [])
    if dup:
        return ('duplicated', dup[0], dup)
    for k, (e, g) in enumerate(zip(expected, got)):
        if e != g:
            return ('reordered', k, [k])
    return ('reordered', 0, [0])


# ---------------------------------------------------------------------------
# e2e
# ---------------------------------------------------------------------------
CIDS = (0x0040, 0x0041, 0xFFEE)


def single_lengths(L):
    s = {0, 1}
    for k in (1, 2, 3):
        for d in (-1, 0, 1):
            n = k * L + d - 4
            if 0 <= n <= 0xFFFF:
                s.add(n)
    return s


def class_lengths(L):
    """payload lengths by fragment-count class for sender length L (index = class)."""
    c = [0, L - 4, L - 3, 2 * L - 4, 2 * L - 5, 3 * L - 3, 1]
    return [min(0xFFFF, max(0, x)) for x in c]


def controller_attrs(transport, L, N):
    if transport == 'le':
        other = 1021 if L != 1021 else 251
        return {'le_acl_data_packet_length': L, 'total_num_le_acl_data_packets': N, 'acl_data_packet_length': other, 'total_num_acl_data_packets': 7}
    if transport == 'le_shared':  # LE Read Buffer Size reports 0: LE shares the BR/EDR buffers
        return {'le_acl_data_packet_length': 0, 'total_num_le_acl_data_packets': 0, 'acl_data_packet_length': L, 'total_num_acl_data_packets': N}
    if transport == 'classic':
        other = 1021 if L != 1021 else 251
        return {'acl_data_packet_length': L, 'total_num_acl_data_packets': N, 'le_acl_data_packet_length': other, 'total_num_le_acl_data_packets': 7}
    raise ValueError(transport)


class Tap:
    """Replaces host.hci_sink: records raw ACL packets, forwards everything."""

    def __init__(self, inner, log):
        self.inner = inner
        self.log = log

    def on_packet(self, packet):
        b = bytes(packet)
        if b[:1] == b'\x02':
            self.log.append(b)
        self.inner.on_packet(packet)


STALE_HANDLE = 0x0EEE


def stale_first(packet):
    """Number Of Completed Packets event rewritten the way a controller that batches its reports may send it: an entry
    for a handle the host has no ACL link for (a SCO link, or a link that has just gone) listed BEFORE the real ones.
    Every entry of the event counts, whatever comes before it."""
    b = bytes(packet)
    if len(b) >= 4 and b[0] == 0x04 and b[1] == 0x13:
        n = b[3]
        handles, counts = b[4 : 4 + 2 * n], b[4 + 2 * n : 4 + 4 * n]
        body = bytes([n + 1]) + struct.pack('<H', STALE_HANDLE) + handles + struct.pack('<H', 1) + counts
        return bytes([0x04, 0x13, len(body)]) + body
    return packet


class E2E:
    def __init__(self, transport, geom, seed=0):
        from ..harness.devices import World

        self.dialect = None
        if '+' in transport:
            transport, self.dialect = transport.split('+')
        self.transport = transport
        self.geom = geom
        L0, N0, L1, N1 = geom
        self.L = (L0, L1)
        classic = transport == 'classic'
        self.w = World(2, seed=seed, controller_attrs={0: controller_attrs(transport, L0, N0), 1: controller_attrs(transport, L1, N1)}, classic=classic, le=not classic)
        self.w.__enter__()
        try:
            w = self.w
            self.wire = [[], []]
            for i, h in enumerate(w.hosts):
                h.hci_sink = Tap(h.hci_sink, self.wire[i])
            self.linklog = []
            orig = w.link.send_acl_data

            def send_acl_data(sender, dest, tr, data, _orig=orig):
                self.linklog.append((w.controllers.index(sender), bytes(data)))
                return _orig(sender, dest, tr, data)

            w.link.send_acl_data = send_acl_data
            w.power_on()
            cc, pc = w.connect_classic() if classic else w.connect_le()
            self.handles = (cc.handle, pc.handle)
            if self.dialect == 'stale':
                import types

                for h in w.hosts:
                    # (a bound method of the host called on_packet, so that the loop still recognises the delivery)
                    def on_packet(host, packet, _orig=h.on_packet):
                        return _orig(stale_first(packet))

                    h.on_packet = types.MethodType(on_packet, h)
            self.events = [[], []]
            self.l2cap = [[], []]
            for i, (h, d) in enumerate(zip(w.hosts, w.devices)):
                h.on('l2cap_pdu', lambda handle, cid, pdu, i=i: self.events[i].append((handle, cid, bytes(pdu))))
                for cid in CIDS:
                    d.l2cap_channel_manager.register_fixed_channel(cid, lambda handle, pdu, i=i, cid=cid: self.l2cap[i].append((handle, cid, bytes(pdu))))
            w.settle()
            w.loop.collect_exceptions()
            self.learnt = []
            for h in w.hosts:
                q = h.acl_packet_queue if classic else h.le_acl_packet_queue
                self.learnt.append((q.max_packet_size, q.max_in_flight))
        except BaseException:
            self.close()
            raise

    def close(self):
        self.w.__exit__(None, None, None)

    def clean(self):
        for h in self.w.hosts:
            for q in (h.acl_packet_queue, h.le_acl_packet_queue):
                if q is not None and q.pending:
                    return False
        return True

    def run(self, mode, seq, salt, max_steps=2_000_000):
        """mode: '01', '10' or 'duplex'; seq: per-sender lists {sender: [payload lengths]}.
        Returns list of (check, signature, message)."""
        w = self.w
        for lst in (*self.wire, self.linklog, *self.events, *self.l2cap):
            lst.clear()
        senders = {'01': (0,), '10': (1,), 'duplex': (0, 1)}[mode]
        sent = {s: [] for s in senders}
        depth = max(len(seq[s]) for s in senders)
        raised = []
        self.last_lost = []
        for k in range(depth):
            for s in senders:
                if k < len(seq[s]):
                    pl = payload(seq[s][k], salt + 17 * k + 101 * s)
                    cid = CIDS[k % len(CIDS)]
                    sent[s].append((cid, pl))
                    try:
                        w.hosts[s].send_l2cap_pdu(self.handles[s], cid, pl)
                    except Exception as e:  # noqa: the PDU then shows up as lost below
                        raised.append((f'send_l2cap_pdu of PDU #{k} by host {s}', repr(e)))
        w.loop.run_quiescent(max_steps=max_steps)
        # callbacks' exceptions reach the loop handler immediately; no gc.collect() per case (too slow)
        excs, w.loop.exceptions = raised + w.loop.exceptions, []
        out = []
        starts = {0, 2} if self.transport == 'classic' else {0}
        for s in senders:
            r = 1 - s
            frames = [l2cap_frame(cid, pl) for cid, pl in sent[s]]
            L = self.L[s]
            # 1. fragments at the host->controller boundary
            fr = check_fragments(self.wire[s], frames, L, self.handles[s], starts)
            if fr:
                rule, idx, msg = fr
                idx = min(idx, len(frames) - 1)
                sig = {'rule': rule, 'transport': self.transport, 'frame_vs_L': frame_class(len(frames[idx]), L)}
                if self.dialect:
                    sig['completion_reports'] = self.dialect
                out.append(('e2e_fragment', sig, f'{self.transport} geometry {self.geom} sender {s} payload lengths {seq[s]}: {msg}'))
            # 2. delivery at the receiver
            exp = [(self.handles[r], cid, pl) for cid, pl in sent[s]]
            at_link = [d for c, d in self.linklog if c == s]
            for where, got in (('host_event', self.events[r]), ('l2cap_manager', self.l2cap[r])):
                cl = classify_delivery(exp, got)
                if not cl:
                    continue
                kind, k, affected = cl
                if where == 'host_event':
                    self.last_lost += [len(sent[s][a][1]) for a in affected]
                if kind in ('lost', 'corrupted'):
                    small = [a for a in affected if len(frames[a]) <= HCI_ACL_MAX]
                    k = small[0] if small else affected[0]
                if k is None:
                    sig = {'kind': kind, 'observed_at': where}
                    desc = f'{len(got)} PDUs delivered, {len(exp)} sent'
                else:
                    stage = 'controller_to_host' if frames[k] in at_link else 'host_to_controller'
                    over = len(frames[k]) > HCI_ACL_MAX
                    sig = {'kind': kind, 'stage': stage, 'frame_gt_65535': over, 'frame_vs_L': 'n/a' if over else frame_class(len(frames[k]), L)}
                    if where != 'host_event':
                        sig['observed_at'] = where
                    desc = (
                        f'PDU #{k} (payload {len(sent[s][k][1])} bytes, frame {len(frames[k])} bytes) {kind} between '
                        f'{"the sending controller and the peer host" if stage == "controller_to_host" else "the sending host and the link"}; '
                        f'receiver got payload lengths {[len(g[2]) for g in got]}'
                    )
                if excs:
                    desc += f'; loop exception: {excs[0][1]} in {excs[0][0]}'
                if self.dialect:
                    sig['completion_reports'] = self.dialect
                    desc += ' [Number Of Completed Packets events list an entry for a handle without ACL link first]'
                out.append(('e2e_delivery', sig, f'{self.transport} geometry (L0,N0,L1,N1)={self.geom} direction {s}->{r} payload lengths {seq[s]}: {desc}'))
                break
        return out


def e2e_case(transport, geom, mode, seq, salt):
    e = E2E(transport, tuple(geom), 0)
    try:
        return e.run(mode, {int(k): v for k, v in seq.items()}, salt)
    finally:
        e.close()


def small_plan(geom, quick):
    """[(mode, {sender: [lengths]})] for one geometry."""
    L0, _, L1, _ = geom
    L = (L0, L1)
    plan = []
    singles = sorted(single_lengths(L0) | single_lengths(L1))
    for n in singles:
        plan.append(('01', {0: [n]}))
        plan.append(('10', {1: [n]}))
    for s, mode in ((0, '01'), (1, '10')):
        c = class_lengths(L[s])
        for a, b in itertools.product(range(len(c)), repeat=2):
            plan.append((mode, {s: [c[a], c[b]]}))
        for t in itertools.product(range(4), repeat=3):
            plan.append((mode, {s: [c[i] for i in t]}))
    c0, c1 = class_lengths(L0), class_lengths(L1)
    rng = range(4) if quick else range(len(c0))
    for a, b in itertools.product(rng, repeat=2):
        plan.append(('duplex', {0: [c0[a], c0[b]], 1: [c1[b], c1[a]]}))
    if not quick:
        for t in itertools.product(range(3), repeat=3):
            plan.append(('duplex', {0: [c0[i] for i in t], 1: [c1[i] for i in reversed(t)]}))
    return plan


def record(st, out, case):
    for check, sig, msg in out:
        st.violation(check, sig, msg, case)


def w_e2e_small(arg):
    items, quick, seed = arg
    warnings.simplefilter('ignore')
    st = core.Stats('e2e')
    for transport, geom in items:
        e = E2E(transport, geom, seed)
        try:
            Ls = e.L
            for i in (0, 1):
                st.add('learnt_geometries', (transport, e.learnt[i]))
            n = 0
            for mode, seq in small_plan(geom, quick):
                salt = seed * 13 + n
                n += 1
                out = e.run(mode, seq, salt)
                key = (transport, geom, mode, sorted(seq.items()))
                st.case(key, None, nontrivial=True)
                for s, lens in seq.items():
                    st.count('pdus_sent', len(lens))
                    for x in lens:
                        st.add('frame_classes', (frame_class(x + 4, Ls[s]), -(-(x + 4) // Ls[s]) if Ls[s] else 0))
                for x in e.last_lost:
                    st.add('payload_lengths_not_delivered', x)
                if out or not e.clean():
                    if not out:
                        st.count('unclean_rebuilds')
                    record(st, out, {'transport': transport, 'geom': list(geom), 'mode': mode, 'seq': {str(k): v for k, v in seq.items()}, 'salt': salt})
                    e.close()
                    e = E2E(transport, geom, seed)
            if len(st.samples) < 2:
                st.samples.append({'transport': transport, 'geometry_L0_N0_L1_N1': list(geom), 'sequences': n, 'example': [mode, {str(k): v for k, v in seq.items()}]})
        finally:
            e.close()
    return st


def w_e2e_big(arg):
    transport, geom, mode, seq, salt = arg
    warnings.simplefilter('ignore')
    st = core.Stats('e2e')
    e = E2E(transport, tuple(geom), 0)
    try:
        out = e.run(mode, seq, salt)
        for x in e.last_lost:
            st.add('payload_lengths_not_delivered', x)
    finally:
        e.close()
    st.case((transport, geom, mode, sorted(seq.items())), None)
    s = 0 if mode == '01' else 1
    L = geom[0] if s == 0 else geom[2]
    for x in seq[s]:
        st.count('pdus_sent')
        st.add('frame_classes', (frame_class(x + 4, L), -(-(x + 4) // L)))
        if x >= 4000:
            st.add('big_payload_lengths', x)
    st.count('big_runs')
    record(st, out, {'transport': transport, 'geom': list(geom), 'mode': mode, 'seq': {str(k): v for k, v in seq.items()}, 'salt': salt})
    return st


def e2e_items(quick):
    Ns = (1, 2, 64)
    if quick:
        Ls = (5, 8, 23, 27, 251, 1021)
    else:
        Ls = (4, 5, 6, 7, 8, 23, 27, 64, 251, 255, 256, 1021)
    side = [(L, N) for L in Ls for N in Ns]
    geoms = []
    if quick:
        # one side varied at a time, plus the diagonal (same geometry on both sides)
        seen = set()
        for L, N in side:
            for g in ((L, N, DEFAULT_L, DEFAULT_N), (DEFAULT_L, DEFAULT_N, L, N), (L, N, L, N)):
                if g not in seen:
                    seen.add(g)
                    geoms.append(g)
        # and the full product over a reduced set
        red = [(L, N) for L in (5, 27, 1021) for N in (1, 64)]
        for a in red:
            for b in red:
                g = (a[0], a[1], b[0], b[1])
                if g not in seen:
                    seen.add(g)
                    geoms.append(g)
    else:
        geoms = [(a[0], a[1], b[0], b[1]) for a in side for b in side]
        # extreme lengths, one side varied at a time + diagonal
        for L in (2, 3, 32768, 65535):
            for N in Ns:
                geoms += [(L, N, DEFAULT_L, DEFAULT_N), (DEFAULT_L, DEFAULT_N, L, N), (L, N, L, N)]
    small = [(t, g) for t in ('le', 'classic') for g in geoms]
    # controllers that batch their completion reports: a foreign handle listed before the link's own entry
    for t in ('le+stale', 'classic+stale'):
        for L, N in ((5, 1), (27, 2), (27, 64)) if quick else side:
            small += [(t, (L, N, DEFAULT_L, DEFAULT_N)), (t, (DEFAULT_L, DEFAULT_N, L, N)), (t, (L, N, L, N))]
    shared_L = (5, 27, 251) if quick else Ls
    for L in shared_L:
        for N in (1, 64) if quick else Ns:
            small.append(('le_shared', (L, N, DEFAULT_L, DEFAULT_N)))
            small.append(('le_shared', (DEFAULT_L, DEFAULT_N, L, N)))

    # top of the range and other large PDUs: sender geometry varied, receiver default
    if quick:
        bigs = (65531, 65532, 65533, 65534, 65535)
        bLs = (5, 27, 1021, 65535)
        bNs = (1, 64)
    else:
        bigs = (4095, 4096, 4097, 32767, 65530, 65531, 65532, 65533, 65534, 65535)
        bLs = Ls + (4096, 65535)
        bNs = Ns
    big = []
    for t in ('le', 'classic'):
        for L in bLs:
            for N in bNs:
                for b in bigs:
                    if quick and L < 1021 and b in (65533, 65534):
                        continue
                    seqs = [[b], [3, b, 2]]
                    if not quick and b in (65531, 65535):
                        seqs.append([b, b])
                    for sq in seqs:
                        if N != 64 and len(sq) > 1 and quick:
                            continue
                        big.append((t, (L, N, DEFAULT_L, DEFAULT_N), '01', {0: sq}))
                        if N == 64 or not quick:
                            big.append((t, (DEFAULT_L, DEFAULT_N, L, N), '10', {1: sq}))
    return small, big


# ---------------------------------------------------------------------------
# ISO
# ---------------------------------------------------------------------------
CIS_HANDLE, BIS_HANDLE = 0x060, 0x071
ISO_SDU_MAX = 4095  # ISO_SDU_Length is a 12-bit field


def parse_iso(p: bytes):
    """Core Vol 4 Part E 5.4.5 -> dict or (None, reason)."""
    if len(p) < 5 or p[0] != 0x05:
        return None
    h = p[1] | (p[2] << 8)
    d = {'handle': h & 0xFFF, 'pb': (h >> 12) & 3, 'ts': (h >> 14) & 1, 'rfu': h >> 15}
    w = p[3] | (p[4] << 8)
    d['dlen'] = w & 0x3FFF
    d['dlen_rfu'] = w >> 14
    load = p[5:]
    d['load_len'] = len(load)
    pos = 0
    d['seq'] = d['sdu_len'] = d['status'] = None
    if d['ts']:
        pos += 4
    if d['pb'] in (0b00, 0b10):
        if len(load) < pos + 4:
            d['short'] = True
            d['data'] = b''
            return d
        d['seq'] = load[pos] | (load[pos + 1] << 8)
        x = load[pos + 2] | (load[pos + 3] << 8)
        d['sdu_len'] = x & 0xFFF
        d['status'] = x >> 14
        pos += 4
    d['data'] = load[pos:]
    return d


def check_iso(pkts, sdus, M, seq0):
    """pkts: raw ISO packets the host emitted, in order.  sdus: [(handle, sdu)] in the
    order given to send_iso_sdu.  seq0: {handle: sequence number the first SDU on it must
    carry}.  Packets of different links are only required to be ordered per link.
    -> None or (rule, message)."""
    per_link = {}
    for n, p in enumerate(pkts):
        d = parse_iso(p)
        if d is None:
            return ('bad_header', f'ISO packet #{n} has no header: {p[:8].hex()}')
        if d.get('short'):
            return ('bad_header', f'ISO packet #{n} (pb={d["pb"]:02b}) too short for its SDU header')
        if d['dlen'] != d['load_len']:
            return ('length_field', f'ISO packet #{n}: data_total_length={d["dlen"]} but {d["load_len"]} bytes follow')
        if d['load_len'] > M:
            return ('too_long', f'ISO packet #{n} data load {d["load_len"]} bytes > controller ISO data packet length {M}')
        per_link.setdefault(d['handle'], []).append((n, d))
    handles = []
    for h, _ in sdus:
        if h not in handles:
            handles.append(h)
    for h in per_link:
        if h not in handles:
            return ('bad_handle', f'ISO packet on handle 0x{h:03x} which no SDU was sent on')
    for h in handles:
        mine = [s for hh, s in sdus if hh == h]
        q = list(per_link.get(h, []))
        allowed = {seq0[h]}  # sequence numbers the next emitted SDU may carry
        for k, sdu in enumerate(mine):
            if len(sdu) == 0 and (not q or q[0][1]['sdu_len'] != 0):
                # a zero-length SDU may be skipped on the wire (zero fragments); whether it
                # consumed a sequence number is then unobservable -> allow both
                allowed = allowed | {(a + 1) & 0xFFFF for a in allowed}
                continue
            if not q:
                return ('missing_fragments', f'SDU #{k} ({len(sdu)} bytes) on handle 0x{h:03x}: no ISO packet emitted', len(sdu))
            n, d = q.pop(0)
            if d['pb'] not in (0b00, 0b10):
                return ('bad_pb_start', f'ISO packet #{n} starts SDU #{k} with pb={d["pb"]:02b}', len(sdu))
            if d['seq'] not in allowed:
                return ('bad_seq', f'ISO packet #{n}: SDU #{k} on handle 0x{h:03x} carries sequence number {d["seq"]}, expected {sorted(allowed)}', len(sdu))
            allowed = {(d['seq'] + 1) & 0xFFFF}
            if d['sdu_len'] != len(sdu):
                return ('bad_sdu_len', f'ISO packet #{n}: ISO_SDU_Length={d["sdu_len"]} for an SDU of {len(sdu)} bytes', len(sdu))
            buf = d['data']
            last = d['pb'] == 0b10
            while not last:
                if not q:
                    return ('missing_fragments', f'SDU #{k} ({len(sdu)} bytes): fragments stop after {len(buf)} bytes without an end marker', len(sdu))
                n, d = q.pop(0)
                if d['pb'] not in (0b01, 0b11):
                    return ('bad_pb_cont', f'ISO packet #{n} continues SDU #{k} with pb={d["pb"]:02b}', len(sdu))
                buf += d['data']
                last = d['pb'] == 0b11
                if len(buf) > len(sdu):
                    break
            if buf != sdu:
                return ('concat_mismatch', f'fragments of SDU #{k} ({len(sdu)} bytes) concatenate to {len(buf)} bytes / different content', len(sdu))
        if q:
            return ('extra_fragment', f'{len(q)} ISO packets on handle 0x{h:03x} beyond the SDUs sent (first pb={q[0][1]["pb"]:02b})')
    return None


class IsoTap:
    """Stands in for the controller's ISO data path: records ISO packets and returns one
    credit per packet (HCI Number Of Completed Packets), forwards everything else."""

    def __init__(self, inner, log, host, loop):
        self.inner, self.log, self.host, self.loop = inner, log, host, loop

    def on_packet(self, packet):
        b = bytes(packet)
        if b[:1] == b'\x05':
            self.log.append(b)
            handle = (b[1] | (b[2] << 8)) & 0xFFF
            ev = bytes([0x04, 0x13, 5, 1]) + handle.to_bytes(2, 'little') + (1).to_bytes(2, 'little')
            self.loop.call_soon(self.host.on_packet, ev)
        else:
            self.inner.on_packet(packet)


class IsoRig:
    def __init__(self, M, N, seed=0):
        from bumble import hci
        from ..harness.devices import World

        self.M = M
        self.w = World(1, seed=seed, controller_attrs={0: {'iso_data_packet_length': M, 'total_num_iso_data_packets': N}})
        self.w.__enter__()
        try:
            w = self.w
            w.power_on()
            self.host = h = w.hosts[0]
            self.log = []
            h.hci_sink = IsoTap(h.hci_sink, self.log, h, w.loop)
            h.on_packet(
                bytes(
                    hci.HCI_LE_CIS_Established_Event(
                        status=0, connection_handle=CIS_HANDLE, cig_sync_delay=0, cis_sync_delay=0, transport_latency_c_to_p=0,
                        transport_latency_p_to_c=0, phy_c_to_p=1, phy_p_to_c=1, nse=1, bn_c_to_p=1, bn_p_to_c=1, ft_c_to_p=1,
                        ft_p_to_c=1, max_pdu_c_to_p=251, max_pdu_p_to_c=251, iso_interval=8,
                    )
                )
            )
            h.on_packet(
                bytes(
                    hci.HCI_LE_Create_BIG_Complete_Event(
                        status=0, big_handle=1, big_sync_delay=0, transport_latency_big=0, phy=1, nse=1, bn=1, pto=0, irc=1,
                        max_pdu=251, iso_interval=8, connection_handle=[0x070, BIS_HANDLE],
                    )
                )
            )
            w.settle()
            w.loop.collect_exceptions()
            self.learnt = (h.iso_packet_queue.max_packet_size, h.iso_packet_queue.max_in_flight) if h.iso_packet_queue else None
            self.sent = {CIS_HANDLE: 0, BIS_HANDLE: 0}  # SDUs handed to send_iso_sdu per link
            self.seq_next = {CIS_HANDLE: {0}, BIS_HANDLE: {0}}
        except BaseException:
            self.close()
            raise

    def close(self):
        self.w.__exit__(None, None, None)

    def run(self, sdus, salt):
        """sdus: [(handle, length)].  Returns (rule, msg) or None.  Keeps per-link
        sequence expectations across calls."""
        self.log.clear()
        real = []
        for k, (h, n) in enumerate(sdus):
            pl = payload(n, salt + 29 * k)
            real.append((h, pl))
            try:
                self.host.send_iso_sdu(h, pl)
            except Exception as e:  # noqa
                self.w.loop.run_quiescent(max_steps=2_000_000)
                return ('send_raised', f'send_iso_sdu of SDU #{k} ({n} bytes) raised {e!r}')
        self.w.loop.run_quiescent(max_steps=2_000_000)
        res = None
        # the expectation for the first SDU of each link is a set (zero-length SDUs may or may not
        # have consumed a number); check_iso takes one value, so try each
        cands = [dict(zip(self.seq_next, combo)) for combo in itertools.product(*[sorted(v) for v in self.seq_next.values()])]
        for c in cands:
            res = check_iso(self.log, real, self.M, c)
            if res is None:
                break
        # update expectations from what was observed (independent decode)
        for h in self.seq_next:
            seqs = [d['seq'] for d in map(parse_iso, self.log) if d and d['handle'] == h and d['seq'] is not None]
            mine = [n for hh, n in sdus if hh == h]
            if seqs:
                nxt = {(seqs[-1] + 1) & 0xFFFF}
                # trailing zero-length SDUs after the last emitted one
                trailing = 0
                for n in reversed(mine):
                    if n == 0:
                        trailing += 1
                    else:
                        break
                if trailing and not any(d and d['handle'] == h and d['sdu_len'] == 0 for d in map(parse_iso, self.log)):
                    nxt = {(seqs[-1] + 1 + j) & 0xFFFF for j in range(trailing + 1)}
                self.seq_next[h] = nxt
            elif mine:
                self.seq_next[h] = {(a + j) & 0xFFFF for a in self.seq_next[h] for j in range(len(mine) + 1)}
        return res


def iso_lengths(M):
    first = M - 4
    s = {0, 1, M, 2 * M - 1, 2 * M + 1, ISO_SDU_MAX}
    for k in (0, 1, 2):
        for d in (-1, 0, 1):
            s.add(first + k * M + d)
    return sorted(x for x in s if 0 <= x <= ISO_SDU_MAX)


def iso_plan(M, quick):
    plan = []
    for n in iso_lengths(M):
        plan.append([(CIS_HANDLE, n)])
        plan.append([(BIS_HANDLE, n)])
    first = M - 4
    red = []
    for x in (1, first, first + 1, first + M, 0, 2):
        if 0 <= x <= ISO_SDU_MAX and x not in red:
            red.append(x)
    red = red[:5]
    for a, b in itertools.product(red, repeat=2):
        plan.append([(CIS_HANDLE, a), (CIS_HANDLE, b)])
        plan.append([(CIS_HANDLE, a), (BIS_HANDLE, b)])
    for t in itertools.product(red[:4] if not quick else red[:3], repeat=3):
        plan.append([(CIS_HANDLE, x) for x in t])
        plan.append([(CIS_HANDLE, t[0]), (BIS_HANDLE, t[1]), (CIS_HANDLE, t[2])])
    return plan


def iso_signature(rule, M, n):
    first = M - 4
    if n is None:
        cls = 'n/a'
    elif n == 0:
        cls = 'empty'
    elif n < first:
        cls = 'lt_first'
    elif n == first:
        cls = 'eq_first'
    elif (n - first) % M == 0:
        cls = 'first+mult'
    elif (n - first) % M == 1:
        cls = 'first+mult+1'
    elif (n - first) % M == M - 1:
        cls = 'first+mult-1'
    else:
        cls = 'other'
    return {'rule': rule, 'sdu_vs_M': cls}


def w_iso(arg):
    items, quick, seed = arg
    warnings.simplefilter('ignore')
    st = core.Stats('iso')
    for M, N, wrap in items:
        rig = IsoRig(M, N, seed)
        try:
            st.add('learnt_iso_geometries', rig.learnt)
            k = 0
            for sdus in iso_plan(M, quick):
                k += 1
                res = rig.run(sdus, seed * 7 + k)
                st.case((M, N, sdus), None)
                st.count('sdus_sent', len(sdus))
                st.count('iso_packets', len(rig.log))
                for p in rig.log:
                    st.add('pb_flags_seen', parse_iso(p)['pb'])
                if any(n == 0 for _, n in sdus) and not any(parse_iso(p)['sdu_len'] == 0 for p in rig.log):
                    st.count('zero_length_sdu_emitted_nothing')
                if res:
                    worst = res[2] if len(res) > 2 else max(n for _, n in sdus)
                    st.violation('iso_fragment', iso_signature(res[0], M, worst), f'ISO buffer (length {M}, count {N}) SDUs {sdus}: {res[1]}', {'M': M, 'N': N, 'sdus': [list(x) for x in sdus], 'salt': seed * 7 + k, 'wrap': False})
                    rig.close()
                    rig = IsoRig(M, N, seed)
            if wrap:
                # sequence number wraps at 2^16: 65534 one-byte SDUs, then SDUs across the wrap
                rig.close()
                rig = IsoRig(M, N, seed)
                res = iso_wrap(rig, st)
                if res:
                    st.violation('iso_fragment', {'rule': res[0], 'sdu_vs_M': 'seq_wrap'}, f'ISO buffer (length {M}, count {N}) sequence-number wrap: {res[1]}', {'M': M, 'N': N, 'wrap': True})
            if len(st.samples) < 2:
                st.samples.append({'iso_data_packet_length': M, 'count': N, 'sdu_sequences': k, 'example': [list(x) for x in sdus]})
        finally:
            rig.close()
    return st


def iso_wrap(rig, st=None):
    chunk = 2048
    total = 0
    while total < 65534:
        n = min(chunk, 65534 - total)
        res = rig.run([(CIS_HANDLE, 1)] * n, total)
        total += n
        if st:
            st.count('sdus_sent', n)
        if res:
            return res
    res = rig.run([(CIS_HANDLE, rig.M), (CIS_HANDLE, 1), (CIS_HANDLE, 2), (CIS_HANDLE, rig.M + 1)], 5)
    if st:
        st.case(('wrap', rig.M), None)
        seqs = [parse_iso(p)['seq'] for p in rig.log if parse_iso(p)['seq'] is not None]
        st.add('wrap_sequence_numbers', tuple(seqs))
    return res


def iso_items(quick):
    Ms = (5, 8, 64, 960) if quick else (5, 6, 8, 9, 27, 64, 251, 255, 256, 960, 4099, 16383)
    out = []
    for M in Ms:
        for N in (1, 2, 64):
            out.append((M, N, (M, N) in ((8, 2), (960, 64)) if not quick else (M, N) == (8, 2)))
    return out


# ---------------------------------------------------------------------------
# assembler BFS
# ---------------------------------------------------------------------------
# Fragments as seen by the receiver: (name, pb, data).  Controller->host start is pb=2
# (first automatically-flushable); pb=0 is accepted as a start too; pb=1 continuation;
# pb=3 is not a legal controller->host value.
def _hdr(n, cid):
    return n.to_bytes(2, 'little') + cid.to_bytes(2, 'little')


A_PL = bytes([0xA1, 0xA2, 0xA3, 0xA4, 0xA5, 0xA6])
ALPHABET = [
    ('S_complete0', 2, _hdr(0, 0x0040)),  # complete PDU, empty payload
    ('S_complete3', 2, _hdr(3, 0x0041) + b'\xc1\xc2\xc3'),  # complete PDU
    ('S_complete3_pb0', 0, _hdr(3, 0x0042) + b'\xd1\xd2\xd3'),
    ('S_first5of10', 2, _hdr(6, 0x0043) + A_PL[:1]),  # announces 6, frame 10, carries 5
    ('S_hdr4of10', 2, _hdr(6, 0x0044)),  # header only
    ('S_len2of10', 2, _hdr(6, 0x0045)[:2]),  # only the length field
    ('C5', 1, b'\xe1\xe2\xe3\xe4\xe5'),  # completes S_first5of10 exactly
    ('C6', 1, b'\xf1\xf2\xf3\xf4\xf5\xf6'),  # completes S_hdr4of10; overflows S_first5of10
    ('C1', 1, b'\x99'),
    ('C0', 1, b''),
    ('S_short1', 2, b'\x06'),  # start too short to hold the length field
    ('S_short0', 2, b''),
    ('S_overlong', 2, _hdr(1, 0x0046) + b'\x71\x72\x73'),  # start already longer than announced
    ('P3', 3, b'\x03\x00\x47\x00'),  # illegal pb value
]
# thorough tier only: a longer PDU, so that many more partial buffers are reachable
ALPHABET_T = [
    ('S_first8of24', 2, _hdr(20, 0x0048) + b'\x81\x82\x83\x84'),  # announces 20, frame 24, carries 8
    ('C8', 1, b'\x88\x89\x8a\x8b\x8c\x8d\x8e\x8f'),
]
# the host-path BFS interleaves a second connection: these act on handle B
ALPHABET_B = [
    ('B_S_first5of10', 2, _hdr(6, 0x0053) + b'\x5a'),
    ('B_C5', 1, b'\x5b\x5c\x5d\x5e\x5f'),
    ('B_S_complete3', 2, _hdr(3, 0x0051) + b'\x61\x62\x63'),
    ('B_C1', 1, b'\x66'),
]
FINALS = [
    ('F_single', [(2, _hdr(5, 0x0060) + b'\x01\x02\x03\x04\x05')]),
    ('F_empty', [(2, _hdr(0, 0x0061))]),
    ('F_two', [(2, _hdr(7, 0x0062) + b'\x11\x12'), (1, b'\x13\x14\x15\x16\x17')]),
    ('F_three', [(2, _hdr(9, 0x0063)), (1, b'\x21\x22\x23\x24'), (1, b'\x25\x26\x27\x28\x29')]),
    ('F_two_pb0', [(0, _hdr(2, 0x0064) + b'\x31'), (1, b'\x32')]),
]


class RefAsm:
    """Reference reassembler for one connection, from the statement: a start fragment always
    begins a new PDU (whatever was in progress is the affected PDU and is lost); a continuation
    with nothing in progress is dropped; data beyond the announced length drops the PDU; a start
    too short to carry the length field makes the PDU it begins undecidable: until the next start
    the reference does not care what is delivered ('unknown')."""

    def __init__(self):
        self.state = ('idle',)

    def feed(self, pb, data):
        """-> list of frames that must be delivered now, or None for don't-care."""
        if pb in (0, 2):
            if len(data) < 2:
                self.state = ('unknown',)
                return None
            total = (data[0] | (data[1] << 8)) + 4
            return self._progress(total, data)
        if self.state[0] == 'unknown':
            return None
        if pb == 1:
            if self.state[0] == 'idle':
                return []
            _, total, buf = self.state
            return self._progress(total, buf + data)
        # illegal pb value: belongs to no PDU the reference knows how to delimit; whatever is in
        # progress is the affected PDU -> undecidable until the next start
        self.state = ('unknown',)
        return None

    def _progress(self, total, buf):
        if len(buf) == total:
            self.state = ('idle',)
            return [buf]
        if len(buf) > total:
            self.state = ('idle',)
            return []
        self.state = ('prog', total, buf)
        return []


class BareTarget:
    name = 'assembler'
    handles = ('A',)

    def fresh(self):
        from bumble import hci

        self.out = []
        self.asm = hci.HCI_AclDataPacketAssembler(lambda pdu: self.out.append(bytes(pdu)))
        self.hci = hci

    def feed(self, which, pb, data):
        self.out.clear()
        pkt = self.hci.HCI_AclDataPacket(connection_handle=0x001, pb_flag=pb, bc_flag=0, data_total_length=len(data), data=data)
        exc = None
        try:
            self.asm.feed_packet(pkt)
        except Exception as e:  # noqa
            exc = type(e).__name__
        return list(self.out), exc

    def canon(self):
        return (_frozen(self.asm.current_data), self.asm.l2cap_pdu_length)

    def expect(self, frames):
        return frames

    def close(self):
        pass


class HostTarget:
    """Host.on_packet(raw HCI ACL bytes) -> 'l2cap_pdu' events, two connections (one real
    World with device 0 connected to devices 1 and 2; per replay the two host Connection
    objects are replaced by fresh instances of the real class)."""

    name = 'host_path'
    handles = ('A', 'B')

    def __init__(self):
        from ..harness.devices import World

        self.w = World(3)
        self.w.__enter__()
        w = self.w
        w.power_on()
        c1, _ = w.connect_le(0, 1)
        c2, _ = w.connect_le(0, 2)
        self.host = w.hosts[0]
        self.h = {'A': c1.handle, 'B': c2.handle}
        self.out = []
        self.host.on('l2cap_pdu', lambda handle, cid, pdu: self.out.append((handle, cid, bytes(pdu))))
        self.proto = {k: self.host.connections[v] for k, v in self.h.items()}

    def fresh(self):
        for k, v in self.h.items():
            old = self.proto[k]
            self.host.connections[v] = type(old)(self.host, old.handle, old.peer_address, old.transport)
        self.w.loop.run_quiescent()
        self.w.loop.exceptions.clear()

    def feed(self, which, pb, data):
        self.out.clear()
        exc = None
        try:
            self.host.on_packet(acl_packet(self.h[which], pb, data))
        except Exception as e:  # noqa
            exc = type(e).__name__
        # the device layer above may react; let it run (no gc.collect() here: too slow per step)
        self.w.loop.run_quiescent()
        self.w.loop.exceptions.clear()
        return [(which, cid, pl) for (hd, cid, pl) in self.out for which in self.h if self.h[which] == hd], exc

    def canon(self):
        return tuple((_frozen(self.host.connections[v].assembler.current_data), self.host.connections[v].assembler.l2cap_pdu_length) for v in self.h.values())

    def close(self):
        self.w.__exit__(None, None, None)


def _frozen(x):
    """Hashable copy of an assembler buffer whatever mutable type the implementation uses."""
    return bytes(x) if isinstance(x, (bytearray, memoryview)) else x


def split_frame(f):
    return (f[2] | (f[3] << 8), f[4:])


def bfs(target, st, max_states, with_b, extended=False):
    """Explicit-state search.  State = shortest symbol history; canonical key = (real object's
    assembler fields, reference state).  Two histories with the same key have the same future:
    feed_packet branches only on current_data / l2cap_pdu_length, and the reference on its own
    state; deliveries are functions of those plus the next fragment."""
    symbols = [('A',) + s for s in ALPHABET]
    if extended:
        symbols += [('A',) + s for s in ALPHABET_T]
    if with_b:
        symbols += [('B',) + s for s in ALPHABET_B]
    by_name = {s[1]: s for s in symbols}

    def build(hist):
        target.fresh()
        refs = {h: RefAsm() for h in target.handles}
        for name in hist:
            which, _, pb, data = by_name[name]
            target.feed(which, pb, data)
            refs[which].feed(pb, data)
        return refs

    def key(refs):
        return (target.canon(), tuple(refs[h].state for h in target.handles))

    def conv(which, frames):
        if target.name == 'assembler':
            return frames
        return [(which,) + split_frame(f) for f in frames]

    refs = build(())
    seen = {key(refs): ()}
    frontier = [()]
    transitions = set()
    depth = 0
    capped = False
    while frontier:
        nxt = []
        for hist in frontier:
            # finals at this state
            for fname, frags in FINALS:
                for which in target.handles:
                    refs = build(hist)
                    pre = refs[which].state[0]
                    got_all = []
                    for pb, data in frags:
                        got, exc = target.feed(which, pb, data)
                        got_all += got
                    frame = b''.join(d for _, d in frags)
                    st.case(None)
                    st.count('finals_checked')
                    if got_all != conv(which, [frame]):
                        rule = 'final_lost' if not got_all else 'final_corrupted'
                        st.violation(
                            'asm_final',
                            {'target': target.name, 'rule': rule, 'final': fname, 'ref_state': pre},
                            f'{target.name}: after fragment history {list(hist)} the well-formed PDU {fname} '
                            f'({len(frags)} fragments) on connection {which} was {"not delivered" if not got_all else "delivered as " + repr(got_all)}',
                            {'target': target.name, 'hist': list(hist), 'final': fname, 'which': which},
                        )
            for sym in symbols:
                which, name, pb, data = sym
                refs = build(hist)
                k0 = key(refs)
                pre = refs[which].state[0]
                got, exc = target.feed(which, pb, data)
                want = refs[which].feed(pb, data)
                k1 = key(refs)
                transitions.add((k0, name, k1))
                st.case((target.name, hist, name))
                if exc:
                    st.add('exceptions', (target.name, name, exc))
                if want is not None:
                    want = conv(which, want)
                    if got != want:
                        if want and not got:
                            rule = 'lost'
                        elif got and not want:
                            rule = 'junk_delivered'
                        else:
                            rule = 'corrupted'
                        st.violation(
                            'asm_step',
                            {'target': target.name, 'rule': rule, 'sym': name, 'ref_state': pre},
                            f'{target.name}: history {list(hist)} then {name}: delivered {got!r}, reference delivers {want!r}'
                            + (f' (raised {exc})' if exc else ''),
                            {'target': target.name, 'hist': list(hist), 'sym': name},
                        )
                        continue  # do not explore beyond a disagreement
                else:
                    st.count('dont_care_steps')
                if k1 not in seen:
                    if len(seen) >= max_states:
                        capped = True
                        continue
                    seen[k1] = hist + (name,)
                    nxt.append(hist + (name,))
        frontier = nxt
        if frontier:
            depth += 1
    if capped:
        st.cap(f'{target.name}: state cap {max_states} reached at depth {depth}')
    return len(seen), len(transitions), depth


def w_bfs(arg):
    which, max_states, extended = arg
    warnings.simplefilter('ignore')
    st = core.Stats('assembler')
    if which == 'assembler':
        t = BareTarget()
        with_b = False
    else:
        t = HostTarget()
        with_b = True
    try:
        states, trans, depth = bfs(t, st, max_states, with_b, extended)
    finally:
        t.close()
    st.count('states', states)
    st.count('transitions', trans)
    st.add('fixpoint_depths', (which, depth))
    st.samples.append({'target': which, 'states': states, 'transitions': trans, 'fixpoint_depth': depth, 'alphabet': [a[0] for a in ALPHABET] + ([a[0] for a in ALPHABET_T] if extended else []) + ([b[0] for b in ALPHABET_B] if with_b else [])})
    return st


# ---------------------------------------------------------------------------
# ---------------------------------------------------------------------------
# several connections on one host (helpers in harness/c05_multi.py)
# ---------------------------------------------------------------------------
def w_multi(arg):
    from ..harness import c05_multi as m

    cases, seed = arg
    warnings.simplefilter('ignore')
    st = core.Stats('multi')
    for cfg in cases:
        out, info = m.run_multi(cfg, seed)
        backlog = info['backlog_at_flush']
        # pending counts the packets in flight too: a real backlog is more than the buffer count
        backlog = None if backlog is None else max(0, backlog - cfg['N'])
        st.case(sorted(cfg.items()), None, nontrivial=bool(backlog))
        if backlog is None:
            st.count('no_disconnection_seen')
        elif backlog:
            st.count('flushes_with_backlog')
            st.add('backlogs_at_flush', min(backlog, 50))
            if info['same_queue']:
                st.count('flushes_with_backlog_on_shared_queue')
        record(st, out, {'cfg': cfg, 'salt': seed})
    if cases:
        st.samples.append({'example': cases[0], 'cases': len(cases)})
    return st


def w_dual(arg):
    from ..harness import c05_multi as m

    cfgs, quick, seed = arg
    warnings.simplefilter('ignore')
    st = core.Stats('dual')
    for cfg in cfgs:
        d = m.Dual(cfg, seed)
        try:
            st.add('handle_layouts', (cfg['le_addr'], cfg['first'], d.handle['le'], d.handle['classic']))
            n = 0
            for plan in m.dual_plans(d.L['le'], d.L['classic'], quick):
                n += 1
                salt = seed * 5 + n
                out = d.run(plan, salt)
                st.case((sorted(cfg.items()), plan), None)
                st.count('pdus_sent', len(plan))
                if out:
                    record(st, out, {'cfg': cfg, 'plan': [list(x) for x in plan], 'salt': salt})
                    d.close()
                    d = m.Dual(cfg, seed)
            if len(st.samples) < 2:
                st.samples.append({'config': cfg, 'plans': n, 'example': [list(x) for x in plan]})
        finally:
            d.close()
    return st


def run(ctx: core.Context) -> int:
    quick = ctx.quick
    only = getattr(ctx, 'only', None)
    seed = ctx.seed

    asm = ctx.sub('assembler')
    if not only or 'assembler' in only:
        for r in core.pmap(w_bfs, [('assembler', 100000, not quick), ('host_path', 20000 if quick else 100000, not quick)], ctx.jobs):
            asm.merge(r)
        ctx.log(f'assembler: {asm.summary()}')

    iso = ctx.sub('iso')
    if not only or 'iso' in only:
        items = iso_items(quick)
        items.sort(key=lambda it: (not it[2], it[0]))
        parts = [[it] for it in items]
        for r in core.pmap(w_iso, [(p, quick, seed) for p in parts], ctx.jobs):
            iso.merge(r)
        ctx.log(f'iso: {iso.summary()}')

    e2e = ctx.sub('e2e')
    if not only or 'e2e' in only:
        small, big = e2e_items(quick)
        # expensive first: cost ~ bytes / L
        def big_cost(it):
            t, g, mode, seq = it
            L = g[0] if mode == '01' else g[2]
            return -sum(sum(v) for v in seq.values()) / L

        big.sort(key=big_cost)
        work = [(w_e2e_big, (t, g, m, s, seed + i)) for i, (t, g, m, s) in enumerate(big)]
        small.sort(key=lambda it: min(it[1][0], it[1][2]))
        for part in core.split(small, max(1, len(small) // 2) if quick else max(1, len(small) // 4)):
            work.append((w_e2e_small, (part, quick, seed)))
        res = core.pmap(_dispatch, work, ctx.jobs)
        # merge cheapest-first so the representative kept per signature is the smallest case
        for r in list(reversed(res[: len(big)])) + res[len(big) :]:
            e2e.merge(r)
        ctx.log(f'e2e: {e2e.summary()}')

    multi = ctx.sub('multi')
    dual = ctx.sub('dual')
    if not only or 'multi' in only or 'dual' in only:
        from ..harness import c05_multi as m

        work = []
        if not only or 'multi' in only:
            cases = m.multi_cases(quick)
            work += [(w_multi, (part, seed)) for part in core.split(cases, ctx.jobs * 4)]
        nmulti = len(work)
        if not only or 'dual' in only:
            work += [(w_dual, ([cfg], quick, seed)) for cfg in m.dual_configs(quick)]
        res = core.pmap(_dispatch, work, ctx.jobs)
        for r in res[:nmulti]:
            multi.merge(r)
        for r in res[nmulti:]:
            dual.merge(r)
        ctx.log(f'multi: {multi.summary()}')
        ctx.log(f'dual: {dual.summary()}')

    extra = {
        'states': asm.counters.get('states', 0),
        'transitions': asm.counters.get('transitions', 0),
        'traces_validated_against_impl': asm.evaluations,
        'state_definition': '(current_data, l2cap_pdu_length) of every real assembler involved x reference reassembler state; BFS to fixpoint over the fragment alphabet',
        'alphabet': [a[0] for a in ALPHABET] + ([] if quick else [a[0] for a in ALPHABET_T]) + [b[0] for b in ALPHABET_B],
        'finals': [f[0] for f in FINALS],
    }
    return core.finish(
        ctx,
        LEVEL,
        rule=(
            'e2e: (transport in le/classic/le-sharing-BR/EDR-buffers; also with Number Of Completed Packets events rewritten to list an entry for a handle without ACL link before the real one) x (L,N) geometry per side ('
            + ('one side varied at a time + diagonal' if quick else 'full product')
            + ') x PDU sequences of length 1-3 over payload lengths {0,1,kL-4+{-1,0,1}} in direction 0->1, 1->0 and duplex, plus large PDUs '
            'up to 65535 for each sender L; a case = one sequence, executed on two real stacks and checked at three observation points. '
            'multi: device 0 connected to devices 1 and 2 on one host queue (le / classic / le sharing BR/EDR buffers / one LE + one BR/EDR link sharing them) x (L,N in {1,2,3}) x '
            'which link survives x who closes the other x queueing order x 1-3 PDUs (10-24 fragments each) to the survivor, 0-2 to the closed link x number of loop steps before the disconnect; non-trivial = the queue still held packets when it was flushed. '
            'dual: BR/EDR + LE links between the same two devices (LE own address public / random, either link first) x geometry per transport x traffic plans on all four streams; each PDU must arrive on its own handle. '
            'iso: (M,N) x SDU sequences of length 1-3 over lengths at every fragment boundary +-1 on a CIS and a BIS link. '
            'assembler: BFS to fixpoint over a ' + ('14' if quick else '16') + '-symbol fragment alphabet (+4 symbols on a second connection for the host path) with 5 well-formed final PDUs fed at every reachable state; a case = one transition or one final'
        ),
        assumptions=[
            'message schedules: stock asyncio order only (no delivery-delay exploration in this property)',
            'payload bytes follow one position-dependent pattern of period 251 (offset varies with VERIF_SEED); other contents are not enumerated',
            'ACL data packet length >= 2 (the first fragment must hold the 16-bit L2CAP length field; lengths 2 and 3 only in the thorough tier); ISO data packet length >= 5',
            'ISO SDU lengths up to 4095 (12-bit ISO_SDU_Length); a zero-length SDU that produces no ISO packet is accepted (zero fragments)',
            'assembler alphabet uses announced lengths <= 9 bytes; the assembler never branches on the magnitude beyond comparing with len(current_data)',
            'a start fragment shorter than the 2-byte length field and an illegal pb value make the reference indifferent until the next start fragment',
        ],
        extra=extra,
    )


def _dispatch(item):
    fn, arg = item
    return fn(arg)


# ---------------------------------------------------------------------------
def replay(v: core.Violation):
    warnings.simplefilter('ignore')
    c = v.case
    msgs = []
    if v.check in ('e2e_fragment', 'e2e_delivery'):
        out = e2e_case(c['transport'], tuple(c['geom']), c['mode'], c['seq'], c['salt'])
        for check, sig, msg in out:
            if check == v.check and core.canon_json(dict(sig, check=check)) == v.key:
                msgs.append(msg)
    elif v.check in ('multi_fragment', 'multi_delivery'):
        from ..harness import c05_multi as m

        out, _ = m.run_multi(c['cfg'], c['salt'])
        msgs += [msg for check, sig, msg in out if check == v.check and core.canon_json(dict(sig, check=check)) == v.key]
    elif v.check in ('dual_fragment', 'dual_delivery'):
        from ..harness import c05_multi as m

        d = m.Dual(c['cfg'], 0)
        try:
            out = d.run([tuple(x) for x in c['plan']], c['salt'])
        finally:
            d.close()
        msgs += [msg for check, sig, msg in out if check == v.check and core.canon_json(dict(sig, check=check)) == v.key]
    elif v.check == 'iso_fragment':
        rig = IsoRig(c['M'], c['N'])
        try:
            if c.get('wrap'):
                res = iso_wrap(rig)
            else:
                res = rig.run([tuple(x) for x in c['sdus']], c['salt'])
        finally:
            rig.close()
        if res:
            msgs.append(res[1])
    elif v.check in ('asm_step', 'asm_final'):
        t = BareTarget() if c['target'] == 'assembler' else HostTarget()
        try:
            st = core.Stats('replay')
            names = {s[0]: s for s in ALPHABET}
            names.update({s[0]: s for s in ALPHABET_B})
            names.update({s[0]: s for s in ALPHABET_T})
            t.fresh()
            refs = {h: RefAsm() for h in t.handles}

            def conv(which, frames):
                return frames if t.name == 'assembler' else [(which,) + split_frame(f) for f in frames]

            for name in c['hist']:
                which = 'B' if name.startswith('B_') else 'A'
                _, pb, data = names[name]
                t.feed(which, pb, data)
                refs[which].feed(pb, data)
            if v.check == 'asm_step':
                name = c['sym']
                which = 'B' if name.startswith('B_') else 'A'
                _, pb, data = names[name]
                got, exc = t.feed(which, pb, data)
                want = refs[which].feed(pb, data)
                if want is not None and got != conv(which, want):
                    msgs.append(f'history {c["hist"]} then {name}: delivered {got!r}, reference {conv(which, want)!r}')
            else:
                frags = dict(FINALS)[c['final']]
                got_all = []
                for pb, data in frags:
                    got, exc = t.feed(c['which'], pb, data)
                    got_all += got
                if got_all != conv(c['which'], [b''.join(d for _, d in frags)]):
                    msgs.append(f'history {c["hist"]} then {c["final"]}: delivered {got_all!r}')
        finally:
            t.close()
    return msgs
