"""C16 — teardown is complete: no stale connection state, no waiter left hanging.

Fault enumeration.  For every awaited procedure P (harness/c16_procs.py) the fault-free run on two real
Device/Host/Controller stacks is executed once and its message deliveries (every host->controller,
controller->host and link delivery the virtual loop performs) are counted: N.  Then for EVERY index
i in 0..N and every fault F the same deterministic run is repeated and F is injected immediately before
delivery i (i = N: after the last one).

Faults
  local_disconnect      the waiting side's application calls connection.disconnect()
  peer_disconnect       the other side's application calls connection.disconnect()
  link_loss             both controllers are told by the link that the connection is gone
                        (LL_TERMINATE_IND / LMP_detach arriving at each of them)
  local_transport_loss  the waiting side's HCI transport dies: nothing flows between that host and its
                        controller any more and host.on_transport_lost() is called (what a transport source does)
  peer_transport_loss   the same on the other side; the waiting side's connection then is still alive, so a call
                        that keeps waiting is not held against bumble — the waiting side then disconnects and after
                        THAT every call has to be finished

Oracle (written from the property statement), evaluated after quiescence + 120 virtual seconds (all built-in
timeouts: GATT 30 s):
  1. every awaited API call is done (result, exception or cancellation);
  2. connection tables: where the link was torn down, Host.connections, Device.connections and the controller's
     connection table of each side agree (and are empty when the teardown was reported to both controllers);
     after a transport loss on X, X's Host and Device agree with each other, the other side's three tables
     agree with each other;
  3. no per-connection registry entry for a dead connection: gatt_server.subscribers / locked indication
     semaphores / pending confirmations, smp_manager.sessions, l2cap channels / le_coc_channels,
     DataPacketQueue per-connection state and queued packets;
  4. behavioural residue: after a link-level teardown the devices reconnect and the same procedure, fault-free,
     succeeds; where a transport still exists a following HCI command completes.

  5. queued outbound data: once the teardown has been processed no ACL queue of a host holds waiting packets for a
     handle that is not in Host.connections; no ACL packet for such a handle is ever handed to the controller
     (tap on host.hci_sink); at the end (all credits back) every queue's `pending` is 0.

Extra fault `disconnect_and_reconnect_same_handle` (procedures with reconnect_fault = True: the GATT server is the
LE central): from the injection point the central's host reads nothing from its controller (order-preserving
delay); the peripheral disconnects, advertises again, the central's application connects again — the controller
gives the new connection the handle just freed; then the late host gets everything back to back.  Registries are
judged by object identity (an entry keyed by the dead Connection object is residue even though its handle is live).

Procedures queued_outbound_data_{1,2,4}: three devices; the central keeps its controller's 1/2/4 ACL buffers busy
towards peripheral 1 (Number Of Completed Packets delayed), the data for peripheral 2 can only wait in the host
queue; the connection to peripheral 2 is the one that is torn.

Not judged (counted in the evidence instead): calls / HCI commands that were *started after* the host's transport
had died (they were not waiting on it when it was lost); registry entries of a dead connection that are
semantically empty (unlocked semaphore, `None` confirmation, empty channel dict); calls that end by a built-in
timeout rather than by the cut (an error is an error).

Signatures are {proc, fault, what}.  Two pseudo-procedures `idle_le` / `idle_classic` (a connection that has
carried one PDU each way and is otherwise idle) are swept first; a (fault, what) that already fails there is
reported under the idle procedure only and not again under each of the other procedures of that transport.

Thorough tier = the same sweep x {no hold, one of the six message channels (h2c/c2h/link x 2 devices) held back
from the injection point until everything else is quiescent}: every order-preserving single-channel delay
around the fault (deviation bound 1).
"""
from __future__ import annotations

import asyncio
import os

from .. import core
from ..harness import c16_procs as P
from ..harness.devices import World
from ..vloop import Hang, StepBudgetExceeded

LEVEL = 'fault_enumeration'
HORIZON = 120.0
LINK_FAULTS = ['local_disconnect', 'peer_disconnect', 'link_loss']
TRANSPORT_FAULTS = ['local_transport_loss', 'peer_transport_loss']
FAULTS = LINK_FAULTS + TRANSPORT_FAULTS
RECONNECT_FAULT = 'disconnect_and_reconnect_same_handle'  # only for procedures with reconnect_fault = True
HOLDS = [None, ('h2c', 0), ('h2c', 1), ('c2h', 0), ('c2h', 1), ('link', 0), ('link', 1)]
MAX_STEPS = 100000
SEED = int(os.environ.get('VERIF_SEED', '0') or 0)  # feeds bumble's random draws (addresses, nonces, passkeys)


_MUTED = False


def mute_colors():
    """bumble builds its debug f-strings eagerly; ANSI colouring of text that is never emitted (logging is disabled
    by ./check) is a quarter of a case's cost.  `color()` is a pure string wrapper: every module-level reference to
    it becomes the identity."""
    global _MUTED
    if _MUTED:
        return
    _MUTED = True
    import sys

    import bumble.a2dp, bumble.avdtp, bumble.controller, bumble.device, bumble.gatt_client, bumble.gatt_server  # noqa
    import bumble.host, bumble.l2cap, bumble.link, bumble.rfcomm, bumble.sdp, bumble.smp  # noqa
    import bumble.colors as bc

    real = bc.color
    for name, mod in list(sys.modules.items()):
        if name.startswith('bumble') and mod is not None and getattr(mod, 'color', None) is real:
            mod.color = lambda s, *a, **k: s


# ---------------------------------------------------------------------------
# tracking of awaited calls
# ---------------------------------------------------------------------------
class Tracker:
    def __init__(self, loop):
        self.loop = loop
        self.calls = []
        self.phase = 'run'
        self.tasks = []
        self.untracked = []  # exceptions of the driver itself (assertions on results, harness bugs)

    async def __call__(self, name, awaitable):
        rec = {'name': name, 'state': 'pending', 'exc': None, 'phase': None, 'after_fault': self.phase != 'run'}
        self.calls.append(rec)
        try:
            r = await awaitable
        except BaseException as e:  # noqa
            rec['state'] = 'cancelled' if isinstance(e, asyncio.CancelledError) else 'exc'
            rec['exc'] = type(e).__name__
            rec['detail'] = str(e)[:120]
            rec['phase'] = self.phase
            try:
                e._c16_tracked = True
            except Exception:  # noqa
                pass
            raise
        rec['state'] = 'ok'
        rec['phase'] = self.phase
        return r

    def spawn(self, coro):
        async def guard():
            try:
                await coro
            except BaseException as e:  # noqa  (recorded by __call__ when it came out of an awaited call)
                if not getattr(e, '_c16_tracked', False):
                    self.untracked.append(f'{type(e).__name__}: {e}'[:200])

        t = self.loop.create_task(guard())
        self.tasks.append(t)
        return t

    def pending(self):
        return [c for c in self.calls if c['state'] == 'pending']

    def fingerprint(self):
        return tuple((c['name'], c['state'], c['exc'], c['phase']) for c in self.calls)


# ---------------------------------------------------------------------------
# world helpers
# ---------------------------------------------------------------------------
def connect(w, proc):
    a, b = proc.pair
    return w.connect_classic(a, b) if proc.transport == 'classic' else w.connect_le(a, b)


def link_loss(w, classic, ends):
    """Both controllers hear from the link that the connection under test is gone.  ends = [(device index, handle)]."""
    from bumble import ll, lmp

    for i, handle in ends:
        c = w.controllers[i]
        table = c.classic_connections if classic else c.le_connections
        for peer, conn in list(table.items()):
            if conn.handle != handle:
                continue
            if classic:
                c.on_lmp_packet(peer, lmp.LmpDetach(0x08))
            else:
                c.on_ll_control_pdu(peer, ll.TerminateInd(0x08))


def _noop(*a):
    return None


def lose_transport(w, i, running=None):
    """The HCI transport of device i is gone: nothing queued is delivered, nothing flows afterwards, and the
    host is told (Host.on_transport_lost, as transport sources do)."""
    loop = w.loop
    chans = (('h2c', i), ('c2h', i))
    if running is not None and loop.classify(running) in chans:
        running._callback = _noop
        running._args = ()
    for h in list(loop._ready):
        if not h._cancelled and loop.classify(h) in chans:
            h.cancel()
    w.hosts[i].hci_sink = None
    w.controllers[i].host = None
    w.lost.add(i)
    w.in_flight_at_loss[i] = w.hosts[i].pending_command
    try:
        w.hosts[i].on_transport_lost()
    except Exception as e:  # noqa  -- judged by the caller
        w.transport_lost_raised.append(f'{type(e).__name__}: {e}')


class SinkTap:
    """Between a host and its controller (host -> controller direction): notes every ACL packet handed over for
    a handle the host itself no longer lists as a connection (queued data of a closed connection getting out)."""

    def __init__(self, host, sink, log):
        self.host, self.sink, self.log = host, sink, log

    def on_packet(self, packet):
        if packet[0] == 0x02:
            handle = (packet[1] | (packet[2] << 8)) & 0x0FFF
            if handle not in self.host.connections:
                self.log.append(handle)
        self.sink.on_packet(packet)


class LateHost:
    """A host that is late reading its transport: from `hold()` on, what its controller sends is kept, in order,
    and handed over back to back by `release()` (an order-preserving delay of that c2h channel)."""

    def __init__(self, controller, host):
        self.controller, self.host, self.held, self.active = controller, host, [], False

    def on_packet(self, packet):
        self.held.append(packet)

    def hold(self):
        self.active = True
        self.controller.host = self

    def release(self):
        self.active = False
        self.controller.host = self.host
        held, self.held = self.held, []
        for packet in held:
            self.host.on_packet(packet)


def tables(w, i):
    h = set(w.hosts[i].connections)
    d = set(w.devices[i].connections)
    c = {x.handle for x in w.controllers[i].le_connections.values()} | {x.handle for x in w.controllers[i].classic_connections.values()}
    return h, d, c


def _queue_handles(q):
    """(connection handles the queue keeps per-connection state for, handles of its waiting packets), read from whatever
    attributes hold them: per-connection state = int keys of its dicts, waiting packets = int members of the tuples in
    its sequences."""
    import collections

    keys, members = set(), set()
    for v in vars(q).values():
        if isinstance(v, dict):
            keys |= {k for k in v if isinstance(k, int)}
        elif isinstance(v, (list, tuple, collections.deque)):
            for item in v:
                if isinstance(item, tuple):
                    members |= {x for x in item if isinstance(x, int) and not isinstance(x, bool)}
    return keys, members


def queued_for_dead(w, i):
    """ACL queues of host i that hold waiting packets for a handle that is not a connection of that host."""
    out = []
    host = w.hosts[i]
    for qn in ('acl_packet_queue', 'le_acl_packet_queue'):
        q = getattr(host, qn, None)
        if q is not None and any(h not in host.connections for h in _queue_handles(q)[1]):
            out.append(qn)
    return out


def registry_residue(w, i):
    """Names of per-connection registries of device i that still hold something for a connection that is not
    (by object identity) in Device.connections."""
    dev = w.devices[i]
    live = dev.connections
    out = []

    def dead_bearer(b):
        conn = getattr(b, 'connection', b)  # enhanced bearer = L2CAP channel
        return live.get(getattr(conn, 'handle', None)) is not conn

    gs = dev.gatt_server
    # (tables that exist under these names; an implementation that keeps the same state elsewhere is judged by the
    # behavioural clauses - the indication / subscription procedures after a reconnection)
    if any(dead_bearer(b) for b in getattr(gs, 'subscribers', ())):
        out.append('gatt_server.subscribers')
    if any(dead_bearer(b) and s.locked() for b, s in getattr(gs, 'indication_semaphores', {}).items()):
        out.append('gatt_server.indication_semaphores')
    if any(dead_bearer(b) and f is not None for b, f in getattr(gs, 'pending_confirmations', {}).items()):
        out.append('gatt_server.pending_confirmations')
    if any(h not in live or sess.connection is not live[h] for h, sess in dev.smp_manager.sessions.items()):
        out.append('smp_manager.sessions')
    lm = dev.l2cap_channel_manager
    for name, table in (('channels', lm.channels), ('le_coc_channels', lm.le_coc_channels)):
        if any(ch and (h not in live or any(getattr(x, 'connection', live[h]) is not live[h] for x in ch.values())) for h, ch in table.items()):
            out.append(f'l2cap_channel_manager.{name}')
    for qn in ('acl_packet_queue', 'le_acl_packet_queue'):
        q = getattr(dev.host, qn, None)
        if q is None:
            continue
        keys, members = _queue_handles(q)
        if any(h not in live for h in keys):
            out.append(f'host.{qn}._connection_state')
        if any(h not in live for h in members):
            out.append(f'host.{qn}._packets')
    return out


def soft_residue(w, i):
    """Entries for dead connections that are semantically empty (counted, not judged)."""
    dev = w.devices[i]
    live = dev.connections
    gs = dev.gatt_server
    n = 0
    for reg in (getattr(gs, 'indication_semaphores', {}), getattr(gs, 'pending_confirmations', {})):
        for b in reg:
            conn = getattr(b, 'connection', b)
            if live.get(getattr(conn, 'handle', None)) is not conn:
                n += 1
    lm = dev.l2cap_channel_manager
    n += sum(1 for h in lm.channels if h not in live) + sum(1 for h in lm.le_coc_channels if h not in live)
    return n


def hci_probe(w, i, tr, label):
    from bumble import hci

    tr.spawn(tr(f'Host.send_command after the fault [{label}]', w.hosts[i].send_command(hci.HCI_Read_BD_ADDR_Command())))


# ---------------------------------------------------------------------------
# one case
# ---------------------------------------------------------------------------
def run_case(proc_name, fault=None, at=0, hold=None):
    """Returns dict(messages, viol=[(what, message)], fp=outcome fingerprint, injected, notes)."""
    mute_colors()
    proc = P.PROCS[proc_name]()
    classic = proc.transport == 'classic'
    viol = []
    notes = {}

    def bad(what, msg):
        if all(v[0] != what for v in viol):
            viol.append((what, msg))

    w = World(proc.n_devices, classic=classic, seed=SEED, controller_attrs=proc.controller_attrs)
    w.__enter__()
    try:
        w.lost = set()
        w.transport_lost_raised = []
        w.in_flight_at_loss = {}
        w.power_on()
        stale_sent = {}
        for i, host in enumerate(w.hosts):
            stale_sent[i] = []
            host.hci_sink = SinkTap(host, host.hci_sink, stale_sent[i])
        proc.services(w)
        conns = connect(w, proc)
        env = P.Env(w, proc.waiting, conns, proc.pair)
        w.run(proc.prepare(env), horizon=w.loop.time() + 60.0)
        w.settle()
        w.loop.collect_exceptions()
        L, R = env.local_index, env.peer_index
        pair = sorted((L, R))
        side_of = {L: 'waiting side', R: 'other side'}
        handle_of = {L: env.conn.handle, R: env.peer_conn.handle}

        tr = Tracker(w.loop)
        msgs = [0]
        injected = [False]
        late = {}
        reconn = {}
        watched = {}  # id(channel) -> [device index, channel, was open when seen or since, 'close' events]

        def watch_channels():
            # every L2CAP channel object of the connection under test that is open now: once its connection is gone it
            # has to have told its user so ('close' is what RFCOMM, SDP, AVDTP and applications release their waiters on)
            for i in pair:
                lm = w.devices[i].l2cap_channel_manager
                for table in (lm.channels, lm.le_coc_channels):
                    for ch in list(table.get(handle_of[i], {}).values()):
                        if id(ch) in watched or not hasattr(ch, 'on'):
                            continue
                        rec = watched[id(ch)] = [i, ch, getattr(getattr(ch, 'state', None), 'name', '') in ('OPEN', 'CONNECTED'), 0]
                        ch.on('open', lambda *a, rec=rec: rec.__setitem__(2, True))
                        ch.on('close', lambda *a, rec=rec: rec.__setitem__(3, rec[3] + 1))

        watch_channels()

        def check_queued(when):
            for i in pair:
                for qn in queued_for_dead(w, i):
                    bad(
                        f'residue: host.{qn}._packets ({side_of[i]})',
                        f'{side_of[i]}: {when}, host.{qn} still holds waiting packets for a handle that is not in Host.connections',
                    )

        def drive(first_phase, second_phase):
            tr.phase = first_phase
            w.loop.run_quiescent(max_steps=MAX_STEPS)
            check_queued('once the teardown has been processed')
            tr.phase = second_phase
            w.loop.advance(HORIZON, max_steps=MAX_STEPS)
            w.loop.run_quiescent(max_steps=MAX_STEPS)

        async def reconnect_fault():
            # the peripheral end leaves, advertises again; the central end (whose host is late) connects again
            p_dev, c_dev = w.devices[pair[1]], w.devices[pair[0]]
            p_conn = conns[1]
            await tr('Connection.disconnect [the fault: peripheral leaves]', p_conn.disconnect())
            got = []
            p_dev.once('connection', got.append)
            reconn['peripheral'] = got
            await p_dev.start_advertising(advertising_interval_min=500.0, advertising_interval_max=500.0)
            reconn['central'] = await tr('Device.connect [the fault: central connects again]', c_dev.connect(p_dev.random_address))

        def inject(handle):
            injected[0] = True
            tr.phase = 'cut'
            watch_channels()
            if hold is not None:
                w.loop.held.add(tuple(hold))
            if fault == 'local_disconnect':
                tr.spawn(tr('Connection.disconnect [the fault, waiting side]', env.conn.disconnect()))
            elif fault == 'peer_disconnect':
                tr.spawn(tr('Connection.disconnect [the fault, other side]', env.peer_conn.disconnect()))
            elif fault == 'link_loss':
                link_loss(w, classic, [(L, handle_of[L]), (R, handle_of[R])])
            elif fault == 'local_transport_loss':
                lose_transport(w, L, handle)
            elif fault == 'peer_transport_loss':
                lose_transport(w, R, handle)
            elif fault == RECONNECT_FAULT:
                c = pair[0]  # the central end is the victim: its host reads nothing from now on
                late[c] = LateHost(w.controllers[c], w.hosts[c])
                late[c].hold()
                tr.spawn(reconnect_fault())

        def on_step(handle):
            if w.loop.classify(handle) is not None:
                if fault and not injected[0] and msgs[0] == at:
                    inject(handle)
                msgs[0] += 1

        w.loop.on_step = on_step
        main = tr.spawn(proc.run(env, tr))
        w.loop.run_quiescent(max_steps=MAX_STEPS)
        if fault and not injected[0]:
            if at == msgs[0]:
                inject(None)  # after the last delivery
                w.loop.run_quiescent(max_steps=MAX_STEPS)
            else:
                return {'skip': True, 'messages': msgs[0]}
        w.loop.on_step = None
        if fault == RECONNECT_FAULT:
            # let the link-level reconnection happen (advertising needs time), then the late host catches up
            w.loop.run_until(lambda: bool(reconn.get('peripheral')), horizon=w.loop.time() + 10.0, max_steps=MAX_STEPS)
            notes['link_reconnected_before_release'] = bool(reconn.get('peripheral'))
            for lh in late.values():
                lh.release()
        drive(tr.phase, 'timeout')
        notes['messages'] = msgs[0]

        if fault is None:
            for c in tr.calls:
                if c['state'] != 'ok':
                    bad(f'fault_free_call_failed: {c["name"]}', f'without any fault {c["name"]} ended {c["state"]} {c["exc"]} {c.get("detail", "")}')
            if not main.done():
                bad('fault_free_not_finished', 'without any fault the procedure did not finish')
            for u in tr.untracked:
                bad('fault_free_wrong_result', f'without any fault: {u}')
            for i in pair:
                if stale_sent[i]:
                    bad('fault_free_wrong_result', f'without any fault: ACL data for unknown handles {stale_sent[i]} handed to the controller')
            return {'messages': msgs[0], 'viol': viol, 'fp': tr.fingerprint(), 'calls': [c['name'] for c in tr.calls], 'notes': notes}

        # ---- peer transport loss: the waiting side's link is still up; give up on it -------------------
        if fault == 'peer_transport_loss':
            notes['pending_before_disconnect'] = [c['name'] for c in tr.pending()]
            if w.devices[L].connections.get(handle_of[L]) is env.conn:
                tr.spawn(tr('Connection.disconnect [waiting side gives up on the silent peer]', env.conn.disconnect()))
                drive('cut2', 'timeout2')

        if w.transport_lost_raised:
            # nothing after the raise ran (no 'flush'): whatever else is wrong in this case is a consequence
            e = w.transport_lost_raised[0]
            stuck = [c['name'] for c in tr.pending()]
            viol.clear()
            bad(
                f'on_transport_lost_raised: {e.split(":")[0]}',
                f'Host.on_transport_lost() raised {e}; the flush that releases the waiters was skipped (left pending: {stuck})',
            )
            notes['loop_exceptions'] = []
            return {'messages': msgs[0], 'viol': viol, 'fp': tr.fingerprint(), 'notes': notes, 'injected': injected[0]}

        # ---- (1) every awaited call is done ----------------------------------------------------------
        stuck = tr.pending()
        for c in stuck:
            if c['after_fault'] and fault == 'local_transport_loss' and not c['name'].startswith('Connection.disconnect ['):
                # a call made after the transport had died was not waiting on it when it was lost: counted, not judged
                notes['call_started_after_transport_loss'] = notes.get('call_started_after_transport_loss', 0) + 1
                continue
            bad(f'awaitable_pending: {c["name"]}', f'{c["name"]} never completed (still pending {HORIZON:.0f} virtual seconds after the fault)')

        # ---- (2) connection tables ---------------------------------------------------------------------
        for i in pair:
            h, d, c = tables(w, i)
            side = side_of[i]
            if i in w.lost:
                if h != d:
                    bad(
                        f'tables_disagree_after_transport_loss: host={len(h)} device={len(d)}',
                        f'{side} after its transport loss: Host.connections={sorted(h)} Device.connections={sorted(d)}',
                    )
            else:
                if not (h == d == c):
                    bad(
                        f'tables_disagree: {side}: host={len(h)} device={len(d)} controller={len(c)}',
                        f'{side}: Host.connections={sorted(h)} Device.connections={sorted(d)} controller={sorted(c)}',
                    )
        torn = fault == 'link_loss' or fault == 'peer_transport_loss'
        if fault in ('local_disconnect', 'peer_disconnect'):
            torn = any(c['name'].startswith('Connection.disconnect [the fault') and c['state'] == 'ok' for c in tr.calls)
        gone = True
        for i in pair:
            if i in w.lost:
                continue
            h, d, c = tables(w, i)
            k = handle_of[i]
            if k in h or k in d or k in c:
                gone = False
                if torn:
                    bad(
                        'connection_survives_teardown',
                        f'{side_of[i]} still lists connection 0x{k:04X} after the link was torn down: host={sorted(h)} device={sorted(d)} controller={sorted(c)}',
                    )

        # ---- (3) per-connection registries, queued data ---------------------------------------------------
        for i in pair:
            side = side_of[i]
            for reg in registry_residue(w, i):
                bad(f'residue: {reg} ({side})', f'{side}: {reg} still holds state of a connection that is not in Device.connections')
            notes['soft'] = notes.get('soft', 0) + soft_residue(w, i)
            if stale_sent[i]:
                bad(
                    f'stale_data_sent: data of a closed connection handed to the controller ({side})',
                    f'{side}: {len(stale_sent[i])} ACL packet(s) for closed connection(s) {sorted(set(stale_sent[i]))} were handed to the controller after the teardown',
                )
            if i not in w.lost:
                for qn in ('acl_packet_queue', 'le_acl_packet_queue'):
                    q = getattr(w.hosts[i], qn, None)
                    if q is not None and q.pending:
                        bad(
                            f'residue: host.{qn}.pending ({side})',
                            f'{side}: host.{qn}.pending={q.pending} although every live connection has been served and all credits are back',
                        )
        for i, ch, was_open, closes in watched.values():
            if was_open and closes == 0 and i not in w.lost and handle_of[i] not in w.devices[i].connections:
                bad(
                    f'channel_never_closed: {type(ch).__name__} ({side_of[i]})',
                    f'{side_of[i]}: an open {type(ch).__name__} of the connection never emitted \'close\' although the connection is gone (left in state {getattr(getattr(ch, "state", None), "name", "?")}): whoever waits for its end waits for ever',
                )
        for i in pair:
            if i in w.lost and any(v[0].startswith('awaitable_pending') for v in viol):
                continue
            hst = w.hosts[i]
            if i in w.lost and hst.pending_command is not None and hst.pending_command is not w.in_flight_at_loss.get(i):
                # a command handed to the host AFTER its transport died was not "waiting on that transport" when it was lost
                notes['command_issued_after_transport_loss'] = 1
                continue
            if hst.pending_command is not None or hst.pending_response is not None or hst.command_semaphore.locked():
                bad(f'residue: host.pending_command ({side_of[i]})', f'{side_of[i]}: an HCI command is still pending / the command semaphore is still held')

        # ---- (4) behaviour afterwards ------------------------------------------------------------------
        tr2 = Tracker(w.loop)
        tr2.phase = 'after'
        for i in pair:
            if i not in w.lost and not any(v[0].startswith('residue: host.pending_command') for v in viol):
                hci_probe(w, i, tr2, side_of[i])
        w.loop.run_quiescent(max_steps=MAX_STEPS)
        for c in tr2.calls:
            if c['state'] != 'ok':
                bad(f'residue_behaviour: {c["name"]} {c["state"]}', f'{c["name"]} ended {c["state"]} {c["exc"]}')
        wedged = any(v[0].startswith(('residue_behaviour', 'residue: host.pending_command')) for v in viol)
        conns2 = None
        if fault == RECONNECT_FAULT:
            cc, got = reconn.get('central'), reconn.get('peripheral')
            if cc is not None and got:
                conns2 = (cc, got[0])
                notes['handle_reused'] = cc.handle == conns[0].handle
        elif not w.lost and not wedged and gone:
            try:
                conns2 = connect(w, proc)
            except (Hang, StepBudgetExceeded, Exception) as e:  # noqa
                bad('residue_behaviour: reconnect', f'reconnecting after the teardown failed: {type(e).__name__} {e}')
        if conns2 is not None and not wedged:
            env2 = P.Env(w, proc.waiting, conns2, proc.pair)
            tr2 = Tracker(w.loop)
            tr2.phase = 'after'

            async def again():
                await tr2('[preamble of the procedure]', proc.prepare(env2))
                await proc.run(env2, tr2)

            main2 = tr2.spawn(again())
            w.loop.run_quiescent(max_steps=MAX_STEPS)
            if not main2.done():
                w.loop.advance(HORIZON, max_steps=MAX_STEPS)
            for c in tr2.calls:
                if c['state'] != 'ok':
                    bad(
                        f'residue_behaviour: {c["name"]} {c["state"]} {c["exc"] or ""}'.strip(),
                        f'on a new connection after the teardown, {c["name"]} ended {c["state"]} {c["exc"]} {c.get("detail", "")}',
                    )
                    break
            else:
                for u in tr2.untracked:
                    bad('residue_behaviour: wrong result', f'on a new connection after the teardown: {u}')
            notes['rerun'] = True
        notes['timeout_finished'] = sum(1 for c in tr.calls if c['phase'] in ('timeout', 'timeout2'))
        notes['loop_exceptions'] = [e[1][:80] for e in w.loop.collect_exceptions()][:3]
        return {'messages': msgs[0], 'viol': viol, 'fp': tr.fingerprint(), 'notes': notes, 'injected': injected[0]}
    finally:
        w.__exit__()


# ---------------------------------------------------------------------------
# workers
# ---------------------------------------------------------------------------
IDLE = {'le': 'idle_le', 'classic': 'idle_classic'}


def idle_findings():
    """(transport, fault, what) that already fail on an idle connection: they are reported once, under the idle
    procedure, not again under each of the procedures (one root cause = one signature)."""
    out = set()
    for tname, pname in IDLE.items():
        for f in FAULTS:
            r = run_case(pname, f, 0)
            for what, _ in r.get('viol', []):
                out.add((tname, f, what))
    return out


def w_item(arg):
    import warnings

    warnings.simplefilter('ignore')
    proc, fault, hold, generic = arg
    transport = P.PROCS[proc].transport
    is_idle = proc in IDLE.values()
    st = core.Stats('teardown')
    try:
        base = run_case(proc)
    except (Hang, StepBudgetExceeded, AssertionError) as e:
        st.violation('fault_free_failed', {'proc': proc, 'fault': None, 'what': f'{type(e).__name__}'}, f'{proc}: fault-free run failed: {type(e).__name__} {e}', {'proc': proc, 'fault': None, 'at': 0, 'hold': None})
        return st
    n = base['messages']
    if fault is None:
        st.case((proc, None, base['fp']), {'proc': proc, 'fault': None, 'messages': n, 'calls': base['calls']})
        st.count('message_boundaries', n + 1)
        for what, msg in base['viol']:
            st.violation(what.split(':')[0], {'proc': proc, 'fault': None, 'what': what}, f'{proc}: {msg}', {'proc': proc, 'fault': None, 'at': 0, 'hold': None})
        return st
    for at in range(n + 1):
        try:
            r = run_case(proc, fault, at, hold)
        except (Hang, StepBudgetExceeded) as e:
            st.violation('harness_stuck', {'proc': proc, 'fault': fault, 'what': type(e).__name__}, f'{proc} {fault}@{at}: {type(e).__name__} {e}', {'proc': proc, 'fault': fault, 'at': at, 'hold': hold})
            continue
        if r.get('skip'):
            st.count('index_not_reached')
            continue
        st.case((proc, fault, r['fp'], tuple(v[0] for v in r['viol'])), {'proc': proc, 'fault': fault, 'at': at, 'outcome': r['fp']} if at == n // 2 and hold is None else None)
        st.add('outcomes', (proc, fault, r['fp']))
        st.count('calls_finished_only_by_timeout', r['notes'].get('timeout_finished', 0))
        st.count('reconnect_and_rerun', 1 if r['notes'].get('rerun') else 0)
        st.count('empty_entries_left_for_dead_connections', r['notes'].get('soft', 0))
        st.count('calls_started_after_transport_loss_left_pending', r['notes'].get('call_started_after_transport_loss', 0))
        st.count('commands_issued_after_transport_loss_left_pending', r['notes'].get('command_issued_after_transport_loss', 0))
        if fault == RECONNECT_FAULT:
            st.count('reconnect_fault_link_up_again_before_host_caught_up', 1 if r['notes'].get('link_reconnected_before_release') else 0)
            st.count('reconnect_fault_handle_reused', 1 if r['notes'].get('handle_reused') else 0)
        if r['notes'].get('pending_before_disconnect'):
            st.count('peer_transport_loss_calls_waiting_until_local_disconnect', 1)
        for what, msg in r['viol']:
            if not is_idle and (transport, fault, what) in generic:
                st.count('violations_already_present_on_idle_connection')
                continue
            hs = f' hold={hold}' if hold else ''
            st.violation(
                what.split(':')[0],
                {'proc': proc, 'fault': fault, 'what': what},
                f'{proc}, {fault} before message {at}/{n}{hs}: {msg} {r["notes"].get("loop_exceptions") or ""}'.rstrip(),
                {'proc': proc, 'fault': fault, 'at': at, 'hold': hold},
            )
    return st


def run(ctx: core.Context) -> int:
    import warnings

    warnings.simplefilter('ignore')
    quick = ctx.quick
    only = getattr(ctx, 'only', None)
    procs = [p for p in P.PROCS if not only or p in only or p in IDLE.values()]
    holds = [None] if quick else HOLDS
    generic = idle_findings()
    ctx.log(f'already failing on an idle connection: {sorted(generic)}')
    # measure the procedures so that the long ones start first
    size = {p: run_case(p)['messages'] for p in procs}
    items = [(p, None, None, generic) for p in procs]
    for p in sorted(procs, key=lambda p: -size[p]):
        for f in FAULTS + ([RECONNECT_FAULT] if P.PROCS[p].reconnect_fault else []):
            for h in holds:
                if h is not None and (p in IDLE.values() or f == RECONNECT_FAULT):
                    continue  # the reconnect fault comes with its own hold (the victim host reads late)
                items.append((p, f, h, generic))
    st = ctx.sub('teardown')
    for r in core.pmap(w_item, items, ctx.jobs):
        st.merge(r)
    st.count('procedures', len(procs))
    st.count('faults', len(FAULTS))
    ctx.log('teardown:', st.summary())
    return core.finish(
        ctx,
        LEVEL,
        rule=(
            'case = (procedure, fault, message index i of the fault-free run at which the fault is injected'
            + ('' if quick else ', one message channel held back from the injection point until quiescence (d<=1)')
            + '); every index 0..N of every procedure x 5 faults; distinct = (procedure, fault, outcome fingerprint = per awaited '
            'call (name, ok/exception type/cancelled/pending, finished by the cut or by a timeout) + violated checks)'
        ),
        assumptions=[
            "only bumble's virtual controller and LocalLink are in scope; a transport loss is modelled as: queued HCI packets of that "
            'device dropped, both directions silent afterwards, Host.on_transport_lost() called',
            'after a transport loss on X the virtual controller of X cannot know: its table is not judged',
            'after a transport loss on the other side the waiting side may wait until it disconnects itself; it does, and then every call must end',
            'entries of a dead connection that are semantically empty (unlocked semaphore, None confirmation, empty channel dict) are counted, not judged',
            'a violation that already occurs on an idle connection of the same transport is reported under idle_le / idle_classic only',
            'fault schedules: stock order' + ('' if quick else ' + one held channel'),
        ],
        extra={'horizon_virtual_s': HORIZON, 'fault_alphabet': FAULTS, 'held_channels': [list(h) if h else None for h in holds], 'messages_per_procedure': {p: size[p] for p in procs}},
    )


def replay(v: core.Violation):
    import warnings

    warnings.simplefilter('ignore')
    c = v.case
    r = run_case(c['proc'], c.get('fault'), c.get('at', 0), tuple(c['hold']) if c.get('hold') else None)
    if r.get('skip'):
        return []
    want = v.signature.get('what')
    return [m for what, m in r['viol'] if what == want]
