"""C19 - SDP answers and AVDTP/AVCTP messages are reassembled exactly across PDUs;
AVDTP stream states agree.

Sub-checks
  sdp_single   real sdp.Server / sdp.Client over a classic L2CAP channel on the virtual
               link: record sets x client MTU x search patterns x attribute-id lists x the
               three transaction types, compared with a reference matcher / selector
               written from the spec (harness/c19_sdp.py)
  sdp_boundary same stack, answers sized {cap-1, cap, cap+1, 2cap-1, 2cap, 2cap+1, 3cap+1,
               64cap} around the per-response capacity of each MTU
  sdp_multi_seq two clients on two different peers, every legal sequence of
               connect / query / disconnect operations
  sdp_multi    two clients with one transaction each, schedules explored with a
               deviation bound (explore.py)
  asm_avdtp / asm_avctp   breadth-first search over fragment/fault token sequences on the
               real MessageAssemblers (harness/c19_frag.py)
  avdtp_send   real avdtp.Protocol.send_message over a fake channel, every payload length
  stream_api / stream_raw  all AVDTP stream operation sequences from the initiating side
"""
from __future__ import annotations

import itertools

from .. import core, explore
from ..harness import c19_frag as F
from ..harness import c19_sdp as S
from ..harness.devices import World
from ..vloop import Hang, StepBudgetExceeded

LEVEL = 'exploration'

TXN_NAMES = {'ss': 'service_search', 'sa': 'service_attribute', 'ssa': 'service_search_attribute'}


# ===========================================================================
# SDP - common
# ===========================================================================
def jkey(x):
    return core.canon_json(x)


def plain_attrs(attrs):
    return [[a.id, S.to_plain(a.value)] for a in attrs]


class SdpBed:
    """n-1 client devices (0, 2, ...) connected to the SDP server on device 1."""

    def __init__(self, n=2):
        self.n = n
        self.w = None
        self.build()

    def build(self):
        self.close()
        self.w = World(self.n, classic=True, le=False)
        self.w.__enter__()
        self.w.power_on()
        self.conns = {}
        for i in range(self.n):
            if i == 1:
                continue
            self.conns[i] = self.w.connect_classic(i, 1)[0]
        self.server = self.w.devices[1].sdp_server

    def close(self):
        if self.w is not None:
            try:
                self.w.__exit__()
            except Exception:
                pass
            self.w = None

    def set_records(self, records):
        self.server.service_records = S.bumble_records(records)

    def do(self, coro):
        """('ok', value) | ('hang', None) | ('error', 'Type: text')"""
        w = self.w
        try:
            return ('ok', w.run(coro, horizon=w.loop.time() + 30.0, max_steps=2_000_000))
        except Hang:
            return ('hang', None)
        except StepBudgetExceeded:
            return ('hang', None)
        except Exception as e:  # the client API raised
            return ('error', f'{type(e).__name__}: {e}')


def txn_coro(client, txn, pattern, ids, handle):
    ids_b = [tuple(i) if isinstance(i, (list, tuple)) else i for i in ids]
    uu = [S.bumble_uuid(u) for u in pattern]
    if txn == 'ss':
        return client.search_services(uu)
    if txn == 'sa':
        return client.get_attributes(handle, ids_b)
    return client.search_attributes(uu, ids_b)


def txn_expected(records, txn, pattern, ids, handle, semantics='all'):
    """normalised expected value (a sorted list)"""
    if txn == 'ss':
        return sorted(S.ref_match(records, pattern, semantics))
    if txn == 'sa':
        if handle not in records:
            return []
        return [[a, v] for a, v in S.ref_select(records[handle], ids)]
    lists = S.ref_search_attributes(records, pattern, ids, semantics)
    return sorted(([[a, v] for a, v in l] for l in lists if l), key=jkey)


def txn_normalise(txn, value):
    if txn == 'ss':
        return sorted(value)
    if txn == 'sa':
        return sorted(plain_attrs(value), key=lambda x: x[0])
    return sorted((sorted(plain_attrs(l), key=lambda x: x[0]) for l in value if l), key=jkey)


def judge_txn(records, txn, pattern, ids, handle, status, value):
    """None if the client's answer is exact, else (kind, message)"""
    exp = txn_expected(records, txn, pattern, ids, handle)
    if status == 'hang':
        return ('no_answer', 'the transaction never completed')
    if status == 'error':
        if txn == 'sa' and handle not in records:
            return None  # an error for a record handle that does not exist is an exact answer
        return ('client_raised', f'the client raised {value}')
    got = txn_normalise(txn, value)
    if jkey(got) == jkey(json_plain(exp)):
        return None
    if txn in ('ss', 'ssa') and jkey(got) == jkey(json_plain(txn_expected(records, txn, pattern, ids, handle, 'any'))):
        return ('pattern_matched_on_any_uuid',
                f'pattern of {len(pattern)} UUIDs returned records that contain only some of them: got {summ(got)}, expected {summ(exp)}')
    if txn == 'ss':
        e, g = set(exp), set(got)
        kind = 'wrong_handles'
        return (kind, f'handles missing {sorted(e - g)[:4]} extra {sorted(g - e)[:4]} duplicates {len(got) - len(g)} (got {len(got)}, expected {len(exp)})')
    return ('wrong_attributes', f'got {summ(got)}, expected {summ(exp)}')


def json_plain(x):
    import json

    return json.loads(core.canon_json(x))


def summ(x):
    s = jkey(x)
    return s if len(s) <= 160 else s[:150] + f'...({len(s)} chars)'


# ===========================================================================
# sdp_single / sdp_boundary
# ===========================================================================
MTUS_Q = [48, 49, 50, 51, 64, 672]
MTUS_T = [48, 49, 50, 51, 52, 53, 64, 100, 672, 1024, 65535]
SETS_Q = ['', 'A', 'AB', 'ABC', 'ABCD', 'ABCDE']
ATTR_Q = [0, 1, 2]  # indexes into S.ATTR_LISTS used for search-attribute in the quick tier


def all_subsets():
    out = []
    for r in range(0, 6):
        for c in itertools.combinations('ABCDE', r):
            out.append(''.join(c))
    return out


def single_groups(quick):
    sets = SETS_Q if quick else all_subsets()
    mtus = MTUS_Q if quick else MTUS_T
    shapes = [(n,) for n in S.SHAPES] + [tuple(S.SHAPES)]
    return [('set', names, mtu) for names in sets for mtu in mtus] + [('shape', names, mtu) for names in shapes for mtu in mtus]


def boundary_groups(quick):
    out = []
    mtus = MTUS_Q if quick else MTUS_T
    for mtu in mtus:
        cap = mtu - 9
        targets = [cap - 1, cap, cap + 1, 2 * cap - 1, 2 * cap, 2 * cap + 1, 3 * cap + 1]
        if mtu <= 64:
            targets += [64 * cap - 1, 64 * cap]  # 64 responses = the client's continuation limit
        for txn in ('sa', 'ssa'):
            for t in targets:
                out.append(('pad', txn, t, mtu))
        per = (mtu - 11) // 4
        counts = [per - 1, per, per + 1, 2 * per - 1, 2 * per, 2 * per + 1, 3 * per + 1]
        if mtu <= 64:
            counts += [64 * per - 1, 64 * per]
        if mtu == 65535 :
            counts = [per - 1, per, per + 1, 2 * per + 1]
        for c in counts:
            out.append(('tiny', c, mtu))
    return out


def group_cases(group, quick):
    """-> (records, [(txn, pattern, ids, handle)])"""
    kind = group[0]
    if kind == 'set':
        names = list(group[1])
        records = S.record_set(names)
        cases = []
        pats = S.patterns(names, quick)
        lists = [S.ATTR_LISTS[i] for i in ATTR_Q] if quick else S.ATTR_LISTS
        for p in pats:
            cases.append(('ss', p, None, None))
        for p in pats:
            for ids in lists:
                cases.append(('ssa', p, ids, None))
        for h in list(records) + [0x1FFFF]:
            for ids in S.ATTR_LISTS:
                cases.append(('sa', None, ids, h))
        return records, cases
    if kind == 'shape':
        records = S.shape_records(group[1])
        cases = [('ss', [S.U16(0x1101)], None, None), ('ssa', [S.U16(0x1101)], [(0, 0xFFFF)], None), ('ssa', [S.U16(0x1101)], [(0x0300, 0x0400)], None)]
        for h in records:
            cases.append(('sa', None, [(0, 0xFFFF)], h))
            cases.append(('sa', None, [0x0300, 0x0301, 0x0400], h))
        return records, cases
    if kind == 'pad':
        _, txn, target, mtu = group
        attrs = S.padded_record(target, txn)
        if attrs is None:
            return None, []
        if txn == 'sa':
            return {0x20001: attrs, S.H['B']: S.RECORDS['B']}, [('sa', None, [(0, 0xFFFF)], 0x20001)]
        return {0x20001: attrs}, [('ssa', [S.U16(0x1101)], [(0, 0xFFFF)], None)]
    if kind == 'tiny':
        _, count, mtu = group
        if count < 0:
            return None, []
        records = S.tiny_records(count)
        return records, [('ss', [S.U16(0x1101)], None, None), ('ss', [S.U16(0x1101), S.ABSENT16], None, None)]
    raise ValueError(group)


def sig_single(sub, txn, kind, mtu, nresp):
    if kind == 'pattern_matched_on_any_uuid':
        # one root cause whatever the size of the answer
        return {'txn': TXN_NAMES[txn], 'kind': kind}
    return {'sub': sub, 'txn': TXN_NAMES[txn], 'kind': kind,
            'responses': 'one' if nresp <= 1 else 'continued'}


def run_group(bed: SdpBed, st: core.Stats, sub, group, quick):
    from bumble import sdp

    records, cases = group_cases(group, quick)
    if records is None:
        st.count('unreachable_sizes')
        return
    mtu = group[-1]
    bed.set_records(records)
    client = sdp.Client(bed.conns[0], mtu=mtu)
    status, v = bed.do(client.connect())
    if status != 'ok':
        st.violation('sdp_connect', {'sub': sub, 'kind': 'connect_' + status}, f'SDP client could not connect at MTU {mtu}: {v}', {'group': group, 'quick': quick, 'index': -1})
        bed.build()
        return
    nresp = [0]
    orig = client.channel.sink

    def tap(pdu):
        nresp[0] += 1
        orig(pdu)

    client.channel.sink = tap
    st.add('mtus', mtu)
    for index, (txn, pattern, ids, handle) in enumerate(cases):
        nresp[0] = 0
        status, value = bed.do(txn_coro(client, txn, pattern or [], ids or [], handle))
        exp = txn_expected(records, txn, pattern or [], ids or [], handle)
        nontrivial = bool(exp) or nresp[0] > 1
        key = (group, txn, pattern, ids, handle)
        st.case(key, None, nontrivial)
        st.count('responses', nresp[0])
        if nresp[0] > 1:
            st.count('transactions_with_continuation')
        st.add('response_counts', min(nresp[0], 70))
        st.add('txn_types', txn)
        if pattern:
            st.add('pattern_sizes', len(pattern))
        v = judge_txn(records, txn, pattern or [], ids or [], handle, status, value)
        if v is not None:
            kind, msg = v
            where = f'{TXN_NAMES[txn]} at client MTU {mtu}, {len(records)} records, {nresp[0]} responses'
            st.violation('sdp_' + kind, sig_single(sub, txn, kind, mtu, nresp[0]), f'{where}: {msg}',
                         {'group': group, 'quick': quick, 'index': index})
        if status != 'ok' and not (status == 'error' and txn == 'sa' and handle not in records):
            # the client / channel state is unknown after a hang or an exception: start over
            bed.build()
            bed.set_records(records)
            client = sdp.Client(bed.conns[0], mtu=mtu)
            bed.do(client.connect())
            orig = client.channel.sink
            client.channel.sink = tap
    if len(st.samples) < 3 and cases:
        txn, pattern, ids, handle = cases[len(cases) // 2]
        st.samples.append({'group': group, 'cases': len(cases), 'example': {'txn': txn, 'pattern': pattern, 'ids': ids, 'handle': handle}})
    bed.do(client.disconnect())
    bed.w.settle()
    bed.w.loop.collect_exceptions()


def w_sdp(arg):
    sub, groups, quick = arg
    st = core.Stats(sub)
    bed = SdpBed(2)
    try:
        for g in groups:
            run_group(bed, st, sub, g, quick)
    finally:
        bed.close()
    return st


# ===========================================================================
# sdp_multi_seq - two clients on different peers, operation sequences
# ===========================================================================
MULTI_RECORDS = 'ABCD'
MULTI_QUERIES = [
    ('ss', [S.U16(0x1101)], None, None),
    ('sa', None, [(0, 0xFFFF)], S.H['A']),
    ('ssa', [S.U16(0x0100)], [(0, 0xFFFF)], None),
]


def multi_sequences(maxlen):
    """legal sequences over connect / query / disconnect of clients 0 and 2 that
    contain at least one query"""
    out = []

    def rec(seq, connected):
        if seq and any(o[0] == 'q' for o in seq):
            out.append(tuple(seq))
        if len(seq) == maxlen:
            return
        for c in (0, 2):
            if c in connected:
                rec(seq + [('q', c)], connected)
                rec(seq + [('d', c)], connected - {c})
            else:
                rec(seq + [('c', c)], connected | {c})

    rec([], frozenset())
    # a sequence must end with a query to be interesting (trailing connects/disconnects change nothing)
    return [s for s in out if s[-1][0] == 'q']


def run_multi_seq(seq):
    """-> list of (signature, message)"""
    from bumble import sdp

    records = S.record_set(list(MULTI_RECORDS))
    bed = SdpBed(3)
    out = []
    try:
        bed.set_records(records)
        clients = {}
        connect_time = {}
        ever_after = {}
        nq = 0
        for t, (op, c) in enumerate(seq):
            if op == 'c':
                clients[c] = sdp.Client(bed.conns[c], mtu=48)
                status, v = bed.do(clients[c].connect())
                connect_time[c] = t
                if status != 'ok':
                    out.append(({'sub': 'sdp_multi_seq', 'kind': 'connect_' + status}, f'client on device {c} could not connect: {v}'))
                    break
            elif op == 'd':
                status, v = bed.do(clients[c].disconnect())
                bed.w.settle()
                del clients[c]
            else:
                txn, pattern, ids, handle = MULTI_QUERIES[nq % 3]
                nq += 1
                status, value = bed.do(txn_coro(clients[c], txn, pattern or [], ids or [], handle))
                v = judge_txn(records, txn, pattern or [], ids or [], handle, status, value)
                if v is not None:
                    other = 2 - c
                    later = other in connect_time and connect_time[other] > connect_time[c]
                    sig = {
                        'sub': 'sdp_multi_seq',
                        'kind': v[0],
                        'situation': ('another_client_connected_after_this_one' if later else 'no_later_client'),
                    }
                    out.append((sig, f'client on device {c}, {TXN_NAMES[txn]} (step {t} of {fmt_seq(seq)}; the other client is '
                                     f'{"still" if other in clients else "not"} connected): {v[1]}'))
                    break  # state unknown afterwards
    finally:
        bed.close()
    return out


def fmt_seq(seq):
    return ' '.join(f'{ {"c": "connect", "q": "query", "d": "disconnect"}[o]}{c}' for o, c in seq)


def w_multi_seq(seqs):
    st = core.Stats('sdp_multi_seq')
    for seq in seqs:
        res = run_multi_seq(seq)
        both = len({c for o, c in seq if o == 'c'}) == 2
        st.case(seq, None, nontrivial=both)
        st.add('outcomes', jkey([r[0] for r in res]))
        for sig, msg in res:
            st.violation('sdp_multi_client', sig, msg, {'seq': [list(x) for x in seq]})
    if seqs and len(st.samples) < 2:
        st.samples.append({'sequence': fmt_seq(seqs[len(seqs) // 2])})
    return st


# ===========================================================================
# sdp_multi - two concurrent transactions under explored schedules
# ===========================================================================
def run_multi(params, prefix, fp):
    from bumble import sdp

    q0, q2 = params['q0'], params['q2']
    records = S.record_set(list(MULTI_RECORDS))
    bed = SdpBed(3)
    try:
        w = bed.w
        bed.set_records(records)
        clients = {}
        order = params.get('order', [0, 2])
        for c in order:
            clients[c] = sdp.Client(bed.conns[c], mtu=48)
            if not (c == 2 and q2 == 'connect'):
                bed.do(clients[c].connect())
        w.settle()
        sched = explore.Sched(prefix, hold=True, expect_fp=fp)
        w.loop.scheduler = sched
        tasks = {}
        events = {}
        for c, qi in ((0, q0), (2, q2)):
            if qi in ('connect', 'disconnect'):
                # the other client arrives / leaves while this client's transaction (with continuations) is under way
                events[c] = w.loop.create_task(clients[c].connect() if qi == 'connect' else clients[c].disconnect())
                continue
            txn, pattern, ids, handle = MULTI_QUERIES[qi]
            tasks[c] = w.loop.create_task(txn_coro(clients[c], txn, pattern or [], ids or [], handle))
        sched.active = True
        try:
            w.loop.run_until(lambda: all(t.done() for t in list(tasks.values()) + list(events.values())), horizon=w.loop.time() + 30.0, max_steps=200000)
            w.loop.run_quiescent(max_steps=200000)
        except StepBudgetExceeded:
            pass
        sched.active = False
        w.loop.scheduler = None
        viol, obs = [], []
        for t in events.values():
            if t.done() and not t.cancelled():
                t.exception()
            else:
                t.cancel()
        for c, qi in ((0, q0), (2, q2)):
            if c in events:
                continue
            txn, pattern, ids, handle = MULTI_QUERIES[qi]
            t = tasks[c]
            if not t.done():
                status, value = 'hang', None
                t.cancel()
            elif t.cancelled():
                status, value = 'hang', None
            elif t.exception() is not None:
                status, value = 'error', f'{type(t.exception()).__name__}: {t.exception()}'
            else:
                status, value = 'ok', t.result()
            v = judge_txn(records, txn, pattern or [], ids or [], handle, status, value)
            obs.append([c, 'exact' if v is None else v[0]])
            if v is not None:
                # a hang is its own class; every way of handing back a damaged answer (wrong handles, wrong
                # attributes, bytes that do not parse) is one class
                kind = v[0] if v[0] == 'no_answer' else 'corrupted_answer'
                sig = {'sub': 'sdp_multi', 'kind': kind,
                       'client': 'first_connected' if c == order[0] else 'last_connected'}
                if events:
                    sig['meanwhile'] = 'other_client_' + str(q2) + 's'
                viol.append(('sdp_multi_client', sig,
                             f'two clients (devices 0 and 2, connected in order {order}) each run one transaction concurrently; '
                             f'client on device {c} {TXN_NAMES[txn]}: {v[1]}'))
        w.loop.run_quiescent(max_steps=200000)
        w.loop.collect_exceptions()
        return {'points': sched.points, 'fp': sched.fp, 'obs': obs, 'viol': viol}
    finally:
        bed.close()


# ===========================================================================
# assemblers
# ===========================================================================
ASM_MTU = 8


def asm_message_sets(quick):
    m = ASM_MTU
    lengths = [0, 1, m - 3, m - 2, m - 1, m, m + 1, 2 * m, 3 * m + 1]
    if quick:
        pick = [0, m - 2, m - 1, m + 1, 2 * m, 3 * m + 1]
        sets = [(a, b) for a in pick for b in pick]
        sets += [(m + 1, 1, 2 * m), (2 * m, m - 1, 3 * m + 1), (3 * m + 1, 2 * m, m)]
    else:
        sets = [(a, b) for a in lengths for b in lengths]
        tri = [1, m - 1, 2 * m, 3 * m + 1]
        sets += [(a, b, c) for a in tri for b in tri for c in tri]
    return sets


def w_asm(arg):
    proto, sets, depth = arg
    st = core.Stats('asm_' + proto)
    mk = {'avdtp': F.avdtp_messages, 'avctp': F.avctp_messages, 'avctp_pid': F.avctp_pid_messages}[proto]
    impl_states, impl_edges = set(), set()
    for lengths in sets:
        msgs = mk(lengths, ASM_MTU)
        r = F.bfs(proto, msgs, depth)
        st.evaluations += r['transitions']
        # one distinct case per search state (real-assembler state x oracle state) of this message set
        for i in range(r['search_states']):
            st.distinct.add(core.digest([proto, lengths, i]))
        st.count('search_states', r['search_states'])
        st.count('message_sets')
        for k, n in r['counters'].items():
            st.count(k, n)
        st.count('violation_instances', r['violation_instances'])
        st.add('depths_reached', r['max_depth'])
        st.counters['unexpanded_at_depth_bound'] = st.counters.get('unexpanded_at_depth_bound', 0) + r['unexpanded_frontier']
        for e in r['exceptions']:
            st.add('exceptions_raised_by_on_pdu', e)
        impl_states |= {(lengths, s) for s in r['impl_states']}
        impl_edges |= {(lengths, e) for e in r['impl_edges']}
        if r['capped']:
            st.cap(f'{proto} assembler: state cap reached for message set {lengths}')
        for kind, sig, msg, hist in r['violations']:
            toks = [r['alphabet'][i] for i in hist]
            st.violation('asm_' + kind, sig, msg + f'; packets: {toks} (message payload lengths {list(lengths)}, fragmenter MTU {ASM_MTU})',
                         {'proto': proto, 'lengths': list(lengths), 'tokens': toks})
        if len(st.samples) < 2:
            st.samples.append({'proto': proto, 'payload_lengths': list(lengths), 'packets_per_message': [len(m['frags']) for m in msgs],
                               'alphabet': r['alphabet'], 'depth': depth, 'search_states': r['search_states'], 'transitions': r['transitions']})
    st.sets['impl_states'] = {core.digest(x) for x in impl_states}
    st.sets['impl_edges'] = {core.digest(x) for x in impl_edges}
    return st


# ===========================================================================
# AVDTP sender
# ===========================================================================
class FakeChannel:
    EVENT_OPEN = 'open'
    EVENT_CLOSE = 'close'

    def __init__(self, peer_mtu):
        self.peer_mtu = peer_mtu
        self.written = []
        self.sink = None

    def on(self, *a, **k):
        pass

    def write(self, pdu):
        self.written.append(bytes(pdu))

    send_pdu = write


SEND_MTUS = [48, 49, 50, 51, 52, 53, 54, 55, 56, 672]


def send_one(mtu, n, label, form):
    """-> None or (kind, message)"""
    from bumble import avdtp

    ch = FakeChannel(mtu)
    proto = avdtp.Protocol(ch)
    payload = F.payload_bytes(n, mtu + label)
    if form == 'generic':
        msg = avdtp.Message()
        msg.message_type = avdtp.Message.MessageType.RESPONSE_ACCEPT
        msg.signal_identifier = avdtp.SignalIdentifier(0x15)
        msg.payload = payload
        mtype, signal = 2, 0x15
    else:
        if n < 1:
            return None
        msg = avdtp.Security_Control_Command(acp_seid=payload[0] >> 2, data=payload[1:])
        payload = bytes([payload[0] & 0xFC]) + payload[1:]
        mtype, signal = 0, int(avdtp.SignalIdentifier.SECURITY_CONTROL)
    try:
        proto.send_message(label, msg)
    except Exception as e:
        return ('send_raised', f'send_message raised {type(e).__name__}: {e}')
    pdus = ch.written
    if not pdus:
        return ('nothing_sent', 'send_message wrote nothing')
    big = [len(p) for p in pdus if len(p) > mtu]
    if big:
        return ('fragment_exceeds_mtu', f'{len(big)} of {len(pdus)} packets exceed the peer MTU {mtu} (sizes {big[:3]})')
    types = [(p[0] >> 2) & 3 for p in pdus]
    if len(pdus) == 1:
        if types != [F.SINGLE]:
            return ('bad_packet_types', f'one packet but type {types}')
    else:
        if types != [F.START] + [F.CONTINUE] * (len(pdus) - 2) + [F.END]:
            return ('bad_packet_types', f'packet types {types}')
        if pdus[0][2] != len(pdus):
            return ('bad_packet_count', f'start packet announces {pdus[0][2]} packets, {len(pdus)} were sent')
    want = (label, mtype, signal, payload)
    ref = F.RefAvdtp()
    got = []
    for i, p in enumerate(pdus):
        for d in ref.feed(p):
            got.append((i, d))
    if got != [(len(pdus) - 1, want)]:
        return ('reference_reassembly_differs', f'the reference assembler delivers {[(i, len(d[3])) for i, d in got]} from {len(pdus)} packets, expected the {n}-byte payload after the last one')
    real = F.RealAvdtp()
    got = []
    for i, p in enumerate(pdus):
        o, exc = real.feed(p)
        if exc:
            return ('real_assembler_raised', f'the real assembler raised {exc} on packet {i}')
        for d in o:
            got.append((i, d))
    if got != [(len(pdus) - 1, want)]:
        return ('end_to_end_differs', f'sender -> real assembler delivers {[(i, len(d[3])) for i, d in got]}, expected the {n}-byte payload once')
    return None


def send_lengths(mtu, quick):
    top = 3 * mtu + 10
    if mtu <= 64:
        ls = list(range(0, top + 1))
    else:
        ls = list(range(0, 12))
        for k in (1, 2, 3):
            ls += list(range(k * (mtu - 3) - 8, k * (mtu - 3) + 12))
    ls += [10 * (mtu - 3) - 1, 10 * (mtu - 3), 10 * (mtu - 3) + 1]
    if mtu <= 56:
        ls += [254 * (mtu - 3) + 1, 255 * (mtu - 3) - 1, 255 * (mtu - 3)]  # 255 packets = the largest count the header can carry
    return sorted(set(ls))


def w_send(arg):
    mtus, quick = arg
    st = core.Stats('avdtp_send')
    for mtu in mtus:
        for n in send_lengths(mtu, quick):
            for label in (0, 5, 15):
                for form in ('generic', 'security_control'):
                    v = send_one(mtu, n, label, form)
                    st.case((mtu, n, label, form), None, nontrivial=n + 2 > mtu)
                    st.add('packet_counts', 1 if n + 2 <= mtu else min(256, -(-n // (mtu - 3))))
                    if v:
                        rel = n + 2 - mtu
                        st.violation('avdtp_send_' + v[0], {'sub': 'avdtp_send', 'kind': v[0], 'size': 'fits_single' if rel <= 0 else ('two_packets' if n <= 2 * (mtu - 3) else 'many_packets')},
                                     f'AVDTP send_message, peer MTU {mtu}, payload {n} bytes, label {label}, {form}: {v[1]}',
                                     {'mtu': mtu, 'n': n, 'label': label, 'form': form})
    st.samples.append({'peer_mtus': mtus, 'payload_lengths': f'0..3*mtu+10 and 10/254/255 packet boundaries', 'labels': [0, 5, 15]})
    return st


# ===========================================================================
# AVDTP stream state machine
# ===========================================================================
API_OPS = ['configure', 'open', 'start', 'stop', 'close', 'abort']
RAW_OPS = ['set_configuration', 'open', 'start', 'suspend', 'close', 'abort', 'start_bad', 'suspend_bad']  # *_bad: the command names this stream AND an end point that does not exist: refused as a whole

API_TABLE = {
    ('IDLE', 'configure'): 'CONFIGURED',
    ('CONFIGURED', 'open'): 'OPEN',
    ('CONFIGURED', 'start'): 'STREAMING',  # Stream.start() documents "auto-open if needed": open + start, both legal
    ('OPEN', 'start'): 'STREAMING',
    ('STREAMING', 'stop'): 'OPEN',
    ('OPEN', 'close'): 'IDLE',
    ('STREAMING', 'close'): 'IDLE',
}
# acceptor side, AVDTP 1.3 section 9 / figure 6.3 (state machine of a stream end point)
RAW_TABLE = {
    ('IDLE', 'set_configuration'): 'CONFIGURED',
    ('CONFIGURED', 'open'): 'OPEN',
    ('OPEN', 'start'): 'STREAMING',
    ('STREAMING', 'suspend'): 'OPEN',
    ('OPEN', 'close'): 'IDLE',
    ('STREAMING', 'close'): 'IDLE',
}


def stream_sequences(ops, maxlen, abort_terminal):
    out = []
    for n in range(1, maxlen + 1):
        for seq in itertools.product(ops, repeat=n):
            if abort_terminal and 'abort' in seq[:-1]:
                continue
            out.append(seq)
    return out


def source_caps():
    from bumble import a2dp, avdtp

    I = a2dp.SbcMediaCodecInformation
    return avdtp.MediaCodecCapabilities(
        media_type=avdtp.MediaType.AUDIO,
        media_codec_type=a2dp.CodecType.SBC,
        media_codec_information=I(
            sampling_frequency=I.SamplingFrequency.SF_44100, channel_mode=I.ChannelMode.JOINT_STEREO,
            block_length=I.BlockLength.BL_16, subbands=I.Subbands.S_8, allocation_method=I.AllocationMethod.LOUDNESS,
            minimum_bitpool_value=2, maximum_bitpool_value=53),
    )


def sink_caps():
    from bumble import a2dp, avdtp

    I = a2dp.SbcMediaCodecInformation
    return avdtp.MediaCodecCapabilities(
        media_type=avdtp.MediaType.AUDIO,
        media_codec_type=a2dp.CodecType.SBC,
        media_codec_information=I(
            sampling_frequency=I.SamplingFrequency.SF_48000 | I.SamplingFrequency.SF_44100,
            channel_mode=I.ChannelMode.MONO | I.ChannelMode.STEREO | I.ChannelMode.JOINT_STEREO,
            block_length=I.BlockLength.BL_8 | I.BlockLength.BL_16, subbands=I.Subbands.S_4 | I.Subbands.S_8,
            allocation_method=I.AllocationMethod.LOUDNESS | I.AllocationMethod.SNR,
            minimum_bitpool_value=2, maximum_bitpool_value=53),
    )


class StreamBed:
    def __init__(self):
        from bumble import avdtp

        self.w = World(2, classic=True, le=False)
        self.w.__enter__()
        w = self.w
        w.power_on()
        self.conn, _ = w.connect_classic(0, 1)
        self.acc = {}
        listener = avdtp.Listener.for_device(w.devices[1])

        self.veto = set()  # acceptor-side application refusals armed by the script ('veto+<op>')
        self.vetoed = []

        def on_connection(server):
            self.acc['server'] = server
            sink = self.acc['sink'] = server.add_sink(sink_caps())
            rejects = {
                'set_configuration': lambda: avdtp.Set_Configuration_Reject(avdtp.ServiceCategory.MEDIA_CODEC, avdtp.AVDTP_SEP_IN_USE_ERROR),
                'open': lambda: avdtp.Open_Reject(avdtp.AVDTP_SEP_IN_USE_ERROR),
                'start': lambda: avdtp.Start_Reject(sink.seid, avdtp.AVDTP_SEP_IN_USE_ERROR),
                'suspend': lambda: avdtp.Suspend_Reject(sink.seid, avdtp.AVDTP_SEP_IN_USE_ERROR),
                'close': lambda: avdtp.Close_Reject(avdtp.AVDTP_SEP_IN_USE_ERROR),
            }
            for name, mk in rejects.items():
                orig = getattr(sink, f'on_{name}_command')

                async def hook(*a, _n=name, _o=orig, _mk=mk, **k):
                    if _n in self.veto:
                        self.veto.discard(_n)
                        self.vetoed.append(_n)
                        return _mk()
                    return await _o(*a, **k)

                setattr(sink, f'on_{name}_command', hook)

        listener.on('connection', on_connection)
        self.listener = listener
        self.client = w.run(avdtp.Protocol.connect(self.conn))
        w.settle()
        endpoints = list(w.run(self.client.discover_remote_endpoints()))
        self.remote_sink = endpoints[0]
        self.source = self.client.add_source(source_caps(), None)
        # what Protocol.create_stream does, minus the implicit first configure()
        self.stream = avdtp.Stream(self.client, self.source, self.remote_sink)
        self.client.streams[self.source.seid] = self.stream
        self.raw_channel = None

    def close(self):
        try:
            self.w.__exit__()
        except Exception:
            pass

    def acceptor_state(self):
        s = self.acc['sink'].stream
        return 'IDLE' if s is None else s.state.name

    def initiator_state(self):
        return self.stream.state.name

    def do(self, coro):
        w = self.w
        try:
            r = ('ok', w.run(coro, horizon=w.loop.time() + 30.0))
        except Hang:
            return ('hang', None)
        except Exception as e:
            r = ('refused', f'{type(e).__name__}: {e}')
        w.settle()
        return r

    # -- faults around an API operation ---------------------------------------
    def refuse_next_transport_channel(self):
        """The acceptor's device refuses the next L2CAP connection to the AVDTP PSM (the transport channel that follows an
        accepted Open): restored right after the operation."""
        from bumble import avdtp

        mgr = self.w.devices[1].l2cap_channel_manager
        server = mgr.servers.pop(avdtp.AVDTP_PSM, None)

        def restore():
            if server is not None:
                mgr.servers[avdtp.AVDTP_PSM] = server

        return restore

    def drop_transport_channel(self):
        """The initiator's transport (media) L2CAP channel is closed by itself, before any AVDTP Close / Abort: legal, only
        unusual."""
        ch = self.stream.rtp_channel
        if ch is None:
            return False
        self.do(ch.disconnect())
        return True

    # -- API mode -----------------------------------------------------------
    def api_op(self, op):
        s = self.stream
        if op == 'abort':
            r = self.do(s.remote_endpoint.abort())
            # the initiating Stream has no abort(): release the transport channel the way an
            # initiator has to after an accepted abort (AVDTP 9.12)
            if s.rtp_channel is not None:
                self.do(s.rtp_channel.disconnect())
            return r
        return self.do(getattr(s, op)())

    # -- raw mode -----------------------------------------------------------
    def raw_op(self, op):
        from bumble import avdtp, l2cap

        c, seid = self.client, self.remote_sink.seid
        if op == 'set_configuration':
            return self.do(c.set_configuration(seid, self.source.seid, self.source.configuration))
        if op == 'open':
            r = self.do(c.open(seid))
            if r[0] == 'ok':
                ch = self.do(self.conn.create_l2cap_channel(l2cap.ClassicChannelSpec(psm=avdtp.AVDTP_PSM)))
                if ch[0] != 'ok':
                    return ('hang', 'transport channel')
                self.raw_channel = ch[1]
            return r
        if op == 'start_bad':
            return self.do(c.start([seid, 0x3E]))
        if op == 'suspend_bad':
            return self.do(c.suspend([seid, 0x3E]))
        if op == 'start':
            return self.do(c.start([seid]))
        if op == 'suspend':
            return self.do(c.suspend([seid]))
        if op in ('close', 'abort'):
            r = self.do(getattr(c, op)(seid))
            if r[0] == 'ok' and self.raw_channel is not None:
                self.do(self.raw_channel.disconnect())
                self.raw_channel = None
            return r
        raise ValueError(op)


VETO_CMD = {'configure': 'set_configuration', 'open': 'open', 'start': 'start', 'stop': 'suspend', 'close': 'close'}


def run_stream(mode, seq):
    """-> (trace, [(signature, message)])"""
    bed = StreamBed()
    table = API_TABLE if mode in ('api', 'veto') else RAW_TABLE
    sub = 'stream_' + mode
    if mode == 'veto':
        mode = 'api'
    out = []
    trace = []
    try:
        model = 'IDLE'
        degraded = False  # a stream opened without its transport channel: what the acceptor then allows is its business
        for i, op in enumerate(seq):
            fault = op.split('+')[0] if op.startswith(('nomedia+', 'rtpdrop+')) else None
            if fault:
                full, op = op, op.split('+', 1)[1]
                before = (bed.initiator_state(), bed.acceptor_state())
                restore = None
                if fault == 'nomedia':
                    restore = bed.refuse_next_transport_channel()
                else:
                    bed.drop_transport_channel()
                status, info = bed.api_op(op)
                if restore:
                    restore()
                ini, acc = bed.initiator_state(), bed.acceptor_state()
                trace.append([full, status, ini, acc])
                where = f'{mode} sequence {list(seq)} step {i} ({full} in {model})'
                if status == 'hang':
                    out.append(({'sub': sub, 'kind': 'procedure_never_completed', 'op': full, 'from': model}, f'{where}: never completed'))
                    break
                legal = (model, op) in table or op == 'abort'
                if fault == 'rtpdrop':
                    # the transport channel going first changes nothing about what Close / Abort / Start / Stop mean
                    nxt = 'IDLE' if op == 'abort' else table.get((model, op), model)
                    if legal and op in ('close', 'abort'):
                        if status != 'ok' or (ini, acc) != (nxt, nxt) and not (op == 'abort' and acc == nxt):
                            out.append(({'sub': sub, 'kind': 'close_after_transport_channel_went_first', 'op': op, 'from': model, 'initiator': ini, 'acceptor': acc},
                                        f'{where}: the transport channel was closed first, then {op}: {status} {info or ""}; initiator {ini} acceptor {acc}, expected both {nxt}'))
                            break
                        model = nxt
                        continue
                    # any other operation after the channel loss: both ends must still agree
                    degraded = True
                    if status == 'ok' and legal:
                        model = nxt
                    if op != 'abort' and ini != acc:
                        out.append(({'sub': sub, 'kind': 'states_disagree', 'op': full, 'initiator': ini, 'acceptor': acc}, f'{where}: initiator {ini} vs acceptor {acc}'))
                        break
                    model = acc
                    continue
                # nomedia: the operation may fail (an error is an error) but the two ends must stay in one state, from which
                # the script goes on
                degraded = True
                if ini != acc:
                    out.append(({'sub': sub, 'kind': 'states_disagree_after_transport_channel_refused', 'op': op, 'from': model, 'initiator': ini, 'acceptor': acc},
                                f'{where}: the L2CAP transport channel was refused ({status} {info or ""}); initiator {ini} vs acceptor {acc}'))
                    break
                model = acc
                continue
            veto = op.startswith('veto+')
            if veto:
                # the acceptor's application refuses the next <op> command it is asked about (a LEGAL procedure refused by
                # the peer): the caller must be told, and both ends must still be in one and the same state
                op = op[5:]
                bed.veto = {VETO_CMD[op]}
                bed.vetoed = []
            before = (bed.initiator_state(), bed.acceptor_state())
            status, info = bed.api_op(op) if mode == 'api' else bed.raw_op(op)
            bed.veto = set()
            ini, acc = bed.initiator_state(), bed.acceptor_state()
            trace.append([('veto+' if veto else '') + op, status, ini, acc])
            where = f'{mode} sequence {list(seq)} step {i} ({"vetoed " if veto else ""}{op} in {model})'
            if status == 'hang':
                out.append(({'sub': sub, 'kind': 'procedure_never_completed', 'op': op, 'from': model}, f'{where}: never completed'))
                break
            if veto and bed.vetoed:
                # API start from CONFIGURED opens first: that part went through
                mid = 'OPEN' if (model, op) == ('CONFIGURED', 'start') else model
                if status == 'ok':
                    out.append(({'sub': sub, 'kind': 'peer_refusal_not_reported', 'op': op, 'from': model}, f'{where}: the acceptor rejected the command but the call succeeded'))
                    break
                if ini != acc:
                    out.append(({'sub': sub, 'kind': 'states_disagree_after_peer_refusal', 'op': op, 'initiator': ini, 'acceptor': acc},
                                f'{where}: acceptor refused ({info}); initiator {ini} vs acceptor {acc}'))
                    break
                if acc != mid:
                    out.append(({'sub': sub, 'kind': 'refused_procedure_changed_state', 'op': op, 'from': model},
                                f'{where}: acceptor refused ({info}) but states went {before} -> {(ini, acc)}'))
                    break
                model = mid
                continue
            if degraded:
                # only agreement is judged until both ends are back to IDLE
                if op != 'abort' and ini != acc:
                    out.append(({'sub': sub, 'kind': 'states_disagree', 'op': op, 'initiator': ini, 'acceptor': acc}, f'{where}: initiator {ini} vs acceptor {acc}'))
                    break
                model = acc
                degraded = not (ini == acc == 'IDLE') and not (op == 'abort' and acc == 'IDLE')
                if op == 'abort':
                    break  # (the initiating Stream has no abort(): nothing further to compare)
                continue
            if op == 'abort':
                legal, nxt = True, 'IDLE'
            else:
                legal, nxt = ((model, op) in table), table.get((model, op), model)
            if legal and status != 'ok':
                out.append(({'sub': sub, 'kind': 'legal_procedure_refused', 'op': op, 'from': model}, f'{where}: refused with {info}'))
                break
            if not legal and status == 'ok':
                out.append(({'sub': sub, 'kind': 'illegal_procedure_accepted', 'op': op, 'from': model},
                            f'{where}: accepted; states now initiator {ini} acceptor {acc}'))
                break
            if not legal:
                now = (ini, acc) if mode == 'api' else (None, acc)
                was = before if mode == 'api' else (None, before[1])
                if now != was:
                    out.append(({'sub': sub, 'kind': 'refused_procedure_changed_state', 'op': op, 'from': model},
                                f'{where}: refused ({info}) but states went {before} -> {(ini, acc)}'))
                    break
                continue
            model = nxt
            if acc != model:
                out.append(({'sub': sub, 'kind': 'acceptor_state_wrong', 'op': op, 'to': model, 'acceptor': acc},
                            f'{where}: acceptor is {acc}, expected {model} (initiator {ini})'))
                break
            if mode == 'api' and op != 'abort' and ini != acc:
                out.append(({'sub': sub, 'kind': 'states_disagree', 'op': op, 'initiator': ini, 'acceptor': acc},
                            f'{where}: initiator {ini} vs acceptor {acc}'))
                break
        bed.w.loop.collect_exceptions()
    finally:
        bed.close()
    return trace, out


def w_stream(arg):
    mode, seqs = arg
    st = core.Stats('stream_' + mode)
    for seq in seqs:
        trace, res = run_stream(mode, seq)
        st.case((mode, seq), None, nontrivial=any(t[1] == 'ok' for t in trace))
        for t in trace:
            st.add('transitions_seen', (t[0], t[1], t[2], t[3]))
            st.add('acceptor_states', t[3])
        for sig, msg in res:
            st.violation('stream_state', sig, msg, {'mode': mode, 'seq': list(seq)})
    if seqs and len(st.samples) < 2:
        st.samples.append({'mode': mode, 'sequence': list(seqs[len(seqs) // 2])})
    return st


# ===========================================================================
def run(ctx: core.Context) -> int:
    quick = ctx.quick
    only = getattr(ctx, 'only', None)
    want = lambda name: not only or name in only
    jobs = ctx.jobs
    extra = {}

    if want('asm'):
        depth = 7 if quick else 9
        states = trans = 0
        protos = ['avdtp', 'avctp']
        # The fragment-SEQUENCE logic of the AVCTP assembler (a broken sequence costs only its own message) is also
        # searched in the fragment layout the assembler reassembles at all, when that is not the specification's layout
        # (known finding asm_intact_lost/avctp: today it expects the profile identifier in every packet): otherwise no
        # fragmented message is ever delivered and that logic would be invisible.  When the assembler accepts the
        # specification's layout this extra search is skipped, so repairing the finding cannot raise an alarm here.
        layout = F.avctp_layout_accepted()
        ctx.log('avctp fragment layout reassembled by the assembler:', layout)
        if layout == 'pid_everywhere':
            protos.append('avctp_pid')
        for proto in protos:
            sets = asm_message_sets(quick)
            items = [(proto, part, depth) for part in core.split(sets, jobs * 2)]
            st = ctx.sub('asm_' + proto)
            for r in core.pmap(w_asm, items, jobs):
                st.merge(r)
            states += len(st.sets.get('impl_states', ()))
            trans += len(st.sets.get('impl_edges', ()))
            ctx.log(f'asm_{proto}:', st.summary())
        extra.update({
            'states': states,
            'transitions': trans,
            'traces_validated_against_impl': ctx.sub('asm_avdtp').evaluations + ctx.sub('asm_avctp').evaluations,
            'state_definition': 'every data attribute of the real MessageAssembler (vars()) per message set; a search state adds the '
                                'intact-run progress and the four reference-policy assembler states',
            'assembler_depth': depth,
        })

    if want('send'):
        st = ctx.sub('avdtp_send')
        for r in core.pmap(w_send, [([m], quick) for m in SEND_MTUS], jobs):
            st.merge(r)
        ctx.log('avdtp_send:', st.summary())

    if want('stream'):
        n = 4 if quick else 5
        for mode, ops, term in (('api', API_OPS, True), ('raw', RAW_OPS, False)):
            seqs = stream_sequences(ops, n, term)
            st = ctx.sub('stream_' + mode)
            for r in core.pmap(w_stream, [(mode, p) for p in core.split(seqs, jobs * 4)], jobs):
                st.merge(r)
            ctx.log(f'stream_{mode}:', st.summary())
        # application-level refusals by the acceptor: every API sequence with exactly one step vetoed
        seqs = []
        for seq in stream_sequences([o for o in API_OPS if o != 'abort'], n, False):
            for i in range(len(seq)):
                seqs.append(seq[:i] + ('veto+' + seq[i],) + seq[i + 1:])
        # transport-channel faults: the L2CAP channel that follows Open refused; the channel closed before Close / Abort
        for seq in stream_sequences(API_OPS, min(n, 4), True):
            for i in range(len(seq)):
                if seq[i] in ('open', 'start'):
                    seqs.append(seq[:i] + ('nomedia+' + seq[i],) + seq[i + 1:])
                if seq[i] in ('close', 'abort', 'stop', 'start') and any(o in ('open', 'start') for o in seq[:i]):
                    seqs.append(seq[:i] + ('rtpdrop+' + seq[i],) + seq[i + 1:])
        st = ctx.sub('stream_veto')
        for r in core.pmap(w_stream, [('veto', p) for p in core.split(seqs, jobs * 4)], jobs):
            st.merge(r)
        ctx.log('stream_veto:', st.summary())

    if want('sdp'):
        groups = single_groups(quick)
        # heavier groups first
        groups.sort(key=lambda g: -len(g[1]))
        st = ctx.sub('sdp_single')
        for r in core.pmap(w_sdp, [('sdp_single', p, quick) for p in core.split(groups, jobs * 4)], jobs):
            st.merge(r)
        ctx.log('sdp_single:', st.summary())
        groups = boundary_groups(quick)
        groups.sort(key=lambda g: -(g[2] if g[0] == 'pad' else g[1] * 4))
        st = ctx.sub('sdp_boundary')
        for r in core.pmap(w_sdp, [('sdp_boundary', p, quick) for p in core.split(groups, jobs * 4)], jobs):
            st.merge(r)
        ctx.log('sdp_boundary:', st.summary())

    if want('multi'):
        seqs = multi_sequences(5 if quick else 7)
        st = ctx.sub('sdp_multi_seq')
        for r in core.pmap(w_multi_seq, core.split(seqs, jobs * 4), jobs):
            st.merge(r)
        ctx.log('sdp_multi_seq:', st.summary())
        st = ctx.sub('sdp_multi')
        pairs = [(0, 0), (1, 1), (2, 2), (1, 2)] if quick else [(a, b) for a in range(3) for b in range(3)]
        bound = 1 if quick else 2
        budget = 1500 if quick else 12000
        for q0, q2 in pairs:
            for order in ([0, 2], [2, 0]):
                explore.explore(run_multi, {'q0': q0, 'q2': q2, 'order': order}, bound, jobs, st, max_runs=budget,
                                label=f'q{q0}{q2}o{order[0]}:')
        # the other client connects / disconnects while this client's transaction (which needs continuations) runs
        for q0 in (0, 1, 2) if quick else range(len(MULTI_QUERIES)):
            for ev in ('connect', 'disconnect'):
                explore.explore(run_multi, {'q0': q0, 'q2': ev, 'order': [0, 2]}, bound, jobs, st, max_runs=budget, label=f'q{q0}{ev[0]}:')
        ctx.log('sdp_multi:', st.summary())

    return core.finish(
        ctx,
        LEVEL,
        rule=(
            'SDP: every (record set, client MTU, search pattern, attribute-id list, transaction type) of the enumerated families is run '
            'through the real client and server over the virtual link and compared with a reference matcher; a case is non-trivial when '
            'the expected answer is non-empty or needed a continuation. Assemblers: breadth-first search over packet-token sequences '
            '(evaluations = transitions executed on the real assembler, distinct = search states). Sender: every payload length per peer MTU. '
            'Stream: every operation sequence up to the length bound, non-trivial when at least one procedure was accepted.'
        ),
        assumptions=[
            'SDP attribute-id lists are ascending and non-overlapping as the specification requires of a client',
            'continuations beyond the client limit (SDP_CONTINUATION_WATCHDOG = 64 responses) are not demanded',
            'an exception raised by an assembler for a malformed PDU is counted (exceptions_raised_by_on_pdu) but judged by C17, not here; '
            'only its effect on later intact messages is judged',
            'AVDTP start packets use bumble\'s own octet order (signal identifier, then packet count); the AVDTP specification has them the '
            'other way round - an interoperability observation outside the bumble<->bumble statement',
            'after an accepted Abort only the acceptor state is asserted: the initiating Stream class has no abort()',
            'AVDTP messages needing more than 255 packets cannot be announced in the one-octet packet count and are not demanded',
        ],
        extra=extra,
    )


# ===========================================================================
def replay(v: core.Violation):
    c = v.case
    msgs = []
    if v.check.startswith('asm_'):
        proto, lengths = c['proto'], tuple(c['lengths'])
        mk = {'avdtp': F.avdtp_messages, 'avctp': F.avctp_messages, 'avctp_pid': F.avctp_pid_messages}[proto]
        ms = mk(lengths, ASM_MTU)
        r = F.bfs(proto, ms, len(c['tokens']))
        want = jkey({k: x for k, x in v.signature.items() if k != 'check'})
        for kind, sig, msg, hist in r['violations']:
            if jkey(sig) == want:
                msgs.append(msg)
    elif v.check.startswith('avdtp_send_'):
        r = send_one(c['mtu'], c['n'], c['label'], c['form'])
        if r:
            msgs.append(r[1])
    elif v.check == 'stream_state':
        _, res = run_stream(c['mode'], tuple(c['seq']))
        want = jkey({k: x for k, x in v.signature.items() if k != 'check'})
        msgs += [m for sig, m in res if jkey(sig) == want]
    elif v.check == 'sdp_multi_client' and 'seq' in c:
        res = run_multi_seq(tuple(tuple(x) for x in c['seq']))
        want = jkey({k: x for k, x in v.signature.items() if k != 'check'})
        msgs += [m for sig, m in res if jkey(sig) == want]
    elif v.check == 'sdp_multi_client':
        r = run_multi(c['params'], {int(k): x for k, x in c['prefix'].items()}, None)
        want = jkey({k: x for k, x in v.signature.items() if k != 'check'})
        msgs += [m for _, sig, m in r['viol'] if jkey(sig) == want]
    elif v.check.startswith('sdp_'):
        group = c['group']
        group = tuple(group)
        st = core.Stats('replay')
        bed = SdpBed(2)
        try:
            run_group(bed, st, v.signature.get('sub', 'sdp_single'), group, c['quick'])
        finally:
            bed.close()
        for x in st.violations:
            if x.key == v.key:
                msgs.append(x.message)
    return msgs
