"""C10 — the ATT server answers each request exactly once and within ATT_MTU.

Seam: vp/harness/att_raw.py (real gatt_server.Server on a real Device with a real LE
connection; raw ATT bytes injected at the server side of the ATT fixed channel and of
a real EATT channel; everything the server transmits on that bearer captured).

Sub-checks
  requests     every request of a bounded, explicitly generated set (all 256 opcodes x
               generic parameter blocks; every defined request over boundary handles /
               ranges / handle sets / offsets / types / value lengths; every prefix of a
               well-formed request) against databases of 5 shapes x value lengths around
               the MTU-dependent size boundaries x one protected attribute at each
               position, at each ATT_MTU, on both bearers.  Oracle: classification table
               written from the spec (att_raw.REQUESTS ...), exactly one answering PDU per
               request, none otherwise, every server PDU <= ATT_MTU.
  pairs        ordered pairs of representative PDUs delivered back-to-back without
               letting the server run in between: each request still answered once.
  notify       notify_/indicate_ API x value lengths x MTU x bearers: PDU <= ATT_MTU.
  indications  every sequence (bounded depth) of {start indication of A / of B / of both,
               confirmation on bearer b, 30 s pass}: never two unconfirmed indications on
               one bearer.
  seams        the capture seam and the end-to-end seam (peer sends over the link, replies
               observed where they arrive at the peer) give byte-identical replies.
"""
from __future__ import annotations

import itertools

from .. import core
from ..harness import att_raw as A

LEVEL = 'exploration'

RW = 0x03
PROT = RW | 0x04 | 0x08  # read and write require encryption; the link of this check is unencrypted
P_R, P_WNR, P_W, P_N, P_I = 0x02, 0x04, 0x08, 0x10, 0x20
U128S = '0102030405060708090a0b0c0d0e0f10'
U128C = '1112131415161718191a1b1c1d1e1f20'
U128X = 'f1f2f3f4f5f6f7f8f9fafbfcfdfeff00'  # absent
BASE128 = bytes.fromhex('FB349B5F800000800010000000000000')  # Bluetooth base UUID, little-endian, without the 16-bit part
QUICK_MTUS = [23, 24, 48, 185, 517]


# ---------------------------------------------------------------------------
# databases
# ---------------------------------------------------------------------------
SHAPES = {'std': 6, 'many': 3, 'dyn': 0, 'raw': 3, 'svcs': 0, 'widths': 0}  # shape -> number of protectable positions
U32 = ['A0B0C0D%X' % i for i in range(8)]  # 32-bit UUIDs: 4 bytes in memory, 16 bytes on the air


def shape_spec(shape, L, prot, n):
    def pm(i):
        return PROT if prot == i else RW

    if shape == 'std':
        return [
            ['svc', 'A000', True, [
                ['A001', P_R | P_W | P_WNR | P_N | P_I, pm(0), ['b', L, 1], [['2901', pm(1), ['b', L, 2]]]],
                ['A002', P_R | P_W | P_N | P_I, pm(2), ['b', 2, 3], []],
                ['A001', P_R | P_W, pm(3), ['b', L, 4], []],
            ]],
            ['svc', U128S, True, [[U128C, P_R | P_W, pm(4), ['b', L, 5], []]]],
            ['svc', 'A100', False, [['A101', P_R | P_W, pm(5), ['b', 1, 6], []]], [0]],
        ]
    if shape == 'many':
        where = {0: 0, 1: n // 2, 2: n - 1}.get(prot)
        return [['svc', 'A000', True, [['A001', P_R | P_W, PROT if i == where else RW, ['b', L, 10 + i], []] for i in range(n)]]]
    if shape == 'dyn':
        kinds = ['r', 'w', 'rw', 'arw', 'err', 'v2']
        return [
            ['svc', 'A000', True, [['A001', P_R | P_W, RW, ['b', L, 1], []]]
             + [['A0%02X' % (0x10 + i), P_R | P_W, RW, ['dyn', k, L, 20 + i], []] for i, k in enumerate(kinds)]
             + [['A001', P_R | P_W, RW, ['dyn', 'w', L, 30], []]]],
        ]
    if shape == 'raw':
        return [
            ['svc', 'A000', True, [['A001', P_R | P_W, RW, ['b', L, 1], []]]],
            ['raw', '2800', pm(0), ['x', '00b0']],
            ['raw', 'A001', pm(1), ['b', L, 7]],
            ['raw', U128C, pm(2), ['b', L, 8]],
            ['raw', '2803', RW, ['b', 5, 9]],
            ['raw', '2800', RW, ['x', '01b0']],
        ]
    if shape == 'widths':
        # runs of consecutive attributes whose TYPE is a 32-bit UUID (and 16- / 128-bit ones next to them): Find Information
        # and Read By Type budget their entries by the size the type has on the air
        return [
            ['svc', U32[0], True, [
                [U32[1], P_R | P_W, RW, ['b', L, 1], [[U32[2], RW, ['b', L, 2]], [U32[3], RW, ['b', 1, 3]], [U32[4], RW, ['b', 2, 4]], ['2901', RW, ['b', L, 5]], [U128C, RW, ['b', 1, 6]], [U128S, RW, ['b', 1, 7]]]],
                [U32[1], P_R | P_W, RW, ['b', L, 8], []],
            ]],
            ['raw', U32[5], RW, ['b', L, 9]],
            ['raw', U32[5], RW, ['b', L, 10]],
            ['raw', U32[6], RW, ['b', 1, 11]],
            ['raw', U32[7], RW, ['b', 1, 12]],
            ['raw', 'A001', RW, ['b', L, 13]],
            ['raw', 'A001', RW, ['b', L, 14]],
            ['raw', U128C, RW, ['b', L, 15]],
            ['raw', U32[5], RW, ['b', 2, 16]],
        ]
    if shape == 'svcs':
        return (
            [['svc', 'B%03X' % i, True, []] for i in range(n)]
            + [['svc', U128S, True, []], ['svc', U128C, True, []], ['svc', 'C000', False, []], ['svc', 'C001', False, []]]
        )
    raise ValueError(shape)


def value_lengths(m):
    s = {0, 1, 2, (m - 6) // 2, (m - 6) // 2 + 1, (m - 4) // 2, (m - 1) // 2, (m - 1) // 2 + 1, m - 4, m - 3, m - 2, m - 1, m, 2 * (m - 1), 512}
    return sorted(x for x in s if 0 <= x <= 512)


# ---------------------------------------------------------------------------
# reference: what a request addresses, and why a refusal would be due (signature only)
# ---------------------------------------------------------------------------
def malformed(op, nparams):
    if op in (0x02, 0x0A):
        return nparams != 2
    if op in (0x04, 0x0C):
        return nparams != 4
    if op in (0x08, 0x10):
        return nparams not in (6, 20)
    if op == 0x06:
        return nparams < 6
    if op in (0x0E, 0x20):
        return nparams < 4 or nparams % 2 == 1
    if op == 0x12:
        return nparams < 2
    if op == 0x16:
        return nparams < 4
    if op == 0x18:
        return nparams != 1
    return False


def u128(t: bytes) -> bytes:
    return BASE128[:12] + t + BASE128[14:] if len(t) == 2 else t


def _issue_r(row):
    p = row['perms']
    if not (p & 0x01) or p & (0x04 | 0x10 | 0x40):
        return 'protected_attribute'
    if row['dyn'] == 'err':
        return 'value_raises_att_error'
    if row['dyn'] == 'w':
        return 'value_has_no_read_function'
    return None


def _issue_w(row):
    p = row['perms']
    if not (p & 0x02) or p & (0x08 | 0x20 | 0x80):
        return 'protected_attribute'
    if row['dyn'] == 'err':
        return 'value_raises_att_error'
    if row['dyn'] == 'r':
        return 'value_has_no_write_function'
    return None


def cause_of(db, pdu):
    """Why answering this request needs an error path (first attribute, in the order the
    request names them, whose access must be refused or whose value cannot be produced);
    'none' when the request only touches plain static world-accessible attributes."""
    op, n = pdu[0], len(pdu) - 1
    if malformed(op, n):
        return 'malformed_length'
    u16 = lambda o: pdu[o] | (pdu[o + 1] << 8)
    if op in (0x0A, 0x0C):
        row = db.row(u16(1))
        return (row and _issue_r(row)) or 'none'
    if op in (0x12, 0x16):
        row = db.row(u16(1))
        return (row and _issue_w(row)) or 'none'
    if op in (0x0E, 0x20):
        for o in range(1, len(pdu) - 1, 2):
            row = db.row(u16(o))
            if row is None:
                return 'none'
            i = _issue_r(row)
            if i:
                return i
        return 'none'
    if op in (0x08, 0x10, 0x06):
        s, e = u16(1), u16(3)
        t = u128(pdu[5:7] if op == 0x06 else pdu[5:])
        for row in db.rows:
            if s <= row['handle'] <= e and u128(row['type']) == t:
                i = _issue_r(row)
                if i:
                    return i
        return 'none'
    return 'none'


# ---------------------------------------------------------------------------
# oracle
# ---------------------------------------------------------------------------
def judge(sent, replies, mtu):
    """sent: PDUs injected (in order) before the server ran; replies: everything the
    server device transmitted on that bearer until quiescence.  Returns
    [(check, extra_signature, message)]."""
    out = []
    srv = [p for p in replies if A.is_server_originated(p)]
    for p in srv:
        if len(p) > mtu:
            out.append(('reply_exceeds_mtu', {'reply_opcode': p[0]}, f'server sent opcode 0x{p[0]:02X} PDU of {len(p)} bytes with ATT_MTU {mtu}'))
    left = list(srv)
    optional = []
    for pdu in sent:
        if not pdu:
            continue
        op = pdu[0]
        cls = A.classify_opcode(op)
        if cls == 'request':
            hit = next((r for r in left if A.answers(op, r)), None)
            if hit is None:
                out.append(('no_reply', {'opcode': op}, f'request 0x{op:02X} ({A.REQUESTS[op]}) {pdu[:24].hex()} got no reply (server sent {[r[:8].hex() for r in srv]})'))
            else:
                left.remove(hit)
        elif cls == 'undefined':
            optional.append(op)
    for op in optional:
        hit = next((r for r in left if (A.error_rsp_fields(r) or (None,))[0] == op), None)
        if hit is not None:
            left.remove(hit)
    for r in left:
        e = A.error_rsp_fields(r)
        named = e[0] if e else (r[0] - 1)
        ops = [p[0] for p in sent if p]
        if named in ops and A.classify_opcode(named) == 'request':
            out.append(('multiple_replies', {'opcode': named}, f'request 0x{named:02X} answered more than once: {[x[:8].hex() for x in srv]}'))
        else:
            classes = {A.classify_opcode(o) for o in ops}
            cls = classes.pop() if len(classes) == 1 else 'mixed'
            out.append(('unsolicited_reply', {'to': cls, 'reply_opcode': r[0]}, f'server sent {r[:8].hex()} although nothing asked for it (injected {[p[:8].hex() for p in sent]})'))
    return out


# ---------------------------------------------------------------------------
# request generation (plain struct packing, independent of bumble/att.py)
# ---------------------------------------------------------------------------
GENERIC_PARAMS = [b'', b'\x01', b'\x01\x00', b'\x03\x00', b'\x01\x00\xff\xff', b'\x01\x00\xff\xff\x00\x28', b'\x01\x00\xff\xff\x00\x28\x00\x00', b'\x03\x00' + bytes(range(20))]


def interesting_handles(db, limit=12):
    """Handles used to build handle sets: protected and dynamic-value attributes first,
    then one or two of each role, then an invalid handle below and above the database."""
    rows = db.rows
    pri = []
    picks = (
        (lambda r: r['perms'] & 0xFC, 2),
        (lambda r: r['dyn'] not in (None, 'cccd'), 7),
        (lambda r: r['role'] == 'chr_value', 2),
        (lambda r: r['role'] in ('descriptor', 'cccd'), 2),
        (lambda r: r['role'] in ('service', 'raw', 'include'), 2),
    )
    for pick, quota in picks:
        k = 0
        for r in rows:
            if k >= quota:
                break
            if pick(r) and r['handle'] not in pri:
                pri.append(r['handle'])
                k += 1
    return pri[: limit - 2] + [0, db.last + 1]


def gen_requests(db, mtu, groups, lean=False):
    """Yield (group, pdu).  lean (thorough tier, MTUs other than the five quick ones):
    ranged requests use the small set of boundary handles and handle triples are left
    out -- those dimensions do not interact with the MTU-dependent size arithmetic."""
    rows, last = db.rows, db.last
    small = last <= 40
    hall = list(range(0, last + 2)) + [0xFFFF] if small else sorted(set(range(0, 12)) | set(range(last - 8, last + 2)) | {last // 2, 0xFFFF})
    hs = interesting_handles(db)
    prot = [r['handle'] for r in rows if r['perms'] & 0xFC]
    hr = sorted({0, 1, 2, (last + 1) // 2, last, last + 1, 0xFFFF} | {h + d for h in prot[:2] for d in (-1, 0, 1)})
    hr0 = sorted({0, 1, last, 0xFFFF} | set(prot[:1]))
    if lean:
        hr = hr0
    types = []
    for r in rows:
        if r['type'] not in types:
            types.append(r['type'])
    absent = [A.uuid_bytes('F0FF'), A.uuid_bytes(U128X)]
    garbage = [b'', b'\x00', b'\x00\x28\x00', b'\x00\x28\x00\x00', bytes(15), bytes(17)]
    vlen = lambda h: len(db.row(h)['static']) if db.row(h) and db.row(h)['static'] is not None else 3

    if 'sweep' in groups:
        for op in range(256):
            for p in GENERIC_PARAMS:
                yield 'sweep', bytes([op]) + p
        yield 'sweep', b''
    if 'mtu' in groups:
        for m in (0, 1, 22, 23, 24, mtu, 517, 518, 0xFFFF):
            yield 'mtu', A.req_exchange_mtu(m)
    if 'findinfo' in groups:
        for s in hr:
            for e in hr:
                yield 'findinfo', A.req_find_information(s, e)
    if 'fbtv' in groups:
        t16 = [t for t in types if len(t) == 2] + absent[:1]
        for t in t16:
            vals = [b'', b'\x00']
            for r in rows:
                if r['type'] == t and r['static'] is not None:
                    vals.append(r['static'])
                    break
            for s in hr0:
                for e in hr0:
                    for v in vals:
                        yield 'fbtv', A.req_find_by_type_value(s, e, t, v)
    if 'rbt' in groups:
        for t in types + absent[:1]:
            for s in hr:
                for e in hr:
                    yield 'rbt', A.req_read_by_type(s, e, t)
        for t in absent[1:] + garbage:
            for s, e in ((1, 0xFFFF), (0, 0), (last, last)):
                yield 'rbt', A.req_read_by_type(s, e, t)
    if 'rbgt' in groups:
        for t in (A.uuid_bytes('2800'), A.uuid_bytes('2801'), u128(A.uuid_bytes('2800'))):
            for s in hr:
                for e in hr:
                    yield 'rbgt', A.req_read_by_group_type(s, e, t)
        for t in [A.uuid_bytes('2803')] + absent + garbage:
            for s, e in ((1, 0xFFFF), (0, 0), (last, last)):
                yield 'rbgt', A.req_read_by_group_type(s, e, t)
    if 'read' in groups:
        for h in hall:
            yield 'read', A.req_read(h)
    if 'blob' in groups:
        for h in hall:
            n = vlen(h)
            for off in sorted({0, 1, max(n - 1, 0), n, n + 1, mtu - 2, mtu - 1, mtu, 0xFFFF}):
                yield 'blob', A.req_read_blob(h, off)
    if 'multi' in groups:
        for var in (False, True):
            yield 'multi', A.req_read_multiple([], var)
            for h in hall:
                yield 'multi', A.req_read_multiple([h], var)
            for a in hs:
                for b in hs:
                    yield 'multi', A.req_read_multiple([a, b], var)
            ht = hs[:4] + hs[-1:]
            for tr in itertools.product(ht, repeat=3) if not lean else ():
                yield 'multi', A.req_read_multiple(tr, var)
            nmax = (mtu - 1) // 2
            for base in hs[:3]:
                for n in (nmax, nmax + 1):
                    yield 'multi', A.req_read_multiple([base] * n, var)
            cyc = [h for h in hs if db.row(h)]
            yield 'multi', A.req_read_multiple([cyc[i % len(cyc)] for i in range(nmax)], var)
    if 'write' in groups:
        for op in (0x12, 0x52, 0xD2):
            for h in hall:
                for n in sorted({0, 1, 2, mtu - 3, mtu - 2, 512, 513}) if op != 0xD2 else (0, 14):
                    yield 'write', A.req_write(h, A.pattern(n, 99), op)
        for h in hall:
            for off in (0, 1, 0xFFFF):
                for n in (0, 1, mtu - 5):
                    yield 'write', A.req_prepare_write(h, off, A.pattern(n, 98))
        for f in (0, 1, 2, 0xFF):
            yield 'write', A.req_execute_write(f)
        yield 'write', bytes([0x1E])
        yield 'write', bytes([0x1E, 0x00])
    if 'trunc' in groups:
        h = next((r['handle'] for r in rows if r['role'] == 'chr_value'), 1)
        full = [
            A.req_exchange_mtu(mtu), A.req_find_information(1, 0xFFFF), A.req_find_by_type_value(1, 0xFFFF, A.uuid_bytes('2800'), A.uuid_bytes('A000')),
            A.req_read_by_type(1, 0xFFFF, A.uuid_bytes('2803')), A.req_read_by_type(1, 0xFFFF, A.uuid_bytes(U128C)), A.req_read(h), A.req_read_blob(h, 0),
            A.req_read_multiple([h, h]), A.req_read_multiple([h, h], True), A.req_read_by_group_type(1, 0xFFFF, A.uuid_bytes('2800')),
            A.req_read_by_group_type(1, 0xFFFF, u128(A.uuid_bytes('2800'))), A.req_write(h, b'ab'), A.req_write(h, b'ab', 0x52), A.req_write(h, b'ab' + bytes(12), 0xD2),
            A.req_prepare_write(h, 0, b'ab'), A.req_execute_write(1), bytes([0x1E]), bytes([0x1B]) + A.h16(h) + b'x', bytes([0x1D]) + A.h16(h) + b'x',
        ]
        for f in full:
            for k in range(1, len(f) + 1):
                yield 'trunc', f[:k]


ALL_GROUPS = ('sweep', 'mtu', 'findinfo', 'fbtv', 'rbt', 'rbgt', 'read', 'blob', 'multi', 'write', 'trunc')
SIZE_GROUPS = ('findinfo', 'fbtv', 'rbt', 'rbgt', 'read', 'blob', 'multi')
MUTATING = {0x02, 0x12, 0x52, 0x16, 0x18, 0xD2}


def pair_alphabet(db, mtu):
    rows = db.rows
    val = next(r['handle'] for r in rows if r['role'] == 'chr_value')
    prot = next((r['handle'] for r in rows if r['perms'] & 0xFC), None)
    dyn = [r['handle'] for r in rows if r['dyn'] in ('arw', 'w', 'err')]
    out = [
        A.req_exchange_mtu(mtu), A.req_find_information(1, 0xFFFF), A.req_find_by_type_value(1, 0xFFFF, A.uuid_bytes('2800'), A.uuid_bytes('A000')),
        A.req_read_by_type(1, 0xFFFF, A.uuid_bytes('2803')), A.req_read_by_type(1, 0xFFFF, A.uuid_bytes('A001')), A.req_read(val), A.req_read(0), A.req_read_blob(val, 0),
        A.req_read_multiple([val, 1]), A.req_read_multiple([val, 1], True), A.req_read_by_group_type(1, 0xFFFF, A.uuid_bytes('2800')),
        A.req_write(val, b'zz'), A.req_write(val, b'yy', 0x52), A.req_prepare_write(val, 0, b'q'), A.req_execute_write(0), bytes([0x1E]),
        bytes([0x1B]) + A.h16(val) + b'n', bytes([0x14, 0, 0]), bytes([0x0A, 0x01]),
    ]
    for h in ([prot] if prot else []) + dyn:
        out += [A.req_read(h), A.req_read_multiple([val, h]), A.req_write(h, b'pp')]
    return out


# ---------------------------------------------------------------------------
# worker plumbing
# ---------------------------------------------------------------------------
_AW = None


def world():
    """One AttWorld per worker process, kept for the life of the process."""
    global _AW
    if _AW is None:
        _AW = A.AttWorld()
        _AW.__enter__()
    return _AW


def close_world():
    global _AW
    if _AW is not None:
        _AW.__exit__(None, None, None)
        _AW = None


def bearer_for(aw, kind, mtu, st=None):
    """Establish ATT_MTU `mtu` on the bearer through a real protocol path where there is
    one: Exchange MTU on the fixed channel; L2CAP channel MTU for EATT (one real channel
    per quick-tier MTU, `on_att_mtu_update` beyond that: dynamic CIDs are limited to 64).
    Returns the bearer name to inject on."""
    if kind == 'att':
        aw.set_mtu('att', 23)
        rep = aw.inject('att', A.req_exchange_mtu(mtu))
        ok = len(rep) == 1 and len(rep[0]) == 3 and rep[0][0] == 0x03
        srv_rx = (rep[0][1] | rep[0][2] << 8) if ok else None
        want = min(mtu, srv_rx) if ok else None
        if st is not None and (not ok or aw.s_conn.att_mtu != want):
            st.violation('mtu_state', {'bearer': 'att'}, f'after Exchange MTU (client {mtu}, reply {[r.hex() for r in rep]}) the bearer ATT_MTU is {aw.s_conn.att_mtu}, expected {want}', {'mode': 'mtu_state', 'mtu': mtu})
        aw.set_mtu('att', mtu)
        return 'att'
    if mtu in QUICK_MTUS:
        name = f'eatt{mtu}'
        if name not in aw.eatt:
            sch = aw.open_eatt(name, mtu)
            if st is not None and sch.att_mtu != mtu:
                st.violation('mtu_state', {'bearer': 'eatt'}, f'EATT channel opened with peer MTU {mtu} has ATT_MTU {sch.att_mtu}', {'mode': 'mtu_state', 'mtu': mtu})
        aw.set_mtu(name, mtu)
        return name
    if 'eattx' not in aw.eatt:
        aw.open_eatt('eattx', 2048)
    aw.eatt['eattx'][0].on_att_mtu_update(mtu)
    aw.note_mtu('eattx', mtu)
    return 'eattx'


class Found:
    """First case per (check, signature) in this worker -- cheap to test in the hot loop."""

    def __init__(self):
        self.items = {}

    def add(self, check, sig: dict, msg, case):
        k = (check,) + tuple(sorted(sig.items()))
        if k not in self.items:
            self.items[k] = (check, sig, msg, case)

    def flush(self, st):
        for check, sig, msg, case in self.items.values():
            st.violation(check, sig, msg, case)


def answered_ops(replies):
    """Multiset (as a sorted list) of request opcodes the server replies name."""
    out = []
    for r in replies:
        if A.is_server_originated(r):
            e = A.error_rsp_fields(r)
            out.append(e[0] if e else r[0] - 1)
    return out


def judge_pair(a, b, rep, mtu, lone_a, lone_b):
    """Back-to-back delivery.  The single-request mode already reports requests that are
    not answered on their own, so here a violation is what back-to-back delivery adds
    (lone_a / lone_b = the replies when the server runs to quiescence between the two):
    a reply is lost, a request is answered more often than it was sent, a reply names
    nothing that was sent, or a reply is too long."""
    out = []
    srv = [p for p in rep if A.is_server_originated(p)]
    for p in srv:
        if len(p) > mtu:
            out.append(('reply_exceeds_mtu', {'reply_opcode': p[0]}, f'server sent opcode 0x{p[0]:02X} PDU of {len(p)} bytes with ATT_MTU {mtu}'))
    got = answered_ops(srv)
    alone = answered_ops(lone_a) + answered_ops(lone_b)
    sent_ops = [x[0] for x in (a, b) if x]
    for op in sorted(set(sent_ops) | set(got)):
        n_got, n_alone, n_sent = got.count(op), alone.count(op), sent_ops.count(op)
        if op not in sent_ops:
            out.append(('unsolicited_reply', {'to': 'pair', 'named_opcode': op}, f'server reply names opcode 0x{op:02X} which was not sent: {[r[:8].hex() for r in srv]}'))
        elif A.classify_opcode(op) == 'request':
            if n_got < n_alone:
                out.append(('reply_lost_in_sequence', {'opcode': op}, f'request 0x{op:02X} is answered when the two PDUs are sent one after the other, but not back-to-back: {[a[:12].hex(), b[:12].hex()]} (server sent {[r[:8].hex() for r in srv]})'))
            elif n_got > n_sent:
                out.append(('multiple_replies', {'opcode': op}, f'request 0x{op:02X} answered {n_got} times in {[a[:12].hex(), b[:12].hex()]}'))
        elif n_got and (A.classify_opcode(op) != 'undefined' or n_got > n_sent):
            out.append(('unsolicited_reply', {'to': A.classify_opcode(op), 'named_opcode': op}, f'server answered non-request 0x{op:02X}: {[r[:8].hex() for r in srv]}'))
    return out


def run_config(aw, st, cfg, found):
    """cfg = dict(shape, L, prot, n, mtu, bearer, groups, pairs)."""
    spec = shape_spec(cfg['shape'], cfg['L'], cfg['prot'], cfg['n'])
    db = aw.set_database(spec)
    mtu, kind = cfg['mtu'], cfg['bearer']
    name = bearer_for(aw, kind, mtu, st)
    aw.take_errors()
    base_case = {'spec': spec, 'mtu': mtu, 'bearer': kind}
    where = f'[{kind} mtu={mtu} db={cfg["shape"]}/L={cfg["L"]}/prot={cfg["prot"]}]'
    nreq = 0
    inject, restore, case = aw.inject, aw.restore, st.case
    for group, pdu in gen_requests(db, mtu, cfg['groups'], cfg.get('lean', False)):
        rep = inject(name, pdu)
        nreq += 1
        op = pdu[0] if pdu else -1
        if rep:
            r0 = rep[0]
            case(f'{group}{op:02x}>{r0[0]:02x}{r0[4] if len(r0) == 5 and r0[0] == 1 else 0:02x}{min(len(r0) * 4 // mtu, 4)}')
        else:
            case(f'{group}{op:02x}>--')
        if len(rep) != 1 or len(rep[0]) > mtu or not A.answers(op, rep[0]):  # fast path: one fitting answer to a request
            for check, extra, msg in judge([pdu], rep, mtu):
                sig = dict(extra, bearer=kind)
                if check == 'no_reply':
                    sig['cause'] = cause_of(db, pdu)
                found.add(check, sig, f'{where} {msg}', dict(base_case, mode='single', pdus=[pdu.hex()]))
        elif A.classify_opcode(op) != 'request':
            for check, extra, msg in judge([pdu], rep, mtu):
                found.add(check, dict(extra, bearer=kind), f'{where} {msg}', dict(base_case, mode='single', pdus=[pdu.hex()]))
        if op == 0x02 and kind == 'att' and len(pdu) == 3 and len(rep) == 1 and len(rep[0]) == 3 and rep[0][0] == 0x03:
            # the ATT_MTU now in force must be min(client rx, server rx) (a client value below 23 is invalid: unchanged or 23)
            m, srv_rx = pdu[1] | pdu[2] << 8, rep[0][1] | rep[0][2] << 8
            ok_vals = {min(m, srv_rx)} if m >= 23 else {mtu, 23}
            if aw.s_conn.att_mtu not in ok_vals:
                found.add('mtu_state', {'bearer': 'att'}, f'{where} after Exchange MTU client={m} server={srv_rx} the bearer ATT_MTU is {aw.s_conn.att_mtu}', {'mode': 'mtu_state', 'mtu': m})
        if op in MUTATING:
            restore()
    if aw.sync_errors:
        st.count('receive_path_exceptions', len(aw.take_errors()))
    if cfg.get('pairs'):
        alpha = pair_alphabet(db, mtu)
        for a in alpha:
            for b in alpha:
                # reference: the same two PDUs with the server run to quiescence in between
                seq_a = inject(name, a)
                seq_b = inject(name, b)
                restore()
                inject(name, a, settle=False)
                rep_a = aw.take(name)
                rep = rep_a + inject(name, b)
                nreq += 1
                case(f'pair{a[0]:02x}{b[0]:02x}{len(rep)}')
                for check, extra, msg in judge_pair(a, b, rep, mtu, seq_a, seq_b):
                    found.add(check, dict(extra, bearer=kind, seq='pair'), f'{where} {msg}', dict(base_case, mode='pair', pdus=[a.hex(), b.hex()]))
                restore()
        st.count('pairs', len(alpha) ** 2)
        aw.take_errors()
    if aw.dirty():
        raise core.HarnessError(f'database not restored after config {cfg}: {aw.dirty()}')
    st.count('configs')
    st.count('requests', nreq)
    return nreq


def w_requests(cfgs):
    st = core.Stats('requests')
    aw = world()
    found = Found()
    for cfg in cfgs:
        run_config(aw, st, cfg, found)
    found.flush(st)
    if cfgs:
        c = cfgs[0]
        st.samples.append({'database': f'{c["shape"]} L={c["L"]} protected_position={c["prot"]}', 'mtu': c['mtu'], 'bearer': c['bearer'], 'groups': list(c['groups'])})
    return st


# ---------------------------------------------------------------------------
# notifications / indications: size
# ---------------------------------------------------------------------------
def subscribe_all(aw, names, bits=3):
    """Write `bits` to every CCCD through a real Write Request on each bearer."""
    for name in names:
        for r in aw.db.rows:
            if r['role'] == 'cccd':
                rep = aw.inject(name, A.req_write(r['handle'], bytes([bits, 0])))
                if rep != [b'\x13']:
                    raise core.HarnessError(f'CCCD write refused: {[x.hex() for x in rep]}')


def run_api(aw, coro_fn, names, mtu, confirm=True):
    """Start the API coroutine, run to quiescence, confirm indications until the call
    finishes.  Returns {bearer: [pdu...]}."""
    loop = aw.loop
    for n in names:
        aw.take(n)
    task = loop.create_task(coro_fn())
    sent = {n: [] for n in names}
    for _ in range(8):
        loop.run_quiescent()
        progress = False
        for n in names:
            got = aw.take(n)
            sent[n] += got
            for p in got:
                if p[0] == A.OP_INDICATION and confirm:
                    aw.inject(n, bytes([A.OP_CONFIRMATION]))
                    sent[n] += aw.take(n)
                    progress = True
        if task.done() and not progress:
            break
    if not task.done():
        task.cancel()
        loop.run_quiescent()
        return sent, 'pending'
    exc = task.exception() if not task.cancelled() else None
    return sent, (type(exc).__name__ if exc else None)


def w_notify(items):
    st = core.Stats('notify')
    aw = world()
    for item in items:
        mtu, lens = item[:2]
        emtu = item[2] if len(item) > 2 else mtu  # the two bearers of one connection need not have the same ATT_MTU
        mtu_of = {'att': mtu, 'eatt': emtu}
        for L in lens:
            spec = shape_spec('std', min(L, 512), None, 0)
            db = aw.set_database(spec)
            names = [bearer_for(aw, 'att', mtu, st), bearer_for(aw, 'eatt', emtu, st)]
            subscribe_all(aw, names)
            srv = aw.server
            attr = next(a for a in srv.attributes if a.handle == next(r['handle'] for r in db.rows if r['role'] == 'chr_value'))
            explicit = A.pattern(L, 55)
            calls = []
            for value, vname in ((None, 'stored'), (explicit, 'explicit')):
                if value is None and L > 512:
                    continue
                calls += [
                    (f'notify_subscribers/{vname}', lambda v=value: srv.notify_subscribers(attr, v)),
                    (f'indicate_subscribers/{vname}', lambda v=value: srv.indicate_subscribers(attr, v)),
                    (f'notify_subscribers/{vname}/force', lambda v=value: srv.notify_subscribers(attr, v, True)),
                    (f'indicate_subscribers/{vname}/force', lambda v=value: srv.indicate_subscribers(attr, v, True)),
                ]
                for n in names:
                    b = aw.bearer(n)
                    k = 'att' if n == 'att' else 'eatt'
                    calls += [
                        (f'notify_subscriber/{k}/{vname}', lambda v=value, b=b: srv.notify_subscriber(b, attr, v)),
                        (f'indicate_subscriber/{k}/{vname}', lambda v=value, b=b: srv.indicate_subscriber(b, attr, v)),
                        (f'notify_subscriber/{k}/{vname}/force', lambda v=value, b=b: srv.notify_subscriber(b, attr, v, True)),
                        (f'indicate_subscriber/{k}/{vname}/force', lambda v=value, b=b: srv.indicate_subscriber(b, attr, v, True)),
                    ]
            for cname, fn in calls:
                sent, status = run_api(aw, fn, names, mtu)
                npdu = 0
                for n in names:
                    k = 'att' if n == 'att' else 'eatt'
                    for p in sent[n]:
                        npdu += 1
                        st.add('pdu_kinds', (k, p[0]))
                        if A.is_server_originated(p) and len(p) > mtu_of[k]:
                            st.violation(
                                'notification_exceeds_mtu', {'api': cname.split('/')[0], 'bearer': k, 'pdu_opcode': p[0]},
                                f'{cname} with a {L}-byte value sent a {len(p)}-byte PDU (opcode 0x{p[0]:02X}) on {k} with ATT_MTU {mtu_of[k]} (the other bearer: {mtu_of["att" if k == "eatt" else "eatt"]})',
                                {'mode': 'notify', 'mtu': mtu, 'emtu': emtu, 'L': L, 'api': cname},
                            )
                st.case(f'{cname[:12]}{mtu}/{emtu}/{L}/{npdu}', nontrivial=npdu > 0)
                st.count('pdus', npdu)
                if status:
                    st.count(f'api_status_{status}')
            aw.restore()
    st.samples.append({'mtu': items[0][0], 'value_lengths': items[0][1], 'apis': 'notify_/indicate_ subscribers/subscriber x stored/explicit value x force'}) if items else None
    return st


# ---------------------------------------------------------------------------
# indications: at most one unconfirmed per bearer
# ---------------------------------------------------------------------------
# Operations of an indication history.  Application side: start indicate_subscribers for
# characteristic A / B / both, start notify_subscribers(A).  Time: 30 s pass.  Peer side
# (real ATT PDUs through the raw seam, '<op>@<bearer>'): Handle Value Confirmation; Write
# Requests to the CCCDs of that bearer (all off / all notify-only / all notify+indicate /
# only A's off); Exchange MTU.  Everything a peer can do between an indication and its
# confirmation that might make the server forget that an indication is outstanding.
APP_OPS = ('indA', 'indB', 'indAB', 'ntfA')
PEER_OPS = ('cfm', 'off', 'ntfonly', 'sub', 'offA', 'mtu')
IND_OPS = ('indA', 'indB', 'indAB', 'cfm@att', 'cfm@eatt', 'wait30')  # both bearers interleaved, confirmations only
IND_TIMEOUT = 30.0


def focus_ops(bearer):
    """Alphabet with every peer operation, all on one bearer (the other bearer stays
    subscribed and is watched too)."""
    return APP_OPS + ('wait30',) + tuple(f'{o}@{bearer}' for o in PEER_OPS)


B2B_PDUS = ('cfm', 'offA', 'subA', 'mtu', 'read', 'wcmd')  # single PDUs that are paired back to back


def indication_histories(quick):
    seen, out = set(), []

    def add(h):
        # histories that never start an indication are trivial; keep them out
        if h not in seen and any(o.startswith('ind') for o in h):
            seen.add(h)
            out.append(h)

    plans = [(IND_OPS, 5 if quick else 7), (focus_ops('att'), 4 if quick else 5), (focus_ops('eatt'), 4 if quick else 5)]
    for ops, depth in plans:
        for d in range(1, depth + 1):
            for h in itertools.product(ops, repeat=d):
                add(h)
    # two peer PDUs delivered back to back (the server does not get to run in between), in every
    # state reachable by a short prefix, followed by one more step
    for b in ('att', 'eatt'):
        pre_ops = ('indA', 'indB', 'indAB', f'cfm@{b}', f'off@{b}')
        prefixes = [h for d in range(1, (2 if quick else 3) + 1) for h in itertools.product(pre_ops, repeat=d)]
        suffixes = [(), ('indA',), (f'cfm@{b}',), ('wait30',)]
        for pre in prefixes:
            for x in B2B_PDUS:
                for y in B2B_PDUS:
                    for suf in suffixes:
                        add(pre + (f'b2b:{x}+{y}@{b}',) + suf)
    return out


def lifecycle_histories(quick):
    """Histories with bearer life-cycle operations: at most two of eatt_open /
    eatt_close_peer / eatt_close_srv, interleaved with indications, confirmations,
    a re-subscription on the fixed bearer and time; each also with the extra bearer
    already open at the start."""
    ops = ('indA', 'indAB', 'cfm@att', 'cfm@eatt2', 'sub@att', 'wait30') + LIFE_OPS
    out = []
    for d in range(1, (4 if quick else 5) + 1):
        for h in itertools.product(ops, repeat=d):
            n_life = sum(o in LIFE_OPS for o in h)
            if not any(o.startswith('ind') for o in h) or n_life > 2:
                continue
            if n_life:
                out.append(h)
            if any(o.startswith('eatt_close') for o in h) or 'cfm@eatt2' in h:
                out.append(('eatt_open',) + h)
    return out


LIFE_OPS = ('eatt_open', 'eatt_close_peer', 'eatt_close_srv')
X = 'eatt2'  # name of the additional EATT bearer that life-cycle histories open and close


def run_indication_history(aw, hist, names, attrs, cccds, probe=False):
    """The invariant is judged from the wire only: per bearer, Handle Value Indications
    (0x1D) sent minus confirmations (0x1E) delivered, an indication also being released
    when the 30 s transaction timeout has passed since it was sent.
    The replies to the peer's own PDUs are judged with the ordinary C10 oracle.
    Life-cycle ops open / close (peer- or server-initiated L2CAP disconnect) a further
    EATT bearer 'eatt2'; a closed bearer is no longer watched.  With probe=True the
    history ends with a service probe: after everything has drained, one notification and
    one indication of characteristic A must still reach every open bearer whose CCCD (as
    last written by the peer on that bearer) asks for it.
    Returns (violation message or None, [(check, signature, message)], observation tuple)."""
    loop = aw.loop
    srv = aw.server
    tasks = []
    by = {'att': names[0], 'eatt': names[1]}
    names = list(names)  # bearers watched right now (eatt2 comes and goes)
    sent_at = {n: [] for n in names}  # send times of indications not yet released
    cccd_a = {n: 3 for n in names}  # reference: A's CCCD value as last written by the peer on each bearer

    def open_x():
        aw.open_eatt(X, 23)
        names.append(X)
        by[X] = X
        sent_at[X] = []
        for h in cccds:
            if aw.inject(X, A.req_write(h, b'\x03\x00')) != [b'\x13']:
                raise core.HarnessError('CCCD write on the new EATT bearer refused')
        cccd_a[X] = 3

    def close_x(who):
        aw.close_eatt(X, who)
        names.remove(X)
        del by[X], sent_at[X], cccd_a[X]

    obs = []
    worst = None
    problems = []
    touched_cccd = False
    for n in names:
        aw.take(n)

    def absorb():
        for n in names:
            for p in aw.take(n):
                if p[0] == A.OP_INDICATION:
                    sent_at[n].append(loop.time())

    for i, op in enumerate(hist):
        state_before = tuple(len(sent_at[n]) for n in names)
        if op in APP_OPS:
            if op == 'ntfA':
                tasks.append(loop.create_task(srv.notify_subscribers(attrs[0])))
            else:
                for k in ((0,) if op == 'indA' else (1,) if op == 'indB' else (0, 1)):
                    tasks.append(loop.create_task(srv.indicate_subscribers(attrs[k])))
            loop.run_quiescent()
            absorb()
        elif op == 'wait30':
            target = loop.time() + IND_TIMEOUT
            # release everything that has been waiting for the full transaction timeout
            while True:
                nxt = loop.next_timer()
                if nxt is None or nxt > target:
                    break
                loop.advance(nxt - loop.time())
                now = loop.time()
                for n in names:
                    sent_at[n] = [t for t in sent_at[n] if now - t < IND_TIMEOUT - 1e-6]  # tolerance: float virtual clock
                loop.run_quiescent()
                absorb()
            loop.advance(target - loop.time())
            absorb()
        elif op in LIFE_OPS:
            if op == 'eatt_open' and X not in names:
                open_x()
            elif op != 'eatt_open' and X in names:
                close_x('peer' if op == 'eatt_close_peer' else 'server')
            absorb()
        elif op.split('@')[1] not in by:
            pass  # peer PDU for a bearer that is not open: nothing can be sent
        else:
            kind, b = op.split('@')
            n = by[b]
            single = {
                'cfm': bytes([A.OP_CONFIRMATION]), 'mtu': A.req_exchange_mtu(23), 'read': A.req_read(attrs[0].handle),
                'wcmd': A.req_write(attrs[0].handle, b'w', 0x52), 'offA': A.req_write(cccds[0], b'\x00\x00'), 'subA': A.req_write(cccds[0], b'\x03\x00'),
            }
            if kind.startswith('b2b:'):
                groups = [[single[x] for x in kind[4:].split('+')]]
            elif kind in ('off', 'ntfonly', 'sub'):
                bits = {'off': 0, 'ntfonly': 1, 'sub': 3}[kind]
                groups = [[A.req_write(h, bytes([bits, 0]))] for h in cccds]
            else:
                groups = [[single[kind]]]
            touched_cccd = touched_cccd or any(p[0] == 0x12 and (p[1] | p[2] << 8) in cccds for g in groups for p in g)
            for g in groups:
                for p in g:
                    if p[0] == 0x12 and (p[1] | p[2] << 8) == cccds[0]:
                        cccd_a[n] = p[3]
            for grp in groups:
                got = []
                for j, p in enumerate(grp):
                    if p[0] == A.OP_CONFIRMATION and sent_at[n]:
                        sent_at[n].pop(0)  # a confirmation releases the (oldest) outstanding indication of that bearer
                    got += aw.inject(n, p, settle=(j == len(grp) - 1))  # all but the last: no event-loop step before the next PDU
                aw.take(n)
                replies = []
                for p in got:
                    if p[0] == A.OP_INDICATION:
                        sent_at[n].append(loop.time())
                    elif p[0] not in A.NOTIFICATIONS:
                        replies.append(p)
                # the replies to the peer's PDUs are judged like everywhere else in C10
                for check, extra, msg in judge(grp, replies, 23):
                    problems.append((check, dict(extra, bearer=b, ops=kind.split(':')[-1], indication_pending=bool(state_before[names.index(n)])),
                                     f'step {i} ({op}) of {list(hist)}: {msg}'))
            absorb()
        state = tuple(len(sent_at[n]) for n in names) + ((-1,) if X not in names else ())
        obs.append(state)
        if worst is None and max(state) > 1:
            worst = f'after step {i} ({op}) of {list(hist)}: unconfirmed indications per bearer {dict(zip(("att", "eatt", "eatt2"), state))}'
    # drain: let every pending indication time out so the next history starts clean
    for _ in range(2 * len(tasks) + 2):
        if all(t.done() for t in tasks):
            break
        loop.advance(IND_TIMEOUT + 0.001)
    loop.run_quiescent()
    if not all(t.done() for t in tasks):
        raise core.HarnessError(f'indication history {hist} did not drain')
    if probe:
        # are the subscriptions of the bearers that are still open still served?
        for n in names:
            aw.take(n)
        for what, opcode, bit, api in (('notification', 0x1B, 1, srv.notify_subscribers), ('indication', 0x1D, 2, srv.indicate_subscribers)):
            t = loop.create_task(api(attrs[0]))
            loop.run_quiescent()
            for n in names:
                got = [p for p in aw.take(n) if p[0] == opcode]
                b = next(k for k, v in by.items() if v == n)
                if cccd_a[n] & bit and not got:
                    life = sorted({o for o in hist if o in LIFE_OPS})
                    problems.append(('subscription_not_served', {'bearer': 'eatt' if b == 'eatt2' else b, 'kind': what, 'after': life},
                                     f'after {list(hist)} (all drained) bearer {b} is subscribed to {what}s of characteristic A (CCCD 0x{cccd_a[n]:02X} written by the peer) but {api.__name__} sent it nothing'))
                if got and opcode == 0x1D:
                    aw.inject(n, bytes([A.OP_CONFIRMATION]))
            loop.run_quiescent()
            for _ in range(3):
                if t.done():
                    break
                loop.advance(IND_TIMEOUT + 0.001)
            tasks.append(t)
    if X in names:
        close_x('peer')
        touched_cccd = True
    if touched_cccd or probe:
        aw.restore()  # forget subscriptions of bearers that are gone (the server keeps them; not C10's business)
        subscribe_all(aw, names, bits=3)
    for n in names:
        aw.take(n)
    outcomes = []
    for t in tasks:
        if t.cancelled():
            outcomes.append('cancelled')
        else:
            outcomes.append(type(t.exception()).__name__ if t.exception() else 'ok')
    loop.run_quiescent()
    aw.take_errors()
    return worst, problems, (tuple(obs), tuple(outcomes), len(problems))


def setup_indication_world(aw, st=None):
    spec = shape_spec('std', 3, None, 0)
    db = aw.set_database(spec)
    names = [bearer_for(aw, 'att', 23, st), bearer_for(aw, 'eatt', 23, st)]
    subscribe_all(aw, names, bits=3)
    # the CCCD follows the descriptors of its characteristic; find the value attributes by role
    vals = [r['handle'] for r in db.rows if r['role'] == 'chr_value']
    cccds = [r['handle'] for r in db.rows if r['role'] == 'cccd']
    owners = [max(v for v in vals if v < c) for c in cccds]
    attrs = [next(a for a in aw.server.attributes if a.handle == h) for h in owners[:2]]
    assert len(attrs) == 2 and len(cccds) == 2, (cccds, owners)
    return names, attrs, cccds


def w_lifecycle(hists):
    st = core.Stats('indications')
    with A.AttWorld() as aw:  # channels are opened and closed: a world of its own
        names, attrs, cccds = setup_indication_world(aw, st)
        for hist in hists:
            bad, problems, obs = run_indication_history(aw, hist, names, attrs, cccds, probe=True)
            st.case(obs)
            st.count('lifecycle_histories')
            st.add('max_outstanding', max((max(s) for s in obs[0]), default=0))
            if bad:
                st.violation('two_unconfirmed_indications', indication_signature(hist, bad), bad, {'mode': 'indications', 'hist': list(hist), 'probe': True})
            for check, sig, msg in problems:
                st.violation(check, sig, msg, {'mode': 'indications', 'hist': list(hist), 'probe': True})
    if hists:
        st.samples.append({'lifecycle_history': list(hists[len(hists) // 2])})
    return st


def indication_signature(hist, bad):
    step = int(bad.split('after step ')[1].split(' ')[0])
    before = set()
    for o in hist[:step]:
        if o in LIFE_OPS:
            before.add(o)
        elif '@' in o:
            for part in o.split('@')[0].replace('b2b:', '').split('+'):
                if part != 'cfm':
                    before.add({'offA': 'off', 'subA': 'sub'}.get(part, part))
    before = sorted(before)
    last = hist[step].split('@')[0]
    return {'last_op': 'ind' if last.startswith('ind') else last, 'peer_ops_before': before}


def w_indications(hists):
    st = core.Stats('indications')
    aw = world()
    names, attrs, cccds = setup_indication_world(aw, st)
    for hist in hists:
        bad, problems, obs = run_indication_history(aw, hist, names, attrs, cccds)
        st.case(obs)
        st.add('max_outstanding', max((max(s) for s in obs[0]), default=0))
        st.add('task_outcomes', obs[1])
        if any(o.startswith('b2b:') for o in hist):
            st.count('back_to_back_histories')
        if bad:
            st.violation('two_unconfirmed_indications', indication_signature(hist, bad), bad, {'mode': 'indications', 'hist': list(hist)})
        for check, sig, msg in problems:
            st.violation(check, sig, msg, {'mode': 'indications', 'hist': list(hist)})
    if hists:
        st.samples.append({'history': list(hists[len(hists) // 2])})
    aw.restore()
    return st


# ---------------------------------------------------------------------------
# EATT through the channel's L2CAP receive path: a PDU must not take the next one with it
# ---------------------------------------------------------------------------
def w_eatt_l2cap(arg):
    mtu, groups = arg
    st = core.Stats('eatt_l2cap')
    found = Found()
    # a world of its own: L2CAP reassembly and credit state must not depend on what this
    # worker process ran before
    with A.AttWorld() as aw:
        db = aw.set_database(shape_spec('std', 3, None, 0))
        name = bearer_for(aw, 'eatt', mtu, st)
        val = next(r['handle'] for r in db.rows if r['role'] == 'chr_value')
        probe = A.req_read(val)
        for group, x in gen_requests(db, mtu, groups):
            if not x:
                continue  # a zero-length SDU is not an ATT PDU
            aw.take_errors()
            aw.inject(name, x, l2cap=True)
            raised = any(not e.startswith('loop:') for e in aw.take_errors())
            rep = aw.inject(name, probe, l2cap=True)
            ok = len(rep) == 1 and A.answers(0x0A, rep[0])
            st.case(f'{group}{x[0]:02x}{len(x)}{ok}{raised}')
            st.add('first_pdu_rejected', raised)
            if not ok:
                cls = A.classify_opcode(x[0])
                found.add(
                    'request_after_rejected_pdu_unanswered', {'bearer': 'eatt', 'first_pdu': 'malformed_' + cls if raised else cls},
                    f'EATT: a well-formed Read Request {probe.hex()} delivered right after {x[:16].hex()} (which the receive path rejected with an exception: {raised}) got {[r.hex() for r in rep]}',
                    {'mode': 'eatt_l2cap', 'mtu': mtu, 'first': x.hex()},
                )
                aw.inject(name, probe, l2cap=True)  # resynchronise
            if x[0] in MUTATING:
                aw.restore()
    found.flush(st)
    st.samples.append({'mtu': mtu, 'probe': probe.hex(), 'groups': list(groups)})
    return st


# ---------------------------------------------------------------------------
# the two seams agree
# ---------------------------------------------------------------------------
def w_seams(arg):
    shape, L, prot, n, mtu, groups = arg
    st = core.Stats('seams')
    spec = shape_spec(shape, L, prot, n)
    results = {}
    for forward in (False, True):
        with A.AttWorld(forward=forward) as aw:
            db = aw.set_database(spec)
            aw.open_eatt('eatt', mtu)
            out = []
            for kind in ('att', 'eatt'):
                if kind == 'att':
                    aw.inject('att', A.req_exchange_mtu(mtu))
                    aw.note_mtu('att', aw.s_conn.att_mtu)
                for group, pdu in gen_requests(db, mtu, groups):
                    if not pdu and kind == 'eatt':
                        continue  # a zero-length SDU is not an ATT PDU (and bumble's channel cannot send one)
                    aw.inject(kind, pdu, l2cap=True)
                    rep = list(aw.peer_rx[kind]) if forward else list(aw.captured[kind])
                    out.append((kind, pdu, rep))
                    if pdu and pdu[0] in MUTATING:
                        aw.restore()
                aw.take_errors()
            results[forward] = out
    a, b = results[False], results[True]
    if len(a) != len(b):
        raise core.HarnessError('seam runs have different lengths')
    for (kind, pdu, ra), (_, _, rb) in zip(a, b):
        # an SDU longer than the peer's L2CAP MTU arrives as several SDUs: compare the byte streams
        ra_srv = b''.join(ra)
        rb_srv = b''.join(rb)
        st.case(f'{kind}{pdu[:1].hex()}{len(ra)}{len(rb)}', nontrivial=bool(ra_srv))
        if ra_srv != rb_srv:
            ra_srv, rb_srv = ra, rb
            st.violation(
                'seams_differ', {'opcode': pdu[0] if pdu else -1, 'bearer': kind},
                f'{kind} request {pdu[:16].hex()}: capture seam saw {[r[:12].hex() for r in ra_srv]}, peer received {[r[:12].hex() for r in rb_srv]}',
                {'mode': 'seams', 'spec': spec, 'mtu': mtu, 'pdus': [pdu.hex()], 'bearer': kind},
            )
    st.samples.append({'database': shape, 'mtu': mtu, 'requests_compared': len(a)})
    return st


# ---------------------------------------------------------------------------
# configuration lists
# ---------------------------------------------------------------------------
# ---------------------------------------------------------------------------
# rendezvous: a request whose application callback completes only after ANOTHER ATT PDU has been served
# ---------------------------------------------------------------------------
def rendezvous_cases():
    out = []
    for first in ('read', 'read_blob', 'read_by_type', 'read_multiple', 'write_request'):
        for second, where in (('write_command', 'same'), ('write_request', 'other'), ('write_command', 'other')):
            for b1, b2 in (('att', 'eatt'), ('eatt', 'att'), ('eatt', 'eatt2')):
                out.append({'first': first, 'second': second, 'where': where, 'bearers': [b1, b1 if where == 'same' else b2]})
    return [c for i, c in enumerate(out) if c not in out[:i]]


def run_rendezvous(aw, case):
    spec = [['svc', 'A000', True, [['A0C1', P_R | P_W, RW, ['dyn', 'gate_r', 5, 1], []], ['A0C2', P_W | P_WNR, RW, ['dyn', 'gate_w', 0, 0], []], ['A0C3', P_R, RW, ['b', 3, 2], []]]]]
    A.GATE.clear()
    db = aw.set_database(spec)
    gate_h = next(r['handle'] for r in db.rows if r['type'] == A.uuid_bytes('A0C1'))
    key_h = next(r['handle'] for r in db.rows if r['type'] == A.uuid_bytes('A0C2'))
    other_h = next(r['handle'] for r in db.rows if r['type'] == A.uuid_bytes('A0C3'))
    b1, b2 = case['bearers']
    first = {
        'read': A.req_read(gate_h),
        'read_blob': A.req_read_blob(gate_h, 1),
        'read_by_type': A.req_read_by_type(gate_h, gate_h, A.uuid_bytes('A0C1')),
        'read_multiple': A.req_read_multiple([other_h, gate_h], False),
        'write_request': A.req_write(gate_h, b'\x01\x02'),
    }[case['first']]
    second = A.req_write(key_h, b'\x07', 0x52 if case['second'] == 'write_command' else 0x12)
    viol = []
    sig = {'first': case['first'], 'second': case['second'], 'bearer_of_second': case['where']}
    r1 = [r for r in aw.inject(b1, first) if A.is_server_originated(r)]
    if r1:
        # answered without the key having been written: not the situation of this check (would be a wrong answer elsewhere)
        return [('rendezvous', dict(sig, what='answered_before_the_gate_opened'), f'{case}: {first.hex()} answered {[r.hex() for r in r1]} although the application has not produced the value yet')]
    r2 = [r for r in aw.inject(b2, second) if A.is_server_originated(r)]
    want2 = 1 if case['second'] == 'write_request' else 0
    if b1 != b2:
        r1 = [r for r in aw.take(b1) if A.is_server_originated(r)]
    else:
        # one bearer: the replies of both PDUs are on it; the command gets none, so all but `want2` belong to the request
        r1, r2 = r2[: len(r2) - want2] if want2 else r2, r2[len(r2) - want2 :] if want2 else []
    if len(r1) != 1:
        viol.append(('rendezvous', dict(sig, what='first_request_not_answered' if not r1 else 'first_request_answered_twice'),
                     f'{case}: {case["first"]} {first.hex()} on {b1} waits for the application, which waits for the write of the key value; {case["second"]} {second.hex()} on {b2} was delivered; replies to the first request: {[r.hex() for r in r1]} (exactly one response expected: a client would time out)'))
    if len(r2) != want2:
        viol.append(('rendezvous', dict(sig, what='second_pdu_replies'), f'{case}: {case["second"]} {second.hex()} on {b2} got {[r.hex() for r in r2]}, expected {want2} reply'))
    aw.take_errors()
    return viol


def w_rendezvous(cases):
    aw = world()
    for name in ('eatt', 'eatt2'):
        if name not in aw.eatt:
            aw.open_eatt(name, 64)
    st = core.Stats('rendezvous')
    for case in cases:
        out = run_rendezvous(aw, case)
        st.case(case, None)
        for check, sg, msg in out:
            st.violation(check, sg, msg, {'mode': 'rendezvous', 'case': case})
    return st


def request_configs(quick):
    """quick: 5 MTUs x 2 bearers x 5 shapes x (all boundary lengths with no protected
    attribute + 4 lengths for each protected position); full request set where nothing
    is protected and L is 1 or MTU-2, otherwise without the opcode sweep / truncations.
    thorough: the same at the 5 quick MTUs plus writes everywhere, and every other MTU
    23..517 with the size-sensitive groups."""
    cfgs = []
    no_sweep = tuple(g for g in ALL_GROUPS if g not in ('sweep', 'trunc'))
    reads = tuple(g for g in ALL_GROUPS if g not in ('sweep', 'trunc', 'write', 'mtu'))
    for mtu in (QUICK_MTUS if quick else range(23, 518)):
        lens = value_lengths(mtu)
        few = sorted({1, (mtu - 4) // 2, mtu - 3, 512})
        q = mtu in QUICK_MTUS
        for bearer in ('att', 'eatt'):
            if not q and bearer == 'eatt' and mtu % 16 != 7:
                continue  # same size arithmetic as the fixed channel; every 16th MTU
            for shape, npos in SHAPES.items():
                if q:
                    n = {'many': 12 if quick else 70, 'svcs': 8 if quick else 90}.get(shape, 0)
                    prots = [None] + list(range(npos))
                else:
                    n = {'many': 70 if mtu > 60 else 16, 'svcs': 90 if mtu > 60 else 12}.get(shape, 0)
                    prots = [None] + (list(range(npos)) if mtu % 16 == 7 else [0] if shape == 'std' else [])
                if quick and bearer == 'eatt':
                    # the protected-position and value-length dimensions do not depend on the bearer: EATT gets the
                    # packing-boundary lengths and the first protected position
                    prots = prots[:2]
                    lens_b = sorted({0, 1, (mtu - 6) // 2 + 1, (mtu - 4) // 2, (mtu - 1) // 2 + 1, mtu - 3, mtu - 2, 512})
                else:
                    lens_b = lens
                for prot in prots:
                    for L in ([0] if shape == 'svcs' else lens_b if prot is None and (q or shape in ('std', 'many')) else few):
                        if not q:
                            groups, pairs = SIZE_GROUPS, False
                        else:
                            full = prot is None and L in (1, mtu - 2)
                            groups = ALL_GROUPS if full else no_sweep if (not quick or L in (0, 1, 512)) else reads
                            pairs = full or (prot == 0 and L == 1) or (shape == 'dyn' and L == 2)
                        cfgs.append({'shape': shape, 'L': L, 'prot': prot, 'n': n, 'mtu': mtu, 'bearer': bearer, 'groups': groups, 'pairs': pairs, 'lean': not q})
    return cfgs


def cfg_cost(c):
    w = {'sweep': 2100, 'rbt': 900, 'rbgt': 450, 'multi': 800, 'write': 600, 'fbtv': 400, 'blob': 200, 'trunc': 150}
    return sum(w.get(g, 60) for g in c['groups']) + (600 if c['pairs'] else 0) + c['n'] * 12


def balanced(cfgs, k):
    """k lists of configs with similar estimated cost (longest-processing-time first)."""
    bins = [[0, []] for _ in range(k)]
    for c in sorted(cfgs, key=cfg_cost, reverse=True):
        b = min(bins, key=lambda x: x[0])
        b[0] += cfg_cost(c)
        b[1].append(c)
    return [b[1] for b in bins if b[1]]


def aggregate(st: core.Stats):
    """One finding per failing input class instead of one per (class, opcode, bearer):
    violations that differ only in bearer are merged into a 'bearers' list, and
    'no_reply' violations that differ only in the request opcode into an 'opcodes'
    list.  A regression on one bearer or on one more opcode therefore changes the
    signature (and alarms); the case keeps one reproducer per merged item."""
    groups, order = {}, []
    for v in st.violations:
        sig = dict(v.signature)
        sig.pop('check', None)
        b = sig.pop('bearer', None)
        op = sig.pop('opcode', None) if v.check == 'no_reply' else None
        k = core.canon_json([v.check, sig])
        if k not in groups:
            groups[k] = {'check': v.check, 'sig': sig, 'bearers': set(), 'opcodes': set(), 'msgs': [], 'cases': []}
            order.append(k)
        g = groups[k]
        if b is not None:
            g['bearers'].add(b)
        if op is not None:
            g['opcodes'].add(op)
        g['msgs'].append(v.message)
        g['cases'].append(v.case)
    st.violations = []
    for k in order:
        g = groups[k]
        sig = dict(g['sig'])
        if g['bearers']:
            sig['bearers'] = sorted(g['bearers'])
        if g['opcodes']:
            sig['opcodes'] = sorted(g['opcodes'])
        msg = g['msgs'][0] + (f' (+{len(g["msgs"]) - 1} more opcode/bearer combinations of the same class)' if len(g['msgs']) > 1 else '')
        st.violation(g['check'], sig, msg, {'mode': 'multi', 'cases': g['cases']})


# ---------------------------------------------------------------------------
def run(ctx: core.Context) -> int:
    quick = ctx.quick
    only = getattr(ctx, 'only', None)
    want = lambda name: not only or name in only

    if want('requests'):
        cfgs = request_configs(quick)
        parts = balanced(cfgs, ctx.jobs * 6)
        st = ctx.sub('requests')
        for r in core.pmap(w_requests, parts, ctx.jobs):
            st.merge(r)
        aggregate(st)
        ctx.log(f'requests: configs={len(cfgs)} requests={st.counters.get("requests")} outcome classes={len(st.distinct)}')

    if want('notify'):
        mtus = QUICK_MTUS if quick else list(range(23, 518))
        items = []
        for m in mtus:
            lens = sorted({0, 1, m - 4, m - 3, m - 2, m - 1, m, 512, 513, 600} if quick or m in QUICK_MTUS else {m - 4, m - 3, m - 2, 512})
            items.append((m, lens))
        # bearers of one connection with different ATT_MTUs (fixed channel larger / smaller than the enhanced one)
        for m, e in ((517, 23), (517, 48), (185, 24), (23, 185), (48, 517)):
            items.append((m, sorted({min(m, e) - 3, min(m, e) - 2, max(m, e) - 3, max(m, e) - 2, 512}), e))
        st = ctx.sub('notify')
        for r in core.pmap(w_notify, core.split(items, ctx.jobs * 2), ctx.jobs):
            st.merge(r)
        aggregate(st)
        ctx.log(f'notify: evaluations={st.evaluations} pdus={st.counters.get("pdus")}')

    if want('indications'):
        hists = indication_histories(quick)
        st = ctx.sub('indications')
        for r in core.pmap(w_indications, core.split(hists, ctx.jobs * 4), ctx.jobs):
            st.merge(r)
        life = lifecycle_histories(quick)
        for r in core.pmap(w_lifecycle, core.split(life, ctx.jobs * 2), ctx.jobs):
            st.merge(r)
        aggregate(st)
        ctx.log(f'indications: life-cycle histories={len(life)}')
        ctx.log(f'indications: histories={len(hists)} distinct observations={len(st.distinct)} max outstanding seen={sorted(st.sets.get("max_outstanding", []))}')

    if want('eatt_l2cap'):
        st = ctx.sub('eatt_l2cap')
        items = [(m, g) for m in ([23, 185] if quick else QUICK_MTUS) for g in (('sweep',), ('trunc', 'mtu', 'read', 'blob', 'multi'), ('rbt', 'rbgt', 'findinfo'), ('write', 'fbtv'))]
        for r in core.pmap(w_eatt_l2cap, items, ctx.jobs):
            st.merge(r)
        # one finding: the list of PDU classes after which the next request is lost
        vs = [v for v in st.violations if v.check == 'request_after_rejected_pdu_unanswered']
        if vs:
            st.violations = [v for v in st.violations if v not in vs]
            st.violation(
                vs[0].check, {'bearer': 'eatt', 'first_pdu': sorted({v.signature['first_pdu'] for v in vs})},
                vs[0].message + (f' (+{len(vs) - 1} more classes of first PDU)' if len(vs) > 1 else ''), {'mode': 'multi', 'cases': [v.case for v in vs]},
            )

    if want('rendezvous'):
        st = ctx.sub('rendezvous')
        for r in core.pmap(w_rendezvous, core.split(rendezvous_cases(), 4), ctx.jobs):
            st.merge(r)
        ctx.log('rendezvous:', st.summary())

    if want('seams'):
        items = []
        for mtu in ([23, 185] if quick else QUICK_MTUS):
            for shape in ('std', 'dyn', 'raw') if (not quick or mtu == 23) else ('std',):
                items.append((shape, value_lengths(mtu)[-4], 0 if shape != 'dyn' else None, 0, mtu, tuple(g for g in ALL_GROUPS if g != 'sweep') if quick else ALL_GROUPS))
        st = ctx.sub('seams')
        for r in core.pmap(w_seams, items, ctx.jobs):
            st.merge(r)

    return core.finish(
        ctx,
        LEVEL,
        rule=(
            'requests: every PDU of the generated set (256 opcodes x 8 generic parameter blocks; each defined request over boundary '
            'handles, all (start,end) pairs of boundary handles, handle sets of size 0..3 and floor((MTU-1)/2)(+1), offsets, attribute '
            'types incl. malformed lengths, value lengths {0,1,2,MTU-3,MTU-2,512,513}; every prefix of 19 well-formed PDUs) is sent to '
            'each database (5 shapes x value lengths at the MTU-dependent packing boundaries x one protected attribute per position) at '
            + ('ATT_MTU in {23,24,48,185,517}' if quick else 'every ATT_MTU 23..517 (size-sensitive requests with boundary ranges and handle sets of size <= 2; the full set at 23,24,48,185,517; EATT at the five and at every 16th other MTU)')
            + ' on the ATT fixed channel and on a real EATT channel; distinct = (request group, opcode, reply opcode, error code, reply size bucket). '
            'pairs: all ordered pairs of ~20-30 representative PDUs delivered back-to-back. notify: 16 API forms x value lengths x MTU x 2 bearers. '
            'indications: all sequences up to depth ' + ('5' if quick else '7') + ' over {indA, indB, indAB, confirmation on att, on eatt, 30 s pass} and, per bearer, all sequences up to depth ' + ('4' if quick else '5') + ' over {indA, indB, indAB, notify A, 30 s pass, and the peer PDUs confirmation / CCCDs off / notify-only / notify+indicate / A off / Exchange MTU on that bearer}; outstanding indications counted on the wire (0x1D sent - 0x1E delivered - timed out); distinct = per-step outstanding counts + task outcomes. '
            'rendezvous: a request (read, read blob, read by type, read multiple, write request) on an attribute whose asynchronous application callback completes only once a key attribute has been written x the PDU that writes it (write command on the same bearer, write request / command on another bearer) x bearer pairs: each request gets exactly one response. '
            'seams: same requests through capture seam and end-to-end seam.'
        ),
        assumptions=[
            'link security state is "unencrypted" throughout (permission combinations are C11); protected = read and write require encryption',
            'attribute values are static byte strings or the six dynamic-value kinds of att_raw (read-only, write-only, both, async, raising ATT_Error, bearer-aware)',
            'an undefined opcode with the command bit clear may be ignored or answered with one Error Response (statement is silent)',
            'EATT ATT_MTU beyond the five quick-tier values is set with the bearer method on_att_mtu_update (dynamic CIDs are limited), not by opening a channel per value',
            'over-the-air delivery is the in-memory LocalLink; the capture seam does not forward replies to the peer',
        ],
        extra={'mtus': QUICK_MTUS if quick else '23..517', 'bearers': ['att', 'eatt']},
    )


# ---------------------------------------------------------------------------
def replay_one(check, c):
    mode = c.get('mode')
    msgs = []
    if mode == 'rendezvous':
        with A.AttWorld() as aw:
            for name in ('eatt', 'eatt2'):
                aw.open_eatt(name, 64)
            return [m for _, _, m in run_rendezvous(aw, c['case'])]
    if mode in ('single', 'pair'):
        with A.AttWorld() as aw:
            db = aw.set_database(c['spec'])
            st = core.Stats('replay')
            name = bearer_for(aw, c['bearer'], c['mtu'], st)
            pdus = [bytes.fromhex(x) for x in c['pdus']]
            if mode == 'single':
                probs = judge(pdus, aw.inject(name, pdus[0]), c['mtu'])
            else:
                lone = [aw.inject(name, p) for p in pdus]
                aw.restore()
                aw.inject(name, pdus[0], settle=False)
                early = aw.take(name)
                probs = judge_pair(pdus[0], pdus[1], early + aw.inject(name, pdus[1]), c['mtu'], lone[0], lone[1])
            msgs += [msg for chk, _, msg in probs if chk == check]
    elif mode == 'mtu_state':
        with A.AttWorld() as aw:
            aw.set_database(shape_spec('std', 1, None, 0))
            st = core.Stats('replay')
            m = c['mtu']
            if m >= 23:
                bearer_for(aw, 'att', m, st)
                if m in QUICK_MTUS:
                    bearer_for(aw, 'eatt', m, st)
                msgs += [x.message for x in st.violations]
            else:
                aw.inject('att', A.req_exchange_mtu(m))
                if aw.s_conn.att_mtu != 23:
                    msgs.append(f'after Exchange MTU client={m} the bearer ATT_MTU is {aw.s_conn.att_mtu}')
    elif mode == 'notify':
        st = w_notify([(c['mtu'], [c['L']], c.get('emtu', c['mtu']))])
        close_world()
        msgs += [x.message for x in st.violations if x.check == check]
    elif mode == 'indications':
        with A.AttWorld() as aw:
            names, attrs, cccds = setup_indication_world(aw)
            bad, problems, _ = run_indication_history(aw, tuple(c['hist']), names, attrs, cccds, probe=bool(c.get('probe')))
            if bad and check == 'two_unconfirmed_indications':
                msgs.append(bad)
            msgs += [m for chk, _, m in problems if chk == check]
    elif mode == 'eatt_l2cap':
        with A.AttWorld() as aw:
            db = aw.set_database(shape_spec('std', 3, None, 0))
            name = bearer_for(aw, 'eatt', c['mtu'], core.Stats('replay'))
            val = next(r['handle'] for r in db.rows if r['role'] == 'chr_value')
            aw.inject(name, bytes.fromhex(c['first']), l2cap=True)
            rep = aw.inject(name, A.req_read(val), l2cap=True)
            if not (len(rep) == 1 and A.answers(0x0A, rep[0])):
                msgs.append(f'Read Request after {c["first"]} on EATT got {[r.hex() for r in rep]}')
    elif mode == 'seams':
        seen = []
        for forward in (False, True):
            with A.AttWorld(forward=forward) as aw:
                aw.set_database(c['spec'])
                aw.open_eatt('eatt', c['mtu'])
                if c['bearer'] == 'att':
                    aw.inject('att', A.req_exchange_mtu(c['mtu']))
                aw.inject(c['bearer'], bytes.fromhex(c['pdus'][0]), l2cap=True)
                rep = list(aw.peer_rx[c['bearer']]) if forward else list(aw.captured[c['bearer']])
                seen.append(b''.join(rep).hex())
        if seen[0] != seen[1]:
            msgs.append(f'capture seam {seen[0]} vs end-to-end {seen[1]}')
    return msgs


def replay(v: core.Violation):
    c = v.case
    if c.get('mode') == 'multi':
        out = []
        for sub in c['cases']:
            out += replay_one(v.check, sub)
        return out
    return replay_one(v.check, c)
