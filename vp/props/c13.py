"""C13 — pairing ends the same way on both sides, with honest authentication.

Two real bumble Devices (real smp.Manager / Session, PairingConfig, scripted
PairingDelegate per side) pair over the virtual link; the oracle is an
independent reference typed in from Core Vol 3 Part H (Table 2.8 and the
MITM / OOB rules) in vp/harness/c13_pair.py.

sub-checks
  table     : all 400 cells  5x5 IO x {legacy,SC}^2 x MITM^2, all-accept users, bonding, every key
              distributed; + 10 OOB cells; + 8 JSON key store cells.  Each run also re-encrypts on a later
              connection in the same and in swapped roles.
  deviations: single deviations around the cells (thorough: around all 400, plus every pair of deviations around
              the 50 cells with MITM on both sides and equal SC flags) in: bonding per side, key-distribution
              mask slots per side, initiator role (security request), identity-address type / address type of
              the connection, every negative user answer at every prompt of the cell's model, one-bit corruption
              of Confirm / Random / DHKey Check / Public Key at the receiving SMP fixed channel.
  masks     : 16x16 key-distribution masks per side on the cells legacy-JW, legacy-passkey, SC-JW, SC-NC.
  schedules : order-preserving delivery delays (vp/explore.py; channels = HCI both ways, link, and the moment
              a user answers a prompt) on 20 representative cases.

Oracle (judge): (1) both sides conclude and agree; (2) on success both encrypted, at every LL_ENC_REQ the
receiving host's key equals the sender's, same LTK / shared (LTK, EDIV, Rand) triples, IRKs delivered, keys
stored when bonded; (3) on the later connections the central's encrypt() and the peripheral's
long_term_key_provider yield the same key (required for SC, and for legacy in the direction whose ENC bit was
negotiated); (4) both sessions chose the model / display roles of Table 2.8 and the users were asked to do
exactly that; (5) no key is flagged authenticated after Just Works; (6) a negative answer or a corrupted
value never ends in success and a failure never leaves keys in either store.
"""
from __future__ import annotations

import gc
import itertools
import json
import time

from .. import core, explore
from ..harness import c13_pair as H

LEVEL = 'exploration'

ENC, ID, SIGN, LINK = H.ENC, H.ID, H.SIGN, H.LINK


# ---------------------------------------------------------------------------
# the oracle
# ---------------------------------------------------------------------------
def model_name(case):
    sc, method, disp = H.ref_model(case['i'], case['r'])
    return ('sc' if sc else 'legacy') + '/' + method + (('/' + disp) if disp else '')


def dev_kinds(case):
    """Short labels of what differs from an all-accept, bonded, everything-distributed, central-initiated run."""
    out = []
    i, r = case['i'], case['r']
    if not (i['bond'] and r['bond']):
        out.append(f"bond={int(i['bond'])}{int(r['bond'])}")
    if (i['ikd'], i['rkd'], r['ikd'], r['rkd']) != (15, 15, 15, 15):
        out.append('kd')
    if case.get('init', 'central') != 'central':
        out.append(case['init'])
    for me in ('i', 'r'):
        for k, v in sorted((case.get('ans') or {}).get(me, {}).items()):
            out.append(f'{me}.{k}={v}')
    t = case.get('tamper')
    if t:
        out.append(f"tamper:{H.SMP_CODE_NAMES.get(t['code'], t['code'])}>{t['to']}")
    if case.get('addr', 'random') != 'random':
        out.append('addr=' + case['addr'])
    if case.get('store'):
        out.append('store=' + case['store'])
    sp = case.get('speed')
    if sp and tuple(sp) != ('instant', 'instant'):
        out.append(f'users={sp[0]}/{sp[1]}')
    if i.get('oob') or r.get('oob'):
        out.append(f"oob={i.get('oob')}/{r.get('oob')}")
    return out


def side_outcome(evs):
    kinds = {e[0] for e in evs}
    if not kinds:
        return 'none'
    if len(kinds) > 1:
        return 'mixed'
    return kinds.pop()


def all_keys(keys_json):
    return [(n, k) for n, k in (keys_json or {}).items()]


def judge(case, out):
    """-> (violations [(check, signature, message)], outcome-class tuple, info counters dict)."""
    if out.get('harness_error'):
        raise core.HarnessError(f"C13 harness: {out['harness_error']} in {json.dumps(case)}")
    viol = []
    info = {}

    def bad(check, sig, msg):
        viol.append((check, sig, f'[{model} {" ".join(devs) or "base"}] {msg}'))

    ini, rsp = case['i'], case['r']
    sc, method, disp = H.ref_model(ini, rsp)
    nkd_i, nkd_r = H.ref_negotiated_kd(ini, rsp)
    model = model_name(case)
    devs = dev_kinds(case)
    # signatures name the fault / user-answer deviations when there are any (configuration deviations such as masks or
    # bonding then only multiply re-observations of the same failure), else the configuration deviations
    faults = [d for d in devs if d.startswith(('tamper:', 'i.', 'r.'))]
    sig_devs = faults or devs
    base_sig = {'model': model, 'dev': sig_devs}
    cell_sig = {'ini_io': H.IO_NAMES[ini['io']], 'rsp_io': H.IO_NAMES[rsp['io']], 'sc': sc, 'mitm': [ini['mitm'], rsp['mitm']]}

    ev_i, ev_r = out['events']['i'], out['events']['r']
    oi, orr = side_outcome(ev_i), side_outcome(ev_r)
    pr = out['pair_result']
    init_out = 'paired' if pr == 'ok' else ('pending' if pr is None else 'failed')

    # what the scripted users / the wire actually did
    neg = []
    for me in ('i', 'r'):
        for e in out['user'][me]:
            if e[0] in ('accept', 'confirm') and e[1] != 'yes':
                neg.append(f'{me}.{e[0]}={e[1]}')
            elif e[0] == 'compare' and e[2] != 'yes':
                neg.append(f'{me}.compare=no')
            elif e[0] == 'input' and e[1] != 'right':
                neg.append(f'{me}.number={e[1]}')
    if method == 'PK' and disp == 'B':
        # both users type: when both mistype in the same way they have typed the same number, which is a correct entry
        wi = [x[2:] for x in neg if x.startswith('i.number=') and x != 'i.number=none']
        wr = [x[2:] for x in neg if x.startswith('r.number=') and x != 'r.number=none']
        if wi and wr and wi == wr:
            neg = [x for x in neg if x[2:] not in wi]
    for me, peer in (('i', 'r'), ('r', 'i')):
        # 000000 / 999999 typed blindly is a wrong passkey unless it happens to be the displayed one
        shown = [e[1] for e in out['user'][peer] if e[0] == 'display']
        for word, val in (('zero', 0), ('max', 999999)):
            if shown and shown[0] == val:
                neg = [x for x in neg if x != f'{me}.number={word}']
    tampered = bool(out['tamper_applied'])
    honest = not neg and not tampered
    if case.get('tamper') and not tampered:
        info['tamper_not_applicable'] = 1
    want_neg = [d for d in devs if d[:2] in ('i.', 'r.')]
    if want_neg and not neg:
        info['negative_answer_never_prompted'] = 1

    # ---- (1) agreement, no hang ------------------------------------------------
    concluded = False
    pending = []
    if init_out == 'pending':
        pending.append('initiator pair()')
    if oi == 'none':
        pending.append('initiator event')
    if orr == 'none':
        pending.append('responder event')
    if pending or out['hang']:
        bad(
            'never_concludes',
            {'sc': sc, 'dev': sig_devs, 'pending': pending},
            f'pairing did not conclude on both sides at quiescence (+120 s virtual): pending {pending}; '
            f'initiator: pair()={pr} events={[e[0] for e in ev_i]}; responder events={[e[0] for e in ev_r]}; '
            f'loop exceptions={out["loop_exceptions"][:2]}',
        )
    elif 'mixed' in (oi, orr) or init_out != oi:
        bad(
            'side_inconsistent',
            dict(base_sig, pair=init_out, initiator=oi, responder=orr),
            f'one device reports both outcomes: pair()={pr}, initiator events {ev_i}, responder events {ev_r}',
        )
    elif oi != orr:
        bad(
            'outcome_disagree',
            dict(base_sig, initiator=oi, responder=orr),
            f'initiator {oi} (pair()={pr}) but responder {orr} ({[e[1] if e[0] == "failed" else "keys" for e in ev_r]})',
        )
    else:
        concluded = True
    both_paired = concluded and oi == 'paired'
    any_failed = 'failed' in (oi, orr, init_out)

    # ---- (6) negative answers / corrupted values never pair, failure never stores ----
    if both_paired and neg:
        bad('paired_despite_negative_answer', dict(base_sig, answers=neg), f'both sides paired although the user answered {neg}')
    if both_paired and tampered:
        bad('paired_despite_corruption', base_sig, f'both sides paired although {case["tamper"]} was corrupted on the wire')
    if any_failed or neg or tampered:
        for me in ('i', 'r'):
            if out['stores'][me]:
                bad(
                    'keys_stored_after_failure',
                    dict(base_sig, side=me),
                    f'{me} key store holds {list(out["stores"][me])} after a failed / refused pairing (answers {neg}, tamper {case.get("tamper")})',
                )
    if honest and concluded and not both_paired:
        bad(
            'honest_pairing_failed',
            dict(base_sig, initiator=oi),
            f'all users accepted and nothing was corrupted, yet both sides report failure {ev_i} / {ev_r}',
        )

    # ---- (4) association model and roles ----------------------------------------
    rsp_sent = ('i', 2) in out['wire']
    want_disp = {'i': method == 'PK' and disp == 'I', 'r': method == 'PK' and disp == 'R'}
    for me in ('i', 'r'):
        s = out['sessions'].get(me)
        if s is None or not rsp_sent:
            continue
        got = (s['method'], s['sc'], s['display'] if s['method'] == 'PK' else False)
        want = (method, sc, want_disp[me])
        if got != want:
            bad(
                'model_mismatch',
                dict(cell_sig, oob=[ini.get('oob'), rsp.get('oob')], side=me, got=list(got), want=list(want)),
                f'{me} session selected (method, sc, displays)={got}, Table 2.8 / MITM / OOB rules prescribe {want}',
            )
    if rsp_sent and 'i' in out['sessions'] and 'r' in out['sessions']:
        a, b = out['sessions']['i'], out['sessions']['r']
        for f in ('bonding', 'ikd', 'rkd'):
            if a[f] != b[f]:
                bad('negotiation_disagree', dict(base_sig, field=f), f'sessions disagree on {f}: initiator {a[f]} responder {b[f]}')
    want_acts = {'i': set(), 'r': set()}
    if method == 'PK':
        want_acts['i'] = {'display'} if disp == 'I' else {'input'}
        want_acts['r'] = {'display'} if disp == 'R' else {'input'}
    elif method == 'NC':
        want_acts = {'i': {'compare'}, 'r': {'compare'}}
    for me in ('i', 'r'):
        acts = {e[0] for e in out['user'][me] if e[0] in ('display', 'input', 'compare')}
        wrong = (acts != want_acts[me]) if (honest and both_paired) else bool(acts - want_acts[me])
        if wrong:
            bad(
                'user_roles_wrong',
                dict(cell_sig, side=me, got=sorted(acts), want=sorted(want_acts[me])),
                f'{me} user was asked to {sorted(acts)}; the association model prescribes {sorted(want_acts[me])}',
            )
    if method == 'NC' and honest and both_paired:
        nums = [[e[1] for e in out['user'][me] if e[0] == 'compare'] for me in ('i', 'r')]
        if nums[0] != nums[1]:
            bad('nc_numbers_differ', base_sig, f'numeric comparison showed {nums[0]} on the initiator and {nums[1]} on the responder')

    # ---- (2) success: encrypted under one shared key, same keys on both sides ----
    reenc_summary = None
    if both_paired:
        ki, kr = ev_i[0][1], ev_r[0][1]
        for me in ('i', 'r'):
            if not out['encrypted'][me]:
                bad('not_encrypted', dict(base_sig, side=me), f'{me} reports pairing complete but its connection is not encrypted')
        if not out['enc_pairing']:
            bad('not_encrypted', dict(base_sig, side='link'), 'pairing completed without any LL_ENC_REQ')
        for e in out['enc_pairing']:
            if e['answer'] != e['ltk']:
                bad(
                    'pairing_link_key_mismatch',
                    base_sig,
                    f'during pairing the central encrypted with {e["ltk"]} but the peripheral host answers the key request with {e["answer"]}',
                )
        if sc:
            vi = (ki.get('ltk') or {}).get('value')
            vr = (kr.get('ltk') or {}).get('value')
            last = out['enc_pairing'][-1]['ltk'] if out['enc_pairing'] else None
            if not vi or vi != vr or vi != last:
                bad('sc_ltk_differs', base_sig, f'SC LTK initiator {vi} responder {vr} link {last}')
        else:
            def triples(k):
                return {
                    (x['value'], x['ediv'], x['rand'])
                    for n, x in all_keys(k)
                    if n in ('ltk', 'ltk_central', 'ltk_peripheral') and x['value']
                }

            need = bool(nkd_i & ENC) + bool(nkd_r & ENC)
            common = triples(ki) & triples(kr)
            if len(common) < need:
                bad(
                    'legacy_ltk_not_shared',
                    dict(base_sig, need=need, common=len(common)),
                    f'{need} LTK(s) were to be distributed but the two sides have only {len(common)} (LTK, EDIV, Rand) in common: '
                    f'{sorted(triples(ki))} vs {sorted(triples(kr))}',
                )
        if nkd_i & ID and (kr.get('irk') or {}).get('value') != out['irk']['i']:
            bad('irk_wrong', dict(base_sig, side='r'), f'responder holds IRK {kr.get("irk")} for an initiator whose IRK is {out["irk"]["i"]}')
        if nkd_r & ID and (ki.get('irk') or {}).get('value') != out['irk']['r']:
            bad('irk_wrong', dict(base_sig, side='i'), f'initiator holds IRK {ki.get("irk")} for a responder whose IRK is {out["irk"]["r"]}')

        # ---- (5) authenticated only after a MITM-protected model -----------------
        for me, k in (('i', ki), ('r', kr)):
            holders = [('event', k)] + [('store', v) for v in out['stores'][me].values()]
            for where, kk in holders:
                flagged = sorted(n for n, x in all_keys(kk) if x['auth'])
                if flagged and method not in H.MITM_PROTECTED:
                    bad(
                        'authenticated_without_mitm',
                        dict(model=model, side=me, where=where),
                        f'{me} {where} keys {flagged} are marked authenticated after {method}',
                    )
                if method in H.MITM_PROTECTED and any(not x['auth'] for _, x in all_keys(kk)):
                    info['mitm_model_but_key_unauthenticated'] = 1
        if method not in H.MITM_PROTECTED and (out['conn_authenticated']['i'] or out['conn_authenticated']['r']):
            info['connection_authenticated_after_just_works'] = 1
        li, lr = (ki.get('link_key') or {}).get('value'), (kr.get('link_key') or {}).get('value')
        if li and lr and li != lr:
            info['derived_link_keys_differ'] = 1

        # ---- stored, and (3) re-encryption on later connections -------------------
        bonded = ini['bond'] and rsp['bond']
        if bonded:
            for me, k in (('i', ki), ('r', kr)):
                st = out['stores'][me]
                if len(st) != 1 or list(st.values())[0] != k:
                    bad(
                        'keys_not_stored',
                        dict(base_sig, side=me),
                        f'{me} bonded but its key store holds {list(st)} (entry equals the reported keys: {[v == k for v in st.values()]})',
                    )
        if not bonded:
            # without negotiated bonding an implementation may keep the keys or not, but not on one side only (a later
            # connection would find a key at one end and none at the other)
            if bool(out['stores']['i']) != bool(out['stores']['r']):
                bad('keys_stored_on_one_side_only', base_sig, f'bonding flags initiator {ini["bond"]} / responder {rsp["bond"]}: key store of the initiator holds {list(out["stores"]["i"])}, of the responder {list(out["stores"]["r"])}')
        if bonded and case.get('reenc'):
            reenc_summary = []
            if 'error' in out['reenc']:
                raise core.HarnessError(f"C13 harness: reconnection failed: {out['reenc']['error']} in {json.dumps(case)}")
            # name the legacy keys by who distributed them, to describe a mix-up precisely
            names = {}
            if not sc:
                lc, lp = ki.get('ltk_central'), ki.get('ltk_peripheral')
                if lc and lc['value']:
                    names[lc['value']] = 'responder-distributed'
                if lp and lp['value']:
                    names[lp['value']] = 'initiator-distributed'
            else:
                names[(ki.get('ltk') or {}).get('value')] = 'sc-ltk'
            for roles in ('same', 'swapped'):
                r = out['reenc'].get(roles)
                required = sc or bool((nkd_r if roles == 'same' else nkd_i) & ENC)
                used = answered = None
                if r['central_error']:
                    how = 'central_has_no_key'
                elif len(r['enc']) != 1:
                    how = f'{len(r["enc"])}_enc_requests'
                else:
                    e = r['enc'][0]
                    used = names.get(e['ltk'], 'unknown-key' if e['ltk'] else 'empty-key')
                    answered = names.get(e['answer'], 'unknown-key') if e['answer'] else 'no-key'
                    how = 'ok' if e['ltk'] and e['answer'] == e['ltk'] else 'keys_differ'
                reenc_summary.append((roles, required, how))
                if how == 'ok':
                    continue
                if required:
                    bad(
                        'reencryption_key_mismatch',
                        {'sc': sc, 'roles': roles, 'how': how, 'central_used': used, 'peripheral_answered': answered},
                        f'later connection in {roles} roles: {how}: central error {r["central_error"]!r}, LL_ENC_REQ {r["enc"]} '
                        f'(central used {used}, peripheral host answered {answered})',
                    )
                else:
                    info['reenc_not_required_and_failed'] = info.get('reenc_not_required_and_failed', 0) + 1
    rp = out.get('repair')
    if rp:
        # differential: the second pairing of the same two devices (new connection, same configuration and answers)
        # has to end the way the first one did, on both sides, and leave the stores agreeing on the new keys
        first = (out['pair_result'], [(e[0], e[1] if e[0] == 'failed' else None) for e in out['events']['i']][:1], [(e[0], e[1] if e[0] == 'failed' else None) for e in out['events']['r']][:1])
        second = (rp['pair_result'], rp['events']['i'][:1], rp['events']['r'][:1])
        info['second_pairings'] = 1
        if rp['handle_reused']:
            info['second_pairing_on_reused_handle'] = 1
        for e in rp.get('enc') or []:
            if e['answer'] != e['ltk']:
                bad('pairing_link_key_mismatch', {'pairing': 'second', 'sc': bool(ini['sc'] and rsp['sc'])},
                    f'during the second pairing the central encrypted with {e["ltk"]} but the peripheral host answers the key request with {e["answer"]} (a key of the first pairing?)')
        if rp['hang'] or second != first:
            bad(
                'second_pairing_differs',
                {'sc': bool(ini['sc'] and rsp['sc']), 'hang': bool(rp['hang']), 'initiator': (rp['events']['i'] or [[None]])[0][0], 'responder': (rp['events']['r'] or [[None]])[0][0]},
                f'pairing a second time on a new connection (connection handle {"re" if rp["handle_reused"] else "not re"}used): first pairing ended {first}, second {second}{" (never concluded)" if rp["hang"] else ""}',
            )
        elif rp['keys']['i'] and rp['keys']['r'] and ini['bond'] and rsp['bond']:
            for me in ('i', 'r'):
                stv = list(rp['stores'][me].values())
                if len(stv) != 1 or stv[0] != rp['keys'][me][0]:
                    bad('keys_not_stored', {'side': me, 'pairing': 'second'}, f'{me}: after the second pairing its key store holds {list(rp["stores"][me])} which {"differs from" if stv else "lacks"} the keys it reported')
    if out['loop_exceptions']:
        info['runs_with_loop_exceptions'] = 1
    wire_sig = tuple(sorted({(a, c) for a, c in out['wire']}))
    klass = (model, tuple(devs), init_out, oi, orr, wire_sig, tuple(reenc_summary or ()))
    return viol, klass, info


def run_and_judge(case):
    out = H.execute(case, seed=case.get('seed', 0))
    return judge(case, out)


# ---------------------------------------------------------------------------
# enumeration
# ---------------------------------------------------------------------------
def cells():
    out = []
    for ii, ri, sci, scr, mi, mr in itertools.product(range(5), range(5), (0, 1), (0, 1), (0, 1), (0, 1)):
        out.append((ii, ri, sci, scr, mi, mr))
    return out


def base_case(cell, seed=0):
    ii, ri, sci, scr, mi, mr = cell
    c = H.make_case(H.side(ii, sci, mi), H.side(ri, scr, mr))
    c['seed'] = seed
    return c


SPEEDS = (('instant', 'instant'), ('slow', 'instant'), ('instant', 'slow'), ('slow', 'slow'))  # (initiator, responder)
KD_LATTICE = (0, ENC, ID, SIGN, LINK)  # 15 (everything) is the base value
TAMPER_CODES = (3, 4, 13, 12)  # Confirm, Random, DHKey Check, Public Key


def deviations(case, public_ok=False):
    """All single deviations applicable to a base case, as (dimension, patch) with
    patch = list of (path tuple, value)."""
    sc, method, disp = H.ref_model(case['i'], case['r'])
    out = []
    out.append(('bond', [(('i', 'bond'), False)]))
    out.append(('bond', [(('r', 'bond'), False)]))
    for me in ('i', 'r'):
        for slot in ('ikd', 'rkd'):
            for m in KD_LATTICE:
                out.append(('kd', [((me, slot), m)]))
    out.append(('init', [(('init',), 'secreq')]))
    out.append(('addr', [(('addr',), 'default')]))
    if public_ok:
        out.append(('addr', [(('addr',), 'public')]))
    # negative user answers at every prompt the model has
    out.append(('ans', [(('ans', 'r', 'accept'), 'no')]))
    out.append(('ans', [(('ans', 'r', 'accept'), 'raise')]))
    if method == 'JW' and sc:
        for me in ('i', 'r'):
            out.append(('ans', [(('ans', me, 'confirm'), 'no')]))
    if method == 'NC':
        for me in ('i', 'r'):
            out.append(('ans', [(('ans', me, 'compare'), 'no')]))
    if method == 'PK':
        inputs = {'I': ['r'], 'R': ['i'], 'B': ['i', 'r']}[disp]
        for me in inputs:
            for a in ('wrong0', 'wrong10', 'wrong19', 'zero', 'max', 'none'):
                out.append(('ans', [(('ans', me, 'number'), a)]))
    # every negative answer under every combination of user speeds (see harness UserGate)
    for dim, patch in list(out):
        if dim == 'ans':
            for sp in SPEEDS[1:]:
                out.append(('ans', patch + [(('speed',), list(sp))]))
    for sp in SPEEDS[1:]:
        out.append(('speed', [(('speed',), list(sp))]))
    # wire tamper
    for code in TAMPER_CODES:
        if not sc and code in (13, 12):
            continue
        for to in ('i', 'r'):
            nths = (0, 19) if (sc and method == 'PK' and code in (3, 4)) else (0,)
            for nth in nths:
                for byte in ((1, 16) if code in (3, 13) else (1,)):
                    out.append(('tamper', [(('tamper',), {'to': to, 'code': code, 'nth': nth, 'byte': byte})]))
    return out


def apply(case, patches):
    c = json.loads(json.dumps(case))
    for path, val in patches:
        d = c
        for p in path[:-1]:
            d = d.setdefault(p, {})
        d[path[-1]] = val
    expect_fail = bool(c.get('tamper')) or bool(c.get('ans'))
    if expect_fail:
        c['reenc'] = False  # nothing to re-encrypt with; the stores are checked to be empty instead
    return c


def is_symmetric(cell):
    ii, ri, sci, scr, mi, mr = cell
    return sci == scr and mi == 1 and mr == 1


REP_CELLS = {
    # name: (ini_io, rsp_io, sc, mitm)
    'legacy-JW': (3, 3, 0, 0),
    'legacy-PK/I': (0, 2, 0, 1),
    'legacy-PK/R': (2, 0, 0, 1),
    'legacy-PK/B': (2, 2, 0, 1),
    'sc-JW': (3, 3, 1, 0),
    'sc-NC': (1, 1, 1, 1),
    'sc-PK/I': (4, 2, 1, 1),
    'sc-PK/R': (2, 4, 1, 1),
}
MASK_CELLS = ('legacy-JW', 'legacy-PK/I', 'sc-JW', 'sc-NC')


def rep_case(name, seed=0):
    ii, ri, sc, m = REP_CELLS[name]
    return base_case((ii, ri, sc, sc, m, m), seed)


OOB_CELLS = [
    # (ini oob, rsp oob, sc)
    ('sc_peer', 'sc_peer', 1),
    ('sc_peer', 'sc_nopeer', 1),
    ('sc_nopeer', 'sc_peer', 1),
    ('sc_nopeer', 'sc_nopeer', 1),
    ('legacy', 'legacy', 0),
]


# ---------------------------------------------------------------------------
# workers
# ---------------------------------------------------------------------------
def w_cases(arg):
    name, cases, deadline, minimal = arg
    minimal = set(map(tuple, minimal or ()))
    st = core.Stats(name)
    for c in cases:
        if deadline and time.time() > deadline:
            st.cap(f'{name}: wall-clock budget reached, remaining cases skipped')
            st.count('skipped_for_budget')
            continue
        viol, klass, info = run_and_judge(c)
        st.case(c)
        st.add('outcome_classes', klass)
        st.add('models', klass[0])
        st.add('outcomes', klass[2:5])
        for k, n in info.items():
            st.count(k, n)
        if klass[3] == 'paired' and klass[4] == 'paired':
            st.count('runs_paired')
        elif klass[3] == 'failed' and klass[4] == 'failed':
            st.count('runs_failed_both')
        for r in klass[6]:
            st.count(f'reenc_{r[0]}_{"required" if r[1] else "optional"}_{r[2]}')
        for check, sig, msg in viol:
            d = sig.get('dev') or []
            if len(d) > 1 and any((check, x) in minimal for x in d):
                # the same check already fails with one of these deviations alone: the minimal case is reported, not this one
                st.count('double_deviation_reobserves_single')
                continue
            st.violation(check, sig, msg, c)
        if len(st.samples) < 1:
            st.samples.append({'case': c, 'outcome_class': [str(x) for x in klass]})
    return st


def run_batch(ctx, name, cases, deadline=None, minimal=None):
    st = ctx.sub(name)
    if not cases:
        return
    # VERIF_SEED permutes the visiting order only
    k = ctx.seed % max(1, len(cases))
    cases = cases[k:] + cases[:k]
    parts = core.split(cases, ctx.jobs * 6)
    for r in core.pmap(w_cases, [(name, p, deadline, minimal) for p in parts], ctx.jobs):
        st.merge(r)
    ctx.log(f'{name}:', st.summary())


# schedule exploration -------------------------------------------------------
SCHED_CASES = {
    # name: (rep cell, patches)
    'legacy-JW': ('legacy-JW', []),
    'legacy-PK/I': ('legacy-PK/I', []),
    'legacy-PK/R': ('legacy-PK/R', []),
    'legacy-PK/B': ('legacy-PK/B', []),
    'sc-JW': ('sc-JW', []),
    'sc-NC': ('sc-NC', []),
    'sc-PK/I': ('sc-PK/I', []),
    'sc-PK/R': ('sc-PK/R', []),
    'secreq legacy-JW': ('legacy-JW', [(('init',), 'secreq')]),
    'secreq sc-NC': ('sc-NC', [(('init',), 'secreq')]),
    'sc-NC r.compare=no': ('sc-NC', [(('ans', 'r', 'compare'), 'no')]),
    'sc-NC i.compare=no': ('sc-NC', [(('ans', 'i', 'compare'), 'no')]),
    'sc-JW r.confirm=no': ('sc-JW', [(('ans', 'r', 'confirm'), 'no')]),
    'sc-JW i.confirm=no': ('sc-JW', [(('ans', 'i', 'confirm'), 'no')]),
    'legacy-PK/I wrong': ('legacy-PK/I', [(('ans', 'r', 'number'), 'wrong0')]),
    'legacy-PK/R none': ('legacy-PK/R', [(('ans', 'i', 'number'), 'none')]),
    'legacy-PK/R zero': ('legacy-PK/R', [(('ans', 'i', 'number'), 'zero')]),
    'legacy-PK/I zero': ('legacy-PK/I', [(('ans', 'r', 'number'), 'zero')]),
    'sc-PK/R wrong0': ('sc-PK/R', [(('ans', 'i', 'number'), 'wrong0')]),
    'r.accept=no': ('sc-JW', [(('ans', 'r', 'accept'), 'no')]),
    'sc-NC DHKey>r': ('sc-NC', [(('tamper',), {'to': 'r', 'code': 13, 'nth': 0, 'byte': 1})]),
    'sc-NC DHKey>i': ('sc-NC', [(('tamper',), {'to': 'i', 'code': 13, 'nth': 0, 'byte': 1})]),
    'legacy-JW Cfm>i': ('legacy-JW', [(('tamper',), {'to': 'i', 'code': 3, 'nth': 0, 'byte': 1})]),
}


SCHED_DEEP = ('legacy-JW', 'legacy-PK/I', 'legacy-PK/R', 'sc-JW', 'sc-NC', 'sc-NC r.compare=no', 'sc-JW i.confirm=no', 'legacy-PK/I wrong')


def sched_case(params):
    cell, patches = SCHED_CASES[params['name']]
    c = apply(rep_case(cell, params.get('seed', 0)), [(tuple(p), v) for p, v in patches])
    c['reenc'] = False
    return c


def run_sched(params, prefix, fp):
    case = sched_case(params)
    out = H.execute(case, prefix=prefix, fp=fp, explore_sched=True, seed=case.get('seed', 0))
    viol, klass, info = judge(case, out)
    obs = [str(x) for x in klass[2:6]] + [sorted(info)]
    return {'points': out['points'], 'fp': out['fp'], 'obs': obs, 'viol': viol}


# ---------------------------------------------------------------------------
def probe_public_addresses(seed):
    """Can two devices exchange SMP at all over a connection made with public addresses?
    (Not this property's business; when they cannot, that address mode is left out.)"""
    c = rep_case('legacy-JW', seed)
    c['addr'] = 'public'
    c['reenc'] = False
    out = H.execute(c, seed=seed)
    return bool(out['wire'])


def self_check(seed):
    c = rep_case('sc-PK/I', seed)
    a = H.execute(c, seed=seed)
    b = H.execute(c, seed=seed)
    if core.canon_json(a) != core.canon_json(b):
        raise core.HarnessError('C13: two executions of the same case differ (nondeterminism)')


def run(ctx: core.Context) -> int:
    quick = ctx.quick
    only = getattr(ctx, 'only', None)
    seed = ctx.seed
    # wall-clock allowances per phase, measured from the start of the phase: a safety net for an overloaded
    # machine only (when one is hit the evidence says so and `exhaustive` is false); sized at >= 4x the time
    # the phase needs on 16 idle cores
    allow = (
        {'single': 35.0, 'double': 0.0, 'masks': 15.0, 'schedules': 25.0}
        if quick
        else {'single': 180.0, 'double': 240.0, 'masks': 240.0, 'schedules': 200.0}
    )
    self_check(seed)
    public_ok = probe_public_addresses(seed)
    # everything imported so far (bumble is large) is moved out of the collector's sight: without this every
    # generation-2 collection walks the whole heap (4x slower per case) and, in forked workers, un-shares it
    gc.collect()
    gc.freeze()
    notes = []
    if not public_ok:
        notes.append(
            'connections made with public own-addresses are left out: no SMP PDU crosses such a link on this tree '
            '(central->peripheral ACL is not delivered; property C06), so pairing cannot start'
        )

    all_cells = cells()

    if not only or 'table' in only:
        cases = [base_case(c, seed) for c in all_cells]
        for oi, orr, sc in OOB_CELLS:
            for io in (3, 1):
                c = H.make_case(H.side(io, sc, 1, oob=oi), H.side(io, sc, 1, oob=orr))
                c['seed'] = seed
                cases.append(c)
        for name in REP_CELLS:
            c = rep_case(name, seed)
            c['store'] = 'json'
            cases.append(c)
        for name in REP_CELLS:  # pair, disconnect, reconnect, pair again
            c = rep_case(name, seed)
            c['repair'] = True
            cases.append(c)
        run_batch(ctx, 'table', cases)
        ctx.sub('table').notes.extend(notes)

    if not only or 'deviations' in only:
        cases = []
        seen = set()

        def add(c):
            k = core.canon_json(c)
            if k not in seen:
                seen.add(k)
                cases.append(c)

        for cell in all_cells:
            b = base_case(cell, seed)
            devs = deviations(b, public_ok)
            for dim, patch in devs:
                if quick:
                    # quick: configuration deviations (which do not interact with the IO cell) on the 50 symmetric
                    # cells, user-answer and corruption deviations on the 100 cells where both sides ask for MITM
                    if dim in ('ans', 'tamper'):
                        if not (cell[4] and cell[5]):
                            continue
                    elif not is_symmetric(cell):
                        continue
                add(apply(b, patch))
        n1 = len(cases)
        ctx.log(f'deviations: {n1} single')
        run_batch(ctx, 'deviations', cases, deadline=time.time() + allow['single'])
        cases = []
        minimal = sorted({(v.check, d) for v in ctx.sub('deviations').violations for d in v.signature.get('dev') or []})
        if not quick:
            # pairs of deviations from different dimensions on the 50 cells where both sides ask for MITM
            # protection and agree on legacy / SC (one per Table 2.8 entry and pairing flavour)
            for cell in all_cells:
                if not is_symmetric(cell):
                    continue
                b = base_case(cell, seed)
                devs = deviations(b, public_ok)
                for (d1, p1), (d2, p2) in itertools.combinations(devs, 2):
                    if {q[0] for q in p1} & {q[0] for q in p2} or (d1 == 'tamper' and d2 == 'tamper'):
                        continue  # two values for one slot
                    if 'kd' in (d1, d2) and (('addr',), 'default') in (p1[0], p2[0]):
                        continue  # the default identity (public) address needs the identity to be distributed both ways
                    add(apply(b, p1 + p2))
            ctx.log(f'deviations: {len(cases)} double')
            run_batch(ctx, 'deviations', cases, deadline=time.time() + allow['double'], minimal=minimal)

    if not only or 'masks' in only:
        cases = []
        seen = set()
        for name in MASK_CELLS:
            b = rep_case(name, seed)
            if quick and name not in ('legacy-JW', 'sc-NC'):
                continue
            full = (not quick) and name == 'legacy-JW'
            if full:
                quads = itertools.product(range(16), repeat=4)
            else:
                quads = itertools.chain(
                    ((a, b_, 15, 15) for a in range(16) for b_ in range(16)),
                    ((15, 15, a, b_) for a in range(16) for b_ in range(16)),
                    itertools.product((0, ENC, ID, SIGN, LINK, 15), repeat=4) if not quick else (),
                )
            for q in quads:
                c = apply(b, [(('i', 'ikd'), q[0]), (('i', 'rkd'), q[1]), (('r', 'ikd'), q[2]), (('r', 'rkd'), q[3])])
                k = core.canon_json(c)
                if k not in seen:
                    seen.add(k)
                    cases.append(c)
        run_batch(ctx, 'masks', cases, deadline=time.time() + allow['masks'])

    if not only or 'schedules' in only:
        st = ctx.sub('schedules')
        names = [n for n in SCHED_CASES if not (quick and n in ('sc-PK/I', 'sc-PK/R'))]  # 20 passkey rounds = 300 choice points: thorough only
        deep = [n for n in names if not quick and n in SCHED_DEEP]
        t_s = time.time()
        deadline = t_s + allow['schedules']
        runs = 0
        for name in [n for n in names if n not in deep] + deep:
            bound = 2 if name in deep else 1
            params = {'name': name, 'seed': seed}
            if time.time() > deadline:
                st.cap(f'schedules: wall-clock allowance used up before {name}')
                continue
            if bound == 2:
                # only start a depth-2 exploration that fits in what is left of the allowance at the rate measured so far
                alts = sum(p - 1 for p in run_sched(params, {}, None)['points'])
                est = (1 + alts + alts * alts / 2) / max(1.0, runs / max(1e-3, time.time() - t_s))
                if time.time() + est > deadline:
                    st.cap(f'schedules: depth 2 of {name} (~{int(alts * alts / 2)} runs) does not fit the wall-clock allowance; depth 1 done instead')
                    bound = 1
            runs += explore.explore(run_sched, params, bound, ctx.jobs, st, max_runs=None if quick else 20000, label=f'{name}:')
        ctx.log('schedules:', st.summary())

    return core.finish(
        ctx,
        LEVEL,
        rule=(
            'table: every (initiator IO, responder IO, SC per side, MITM per side) cell = 400, + 10 OOB cells + 8 JSON-key-store '
            'cells, all-accept users, bonding, every key distributed, each followed by re-encryption on later connections in same '
            'and swapped roles. deviations: every single deviation in bonding per side, each key-distribution mask slot x '
            '{0,ENC,ID,SIGN,LINK}, security-request initiation, identity-address type, each negative user answer at each prompt of '
            "the cell's model (reject / delegate raises / confirm no / compare no / passkey wrong in bit 0, 10, 19 / 000000 / 999999 typed blindly / no "
            'passkey), each of these under the 4 combinations of instant / slow user per side (slow = every delegate coroutine of that '
            'side, incl. generate_passkey / display_number / key_distribution_response, resolves only when nothing else is runnable), '
            'the 3 non-default user-speed combinations alone, '
            'one-bit corruption of Confirm / Random / DHKey Check / Public Key per direction (first and last passkey round) '
            '[quick: configuration deviations around the 50 cells with MITM on both sides and the same SC flag, answer and '
            'corruption deviations around the 100 cells with MITM on both sides; thorough: all of them around all 400 cells, plus '
            'every pair of deviations around the 50 cells]. masks: 16x16 masks of one side against a peer distributing everything, '
            'for each side [thorough: + the lattice {0,ENC,ID,SIGN,LINK,all}^4, and all 16^4 for legacy Just Works] on 2 (quick) / 4 '
            '(thorough) cells. schedules: all order-preserving delivery delays (HCI both ways, link, and the moment each user '
            'answers) with <= 1 deviation on 21 (quick) / 23 (thorough) representative cases, <= 2 on 8 of them (thorough). '
            'distinct = distinct case (configuration, answers, fault) resp. distinct (schedule prefix, choice fingerprints); '
            'outcome_classes counts distinct (model, deviation kinds, outcome per side, SMP codes seen per direction, '
            're-encryption results).'
        ),
        assumptions=[
            "only bumble's virtual controller and LE transport; CTKD over BR/EDR is not exercised",
            'the virtual controller never asks the peripheral host for its key, so "encrypted under one shared key" is decided at '
            'the host seam: at every LL_ENC_REQ the receiving host\'s long_term_key_provider is asked and compared with the sender\'s key',
            'the later connections use the address type of the distributed identity address',
            'a user who must type a passkey waits until the peer displays it; when both only have keyboards both type an agreed number',
        ],
        extra={'public_address_connections_usable': public_ok},
    )


def replay(v: core.Violation):
    c = v.case
    if isinstance(c, dict) and 'params' in c and 'prefix' in c:
        res = run_sched(c['params'], c['prefix'], None)
        return [m for ck, sig, m in res['viol'] if ck == v.check]
    viol, _, _ = run_and_judge(c)
    want = core.canon_json(v.signature)
    return [m for ck, sig, m in viol if core.canon_json(dict(sig, check=ck)) == want]
