"""C11 — GATT attribute permissions gate every read and write path.

Seam: vp/harness/att_raw.py (raw ATT bytes into the real gatt_server.Server over a real
LE connection, fixed ATT channel and a real EATT channel; replies captured; the link
security state is set on the real device.Connection).

One *target* attribute holds a secret value.  Its permissions run over the permission
lattice, it is placed as a characteristic value (static / dynamic / long), a descriptor,
alone in its type, first / middle / last among three attributes of the same type, and as a
group-type (0x2800) attribute; declarations and the CCCD are targets with their
constructor-given permissions.  For every link security state and bearer, every
reading / writing ATT operation in every parameter form that reaches the target is sent.

Reference (10 lines, from the statement):
   may_read  = READABLE  and (not R_ENC or encrypted) and (not R_AUTHN or authenticated) and not R_AUTHZ
   may_write = WRITEABLE and (not W_ENC or encrypted) and (not W_AUTHN or authenticated) and not W_AUTHZ
(authorisation is never granted by this stack).  Refused read: nothing of the secret in
any reply, not even as a Find By Type Value match; operations with a response answer
with an Error Response whose code corresponds to a requirement that is not met (when the
target is the first/only attribute addressed, and always for Read Multiple).  Refused
write: stored value unchanged, write function not called, Write Request answered with a
corresponding error.
"""
from __future__ import annotations

from .. import core
from ..harness import att_raw as A

LEVEL = 'exploration'

R, W = 0x01, 0x02
R_ENC, W_ENC, R_AUTHN, W_AUTHN, R_AUTHZ, W_AUTHZ = 0x04, 0x08, 0x10, 0x20, 0x40, 0x80
RWP = R | W
P_R, P_WNR, P_W, P_N, P_I = 0x02, 0x04, 0x08, 0x10, 0x20

SECRET7 = bytes.fromhex('c3a94f1be27d58')
SECRET16 = bytes.fromhex('9e41d7b3086cf52aa1e38b5c74d90f26')
SECRET_LONG = bytes.fromhex('5be0cd19137e2179a54ff53a3c6ef372510e527f9b05688c1f83d9abfb41bd6b5d2c8a') * 1  # 35 bytes > MTU 23
NEWVAL = bytes.fromhex('0badf00d')
PUB = [bytes.fromhex('11121314151617'), bytes.fromhex('21222324252627'), bytes.fromhex('31323334353637')]

STATES = {'plain': (False, False), 'encrypted': (True, False), 'encrypted+authenticated': (True, True), 'authenticated_only': (False, True)}
MTU = 23


# ---------------------------------------------------------------------------
# reference predicate
# ---------------------------------------------------------------------------
def failed_read(perms, enc, auth):
    f = []
    if not perms & R:
        # in-tree profiles declare e.g. READ_REQUIRES_ENCRYPTION alone and expect reads to work, so the
        # two ways of lacking READABLE are kept apart in the signatures
        f.append('READABLE_flag' if perms & (R_ENC | R_AUTHN | R_AUTHZ) else 'any_read_permission')
    if perms & R_AUTHZ:
        f.append('authorization')
    if perms & R_AUTHN and not auth:
        f.append('authentication')
    if perms & R_ENC and not enc:
        f.append('encryption')
    return f


def failed_write(perms, enc, auth):
    f = []
    if not perms & W:
        f.append('WRITEABLE_flag' if perms & (W_ENC | W_AUTHN | W_AUTHZ) else 'any_write_permission')
    if perms & W_AUTHZ:
        f.append('authorization')
    if perms & W_AUTHN and not auth:
        f.append('authentication')
    if perms & W_ENC and not enc:
        f.append('encryption')
    return f


CODES = {
    'READABLE_flag': {A.ERR_READ_NOT_PERMITTED},
    'any_read_permission': {A.ERR_READ_NOT_PERMITTED},
    'WRITEABLE_flag': {A.ERR_WRITE_NOT_PERMITTED},
    'any_write_permission': {A.ERR_WRITE_NOT_PERMITTED},
    'authorization': {A.ERR_INSUFF_AUTHORIZATION},
    'authentication': {A.ERR_INSUFF_AUTHENTICATION},
    # without a key to encrypt with, Insufficient Authentication is the spec'd answer too
    'encryption': {A.ERR_INSUFF_ENCRYPTION, A.ERR_INSUFF_AUTHENTICATION},
}


def corresponding_codes(failed):
    out = set()
    for f in failed:
        out |= CODES[f]
    return out


# ---------------------------------------------------------------------------
# placements: each returns (spec, how to find the target row)
# ---------------------------------------------------------------------------
# value_np / value_ro: a characteristic whose declared PROPERTIES do not advertise the operation (notify-only / read-only):
# the properties octet is advice for the peer, the permissions decide
PLACEMENTS = ('value', 'value_dyn', 'value_long', 'descriptor', 'alone', 'first', 'middle', 'last', 'group', 'value_np', 'value_ro', 'descriptor_cccd')


def hexv(b):
    return ['x', b.hex()]


def placement_spec(pl, perms):
    pub = lambda i: ['A0F%d' % i, P_R | P_W, RWP, hexv(PUB[i]), []]
    if pl in ('value', 'value_dyn', 'value_long'):
        val = hexv(SECRET7) if pl == 'value' else hexv(SECRET_LONG) if pl == 'value_long' else ['dyn', 'rw', 0, 0]
        return [['svc', 'A000', True, [pub(0), ['A001', P_R | P_W | P_WNR, perms, val, []], pub(2)]]]
    if pl in ('value_np', 'value_ro'):
        return [['svc', 'A000', True, [pub(0), ['A001', P_N if pl == 'value_np' else P_R, perms, hexv(SECRET7), []], pub(2)]]]
    if pl == 'descriptor':
        return [['svc', 'A000', True, [pub(0), ['A0F1', P_R | P_W, RWP, hexv(PUB[1]), [['A0D1', perms, hexv(SECRET7)]]], pub(2)]]]
    if pl == 'descriptor_cccd':
        # an application-supplied Client Characteristic Configuration descriptor (static value, its own requirement
        # bits: HID-style) on a characteristic that notifies: it is an attribute like any other
        return [['svc', 'A000', True, [pub(0), ['A0F1', P_R | P_W | P_N, RWP, hexv(PUB[1]), [['2902', perms, hexv(SECRET7)]]], pub(2)]]]
    if pl == 'alone':
        return [['svc', 'A000', True, [['A001', P_R | P_W, perms, hexv(SECRET7), []]]]]
    if pl in ('first', 'middle', 'last'):
        k = {'first': 0, 'middle': 1, 'last': 2}[pl]
        return [['svc', 'A000', True, [['A001', P_R | P_W, perms if i == k else RWP, hexv(SECRET7 if i == k else PUB[i]), []] for i in range(3)]]]
    if pl == 'group':
        # a group-type attribute whose value is the secret (16 bytes, like a 128-bit service UUID)
        return [['svc', U128A, True, []], ['raw', '2800', perms, hexv(SECRET16)], ['svc', U128B, True, []]]
    raise ValueError(pl)


U128A = '0102030405060708090a0b0c0d0e0f10'
U128B = '1112131415161718191a1b1c1d1e1f20'


def find_target(db, pl):
    if pl == 'descriptor':
        return next(r for r in db.rows if r['type'] == A.uuid_bytes('A0D1'))
    if pl == 'descriptor_cccd':
        return next(r for r in db.rows if r['type'] == A.uuid_bytes('2902'))
    if pl == 'group':
        return next(r for r in db.rows if r['role'] == 'raw')
    if pl in ('first', 'middle', 'last'):
        vals = [r for r in db.rows if r['role'] == 'chr_value']
        return vals[{'first': 0, 'middle': 1, 'last': 2}[pl]]
    return next(r for r in db.rows if r['type'] == A.uuid_bytes('A001'))


def secret_of(pl):
    return SECRET_LONG if pl == 'value_long' else SECRET16 if pl == 'group' else SECRET7


# ---------------------------------------------------------------------------
# access paths: (path, form, pdu, must_error, sole)
#   must_error: a refused access has to be answered by an access error (target is the
#               first/only attribute the request addresses, or Read Multiple)
#   sole      : the request addresses nothing but the target (any success response is a disclosure)
# ---------------------------------------------------------------------------
def read_forms(db, pl, t):
    h, ty, last = t['handle'], t['type'], db.last
    others = [r['handle'] for r in db.rows if r['handle'] != h and r['role'] in ('chr_value', 'service') and r['perms'] & R and not r['perms'] & 0xFC]
    w = others[0]
    secret = secret_of(pl)
    same_type = [r['handle'] for r in db.rows if r['type'] == ty]
    first_of_type = same_type[0] == h
    out = [
        ('read', 'handle', A.req_read(h), True, True),
        ('read_blob', 'offset0', A.req_read_blob(h, 0), True, True),
        ('read_blob', 'offset1', A.req_read_blob(h, 1), True, True),
        ('read_blob', 'offset_last', A.req_read_blob(h, len(secret) - 1), True, True),
        ('read_blob', 'offset_len', A.req_read_blob(h, len(secret)), True, True),
        ('read_by_type', 'only_it', A.req_read_by_type(h, h, ty), True, True),
        ('read_by_type', 'it_first', A.req_read_by_type(h, 0xFFFF, ty), True, len(same_type) == 1 or same_type[-1] == h),
        ('read_by_type', 'whole_db', A.req_read_by_type(1, 0xFFFF, ty), first_of_type, len(same_type) == 1),
        ('read_by_type', 'uuid128_form', A.req_read_by_type(1, 0xFFFF, u128(ty)), first_of_type, len(same_type) == 1),
        ('read_by_type', 'it_last', A.req_read_by_type(1, h, ty), first_of_type, len(same_type) == 1),
    ]
    for var, path in ((False, 'read_multiple'), (True, 'read_multiple_variable')):
        out += [
            (path, 'only', A.req_read_multiple([h], var), True, True),
            (path, 'twice', A.req_read_multiple([h, h], var), True, True),
            (path, 'first', A.req_read_multiple([h, w], var), True, False),
            (path, 'last', A.req_read_multiple([w, h], var), True, False),
            (path, 'middle', A.req_read_multiple([w, h, w], var), True, False),
        ]
    if pl == 'group' or ty in (A.uuid_bytes('2800'), A.uuid_bytes('2801')):
        out += [
            ('read_by_group_type', 'only_it', A.req_read_by_group_type(h, h, ty), True, True),
            ('read_by_group_type', 'it_first', A.req_read_by_group_type(h, 0xFFFF, ty), True, False),
            ('read_by_group_type', 'whole_db', A.req_read_by_group_type(1, 0xFFFF, ty), first_of_type, False),
            ('read_by_group_type', 'uuid128_form', A.req_read_by_group_type(h, h, u128(ty)), True, True),
        ]
    if len(ty) == 2 and len(secret) <= MTU - 7:
        out += [
            ('find_by_type_value', 'only_it', A.req_find_by_type_value(h, h, ty, secret), False, True),
            ('find_by_type_value', 'whole_db', A.req_find_by_type_value(1, 0xFFFF, ty, secret), False, False),
            ('find_by_type_value', 'it_first', A.req_find_by_type_value(h, 0xFFFF, ty, secret), False, False),
        ]
    return out


def write_forms(db, pl, t):
    h = t['handle']
    return [
        ('write_request', 'value', A.req_write(h, NEWVAL), True),
        ('write_request', 'empty', A.req_write(h, b''), True),
        ('write_request', 'same_length', A.req_write(h, bytes(len(secret_of(pl)))), True),
        # the bytes the attribute already holds: a refusal must not depend on what is written (no value oracle)
        ('write_request', 'current_value', A.req_write(h, secret_of(pl)[:MTU - 3]), True),
        ('write_command', 'current_value', A.req_write(h, secret_of(pl)[:MTU - 3], 0x52), False),
        ('write_command', 'value', A.req_write(h, NEWVAL, 0x52), False),
        ('write_command', 'empty', A.req_write(h, b'', 0x52), False),
        ('signed_write_command', 'value', A.req_write(h, NEWVAL + bytes(12), 0xD2), False),
        ('prepare_execute_write', 'value', A.req_prepare_write(h, 0, NEWVAL), False),
    ]


def u128(t: bytes) -> bytes:
    base = bytes.fromhex('FB349B5F800000800010000000000000')
    return base[:12] + t + base[14:] if len(t) == 2 else t


def contains_secret(reply: bytes, secret: bytes, window=3) -> bool:
    body = reply[1:]
    for i in range(len(secret) - window + 1):
        if secret[i:i + window] in body:
            return True
    return False


def fbtv_lists(reply: bytes, handle: int) -> bool:
    if not reply or reply[0] != 0x07:
        return False
    body = reply[1:]
    return any((body[i] | body[i + 1] << 8) == handle for i in range(0, len(body) - 3, 4))


# ---------------------------------------------------------------------------
# worker
# ---------------------------------------------------------------------------
_AW = None


def world():
    global _AW
    if _AW is None:
        _AW = A.AttWorld()
        _AW.__enter__()
        _AW.open_eatt('eatt', MTU)
    return _AW


class Found:
    def __init__(self):
        self.items = {}

    def add(self, check, sig, msg, case):
        k = (check,) + tuple(sorted(sig.items()))
        if k not in self.items:
            self.items[k] = (check, sig, msg, case)

    def flush(self, st):
        for check, sig, msg, case in self.items.values():
            st.violation(check, sig, msg, case)


def target_state(aw, db, t, pl):
    """(current stored value, number of calls of the write function, of the read function)."""
    if pl == 'value_dyn':
        c = db.cells[0]
        return c.data, c.writes, c.reads
    a = aw.server.attributes[t['handle'] - 1]
    return a.value, 0, 0


def run_case(aw, st, found, pl, perms, state, bearer, record_case=None, how='ctor'):
    """All access paths against one (placement, permissions, link state, bearer).
    how: 'ctor' = the target is constructed with `perms`; 'tighten' / 'loosen' = it is constructed world-accessible /
    fully restricted and the application assigns `perms` to its `permissions` attribute afterwards (what a server that
    locks or unlocks a characteristic at run time does): the permissions in force are the current ones."""
    enc, auth = STATES[state]
    spec = placement_spec(pl, perms if how == 'ctor' else RWP if how == 'tighten' else 0xFC)
    db = aw.set_database(spec)
    if pl == 'value_dyn':
        db.cells[0].data = db.cells[0].initial = SECRET7
    aw.set_security(enc, auth)
    t = find_target(db, pl)
    h = t['handle']
    if how != 'ctor':
        from bumble import att as _att

        aw.server.attributes[h - 1].permissions = _att.Attribute.Permissions(perms)
        t['perms'] = perms
        aw.snapshot()  # restore() goes back to the assigned permissions
    secret = secret_of(pl)
    fr, fw = failed_read(perms, enc, auth), failed_write(perms, enc, auth)
    base = {'placement': pl, 'perms': perms, 'state': state, 'bearer': bearer, 'how': how}
    where = f'[{pl} perms=0x{perms:02X}{"" if how == "ctor" else " assigned at run time (" + how + ")"} link={state} {bearer}]'
    events = {'read': 0, 'write': 0}
    attr = aw.server.attributes[h - 1]
    attr.on('read', lambda *a: events.__setitem__('read', events['read'] + 1))
    attr.on('write', lambda *a: events.__setitem__('write', events['write'] + 1))

    for path, form, pdu, must_error, sole in read_forms(db, pl, t):
        events['read'] = 0
        before = target_state(aw, db, t, pl)
        rep = [r for r in aw.inject(bearer, pdu) if A.is_server_originated(r)]
        op = pdu[0]
        err = A.error_rsp_fields(rep[0]) if len(rep) == 1 else None
        granted = bool(rep) and err is None
        disclosed = any(contains_secret(r, secret) for r in rep) or any(fbtv_lists(r, h) for r in rep)
        st.case(f'{path[:9]}{form[:6]}{len(fr)}{granted:d}{err[2] if err else 0:02x}')
        sig = {'path': path, 'lacking': fr[0] if fr else None, 'bearer': bearer}
        case = dict(base, pdu=pdu.hex(), path=path, form=form)
        if fr:
            st.count('refused_reads')
            if disclosed or (sole and granted and path != 'find_by_type_value'):
                found.add('disclosed', sig, f'{where} {path}/{form} {pdu.hex()} on an attribute that may not be read (unmet: {fr}) was answered {[r.hex() for r in rep]}', case)
            elif not rep:
                found.add('refusal_unanswered', sig, f'{where} {path}/{form} {pdu.hex()} (read must be refused, unmet: {fr}) got no reply at all', case)
            elif must_error:
                if err is None or err[0] != op:
                    found.add('refusal_not_an_error', sig, f'{where} {path}/{form} {pdu.hex()} (unmet: {fr}) answered {[r.hex() for r in rep]} instead of an Error Response', case)
                elif err[2] not in corresponding_codes(fr):
                    found.add('wrong_error_code', dict(sig, code=err[2]), f'{where} {path}/{form} {pdu.hex()} (unmet: {fr}) refused with error 0x{err[2]:02X}, expected one of {sorted(corresponding_codes(fr))}', case)
            if events['read'] or target_state(aw, db, t, pl)[2] != before[2]:
                st.count('value_read_internally_on_refused_read')
        else:
            st.count('allowed_reads')
            if disclosed or granted:
                st.count('allowed_reads_granted')
            st.add('allowed_read_paths', path)

    for path, form, pdu, has_rsp in write_forms(db, pl, t):
        events['write'] = 0
        before = target_state(aw, db, t, pl)
        rep = [r for r in aw.inject(bearer, pdu) if A.is_server_originated(r)]
        if path == 'prepare_execute_write':
            rep += [r for r in aw.inject(bearer, A.req_execute_write(1)) if A.is_server_originated(r)]
        after = target_state(aw, db, t, pl)
        changed = after[0] != before[0] or after[1] != before[1]
        err = A.error_rsp_fields(rep[0]) if rep else None
        st.case(f'{path[:9]}{form[:6]}{len(fw)}{changed:d}{err[2] if err else 0:02x}')
        sig = {'path': path, 'lacking': fw[0] if fw else None, 'bearer': bearer}
        case = dict(base, pdu=pdu.hex(), path=path, form=form)
        if fw:
            st.count('refused_writes')
            if changed:
                found.add('modified', sig, f'{where} {path}/{form} {pdu.hex()} on an attribute that may not be written (unmet: {fw}) changed it: {before[0]!r} -> {after[0]!r} (write function calls {after[1] - before[1]}), reply {[r.hex() for r in rep]}', case)
            elif has_rsp:
                if not rep:
                    found.add('refusal_unanswered', sig, f'{where} {path}/{form} {pdu.hex()} (write must be refused, unmet: {fw}) got no reply at all', case)
                elif err is None or err[0] != pdu[0]:
                    found.add('refusal_not_an_error', sig, f'{where} {path}/{form} {pdu.hex()} (unmet: {fw}) answered {[r.hex() for r in rep]} instead of an Error Response', case)
                elif err[2] not in corresponding_codes(fw):
                    found.add('wrong_error_code', dict(sig, code=err[2]), f'{where} {path}/{form} {pdu.hex()} (unmet: {fw}) refused with error 0x{err[2]:02X}, expected one of {sorted(corresponding_codes(fw))}', case)
            if events['write']:
                st.count('write_event_on_refused_write')
        else:
            st.count('allowed_writes')
            if changed:
                st.count('allowed_writes_stored')
                st.add('allowed_write_paths', path)
        if any(contains_secret(r, secret) for r in rep) and fr:
            found.add('disclosed', dict(sig, lacking=fr[0]), f'{where} {path}/{form} reply {[r.hex() for r in rep]} contains the secret although it may not be read (unmet: {fr})', case)
        aw.restore()
        if pl == 'value_dyn':
            db.cells[0].data = SECRET7
    aw.take_errors()


def w_lattice(item):
    items = [item]
    st = core.Stats('lattice')
    aw = world()
    found = Found()
    for pl, perms_list, states, bearers in items:
        for perms in perms_list:
            for state in states:
                for bearer in bearers:
                    run_case(aw, st, found, pl, perms, state, bearer)
                    st.count('configurations')
                    # permissions assigned after construction: the 32-set lattice on three placements
                    if pl in ('value', 'descriptor', 'middle') and perms in RUNTIME_PERMS:
                        for how in ('tighten', 'loosen'):
                            run_case(aw, st, found, pl, perms, state, bearer, how=how)
                            st.count('configurations_runtime_permissions')
    found.flush(st)
    if items:
        pl, pp, ss, bb = items[0]
        st.samples.append({'placement': pl, 'permissions': [hex(p) for p in pp[:4]], 'link_states': list(ss), 'bearers': list(bb)})
    aw.set_security(False, False)
    return st


# ---------------------------------------------------------------------------
# declarations, CCCD and other constructor-made attributes as targets
# ---------------------------------------------------------------------------
def builtin_spec():
    return [
        ['svc', 'A000', True, [
            ['A001', P_R | P_W | P_N | P_I, RWP, hexv(PUB[0]), [['2901', R, hexv(PUB[1])]]],
            ['A002', P_R, R, hexv(PUB[2]), []],
        ]],
        ['svc', 'A100', False, [['A101', P_R, R, hexv(PUB[1]), []]], [0]],
    ]


def w_builtin(arg):
    states, bearers = arg
    st = core.Stats('builtin')
    aw = world()
    found = Found()
    for state in states:
        enc, auth = STATES[state]
        for bearer in bearers:
            db = aw.set_database(builtin_spec())
            aw.set_security(enc, auth)
            for t in db.rows:
                perms = t['perms']
                fw = failed_write(perms, enc, auth)
                fr = failed_read(perms, enc, auth)
                attr = aw.server.attributes[t['handle'] - 1]
                role = t['role']
                for op, path in ((0x12, 'write_request'), (0x52, 'write_command')):
                    before = attr.value
                    subs_before = dict(aw.server.subscribers.get(aw.bearer(bearer), {}))
                    pdu = A.req_write(t['handle'], b'\x01\x00')
                    rep = [r for r in aw.inject(bearer, pdu) if A.is_server_originated(r)]
                    changed = attr.value is not before and attr.value != before
                    if role == 'cccd':
                        changed = dict(aw.server.subscribers.get(aw.bearer(bearer), {})) != subs_before
                    err = A.error_rsp_fields(rep[0]) if rep else None
                    st.case(f'{role}{path[:7]}{len(fw)}{changed:d}{err[2] if err else 0:02x}')
                    sig = {'path': path, 'lacking': fw[0] if fw else None, 'bearer': bearer, 'target': role}
                    case = {'mode': 'builtin', 'state': state, 'bearer': bearer, 'handle': t['handle'], 'op': op}
                    where = f'[{role} handle {t["handle"]} perms=0x{perms:02X} link={state} {bearer}]'
                    if fw:
                        st.count('refused_writes')
                        if changed:
                            found.add('modified', sig, f'{where} {path} {pdu.hex()} changed an attribute that is not writable: {before!r} -> {attr.value!r}, reply {[r.hex() for r in rep]}', case)
                        elif op == 0x12:
                            if not rep:
                                found.add('refusal_unanswered', sig, f'{where} {path} got no reply', case)
                            elif err is None or err[0] != op:
                                found.add('refusal_not_an_error', sig, f'{where} {path} answered {[r.hex() for r in rep]}', case)
                            elif err[2] not in corresponding_codes(fw):
                                found.add('wrong_error_code', dict(sig, code=err[2]), f'{where} {path} refused with 0x{err[2]:02X}', case)
                    else:
                        st.count('allowed_writes')
                        if changed:
                            st.count('allowed_writes_stored')
                    aw.restore()
                # reads of constructor-made attributes are all allowed on every link state
                rep = [r for r in aw.inject(bearer, A.req_read(t['handle'])) if A.is_server_originated(r)]
                st.case(f'{role}read{len(fr)}{len(rep)}')
                if not fr:
                    st.count('allowed_reads')
                    if rep and rep[0][0] == 0x0B:
                        st.count('allowed_reads_granted')
    found.flush(st)
    aw.set_security(False, False)
    st.samples.append({'database': 'service / include / characteristic declarations, value, user descriptor, CCCD', 'states': list(states), 'bearers': list(bearers)})
    return st


# ---------------------------------------------------------------------------
def perm_sets(quick_small):
    if not quick_small:
        return list(range(256))
    out = []
    for rw in (0, R, W, RWP):
        for req in (0, R_ENC, W_ENC, R_AUTHN, W_AUTHN, R_AUTHZ, W_AUTHZ, 0xFC):
            out.append(rw | req)
    return out


RUNTIME_PERMS = set(perm_sets(True))


def aggregate(st: core.Stats):
    """One finding per failing class.  First the violations that differ only in access
    path / bearer are merged (sorted 'paths' and 'bearers' lists in the signature); then
    classes that fail on exactly the same paths and bearers and differ only in the unmet
    requirement (or the kind of built-in target) are merged into sorted 'lacking' /
    'targets' lists.  A regression on one more path, on one bearer only, or for one more
    requirement changes the signature."""
    groups, order = {}, []
    for v in st.violations:
        sig = dict(v.signature)
        sig.pop('check', None)
        b = sig.pop('bearer', None)
        path = sig.pop('path', None)
        k = core.canon_json([v.check, sig])
        if k not in groups:
            groups[k] = {'check': v.check, 'sig': sig, 'bearers': set(), 'paths': set(), 'msgs': [], 'cases': []}
            order.append(k)
        g = groups[k]
        g['bearers'].add(b)
        g['paths'].add(path)
        g['msgs'].append(v.message)
        g['cases'].append(v.case)
    level2, order2 = {}, []
    for k in order:
        g = groups[k]
        sig = dict(g['sig'])
        lacking = sig.pop('lacking', None)
        target = sig.pop('target', None)
        k2 = core.canon_json([g['check'], sig, sorted(g['paths']), sorted(g['bearers']), target is None])
        if k2 not in level2:
            level2[k2] = {'check': g['check'], 'sig': sig, 'paths': sorted(g['paths']), 'bearers': sorted(g['bearers']), 'lacking': set(), 'targets': set(), 'msgs': [], 'cases': []}
            order2.append(k2)
        h = level2[k2]
        h['lacking'].add(lacking)
        if target is not None:
            h['targets'].add(target)
        h['msgs'] += g['msgs']
        h['cases'] += g['cases']
    st.violations = []
    for k2 in order2:
        h = level2[k2]
        sig = dict(h['sig'], bearers=h['bearers'], paths=h['paths'], lacking=sorted(h['lacking']))
        if h['targets']:
            sig['targets'] = sorted(h['targets'])
        msg = h['msgs'][0] + (f' (+{len(h["msgs"]) - 1} more combinations of path / bearer / unmet requirement)' if len(h['msgs']) > 1 else '')
        st.violation(h['check'], sig, msg, {'mode': 'multi', 'cases': h['cases']})


def run(ctx: core.Context) -> int:
    quick = ctx.quick
    only = getattr(ctx, 'only', None)
    want = lambda name: not only or name in only
    states = ['plain', 'encrypted', 'encrypted+authenticated', 'authenticated_only']  # the last: authenticated (e.g. BR/EDR, or encryption switched off again) but not encrypted
    bearers = ['att', 'eatt']

    if want('lattice'):
        items = []
        for pl in PLACEMENTS:
            perms = perm_sets(quick and pl not in ('value', 'descriptor'))
            for chunk in core.split(perms, 8):
                items.append((pl, chunk, states, bearers))
        st = ctx.sub('lattice')
        for r in core.pmap(w_lattice, items, ctx.jobs):
            st.merge(r)
        aggregate(st)
        ctx.log(f'lattice: configurations={st.counters.get("configurations")} requests={st.evaluations} outcome classes={len(st.distinct)}')

    if want('concurrent'):
        st = ctx.sub('concurrent')
        for r in core.pmap(w_concurrent, core.split(concurrent_cases(), ctx.jobs), ctx.jobs):
            st.merge(r)
        ctx.log('concurrent:', st.summary())

    if want('builtin'):
        st = ctx.sub('builtin')
        for r in core.pmap(w_builtin, [([s], bearers) for s in states], ctx.jobs):
            st.merge(r)
        aggregate(st)

    return core.finish(
        ctx,
        LEVEL,
        rule=(
            'lattice: target permissions = '
            + ('all 256 flag combinations for the characteristic-value and descriptor placements, the 32-set lattice (R/W x {none, each requirement bit, all six}) for the other placements' if quick else 'all 256 flag combinations for every placement') + f' ({len(PLACEMENTS)} placements incl. an application-supplied static CCCD with requirement bits)'
            + f'; x link states {states} x bearers {bearers} x every read form (read, read blob x4 offsets, read by type x5 ranges/forms, read multiple and variable x5 positions, read by group type x4, find by type value x3) '
            'and write form (write request x4 incl. the bytes the attribute already holds, write command x3, signed write, prepare+execute). distinct = (path, form, #unmet requirements, outcome, error code). '
            'concurrent: two links with different security (encrypted+authenticated / plain) asking for one attribute with an asynchronous application callback held open, both orders x every pair of access paths x each requirement bit; run-time assignment of permissions (tighten / loosen) on three placements. builtin: every constructor-made attribute (service/include/characteristic declarations, value, user descriptor, CCCD) x write request/command x read.'
        ),
        assumptions=[
            'link security is the pair (Connection.encryption != 0, Connection.authenticated) set by the harness on the real connection; key size is not modelled',
            'authorisation is never granted (the stack has no authorisation callback)',
            'a disclosure is any 3-byte window of the secret in a reply, a success response to a request addressing only the target, or the target handle in a Find By Type Value response',
            'ATT_MTU 23 on both bearers (permission logic does not depend on it; sizes are C10)',
        ],
        extra={'placements': list(PLACEMENTS), 'link_states': states, 'bearers': bearers},
    )


# ---------------------------------------------------------------------------
def replay_one(check, c):
    st = core.Stats('replay')
    found = Found()
    with A.AttWorld() as aw:
        aw.open_eatt('eatt', MTU)
        if c.get('mode') == 'builtin':
            global _AW
            _AW = aw
            try:
                r = w_builtin(([c['state']], [c['bearer']]))
            finally:
                _AW = None
            return [v.message for v in r.violations if v.check == check and v.case['handle'] == c['handle'] and v.case['op'] == c['op']] or [v.message for v in r.violations if v.check == check]
        run_case(aw, st, found, c['placement'], c['perms'], c['state'], c['bearer'], how=c.get('how', 'ctor'))
    return [msg for (chk, sig, msg, case) in found.items.values() if chk == check and case['path'] == c['path']]


def replay_concurrent(check, c):
    tw = TwoLinkWorld()
    try:
        return [m for ck, _, m in run_concurrent(tw, tuple(c['case'])) if ck == check]
    finally:
        tw.close()


def replay(v: core.Violation):
    if v.case.get('mode') == 'concurrent':
        return replay_concurrent(v.check, v.case)
    c = v.case
    if c.get('mode') == 'multi':
        out = []
        for sub in c['cases']:
            out += replay_one(v.check, sub)
        return out
    return replay_one(v.check, c)


# ---------------------------------------------------------------------------
# concurrent: TWO links with different security ask for the same attribute at the same time.  The server device has an
# encrypted+authenticated link (to device 0) and a plain one (to device 2).  The target's value is produced by an
# asynchronous application callback that the harness holds open, so a request of one link is still being served when the
# other link's request arrives; both orders, every pair of access paths, every single requirement bit.
# ---------------------------------------------------------------------------
class TwoLinkWorld:
    def __init__(self):
        from ..harness.devices import World

        self.w = World(3)
        self.w.__enter__()
        w = self.w
        w.power_on()
        self.dev = w.devices[1]
        self.server = self.dev.gatt_server
        _, self.s_auth = w.connect_le(0, 1)
        _, self.s_plain = w.connect_le(2, 1)
        self.s_auth.encryption = 1
        self.s_auth.authenticated = True
        self.sent = {self.s_auth.handle: [], self.s_plain.handle: []}
        real = self.dev.send_l2cap_pdu

        def send_l2cap_pdu(connection_handle, cid, pdu):
            if cid == A.ATT_CID and connection_handle in self.sent:
                self.sent[connection_handle].append(bytes(pdu))
                return
            real(connection_handle, cid, pdu)

        self.dev.send_l2cap_pdu = send_l2cap_pdu

    def close(self):
        self.w.__exit__(None, None, None)

    def inject(self, conn, pdu):
        try:
            self.dev.l2cap_channel_manager.on_pdu(conn, A.ATT_CID, pdu)
        except Exception:
            pass
        self.w.loop.run_quiescent()


def concurrent_cases():
    forms = ['read', 'read_blob', 'read_by_type', 'read_multiple', 'read_by_group_skip']
    out = []
    for perms_bit in (R_ENC, R_AUTHN):
        for first in ('auth', 'plain'):
            for f1 in ('read', 'read_blob', 'read_by_type', 'read_multiple'):
                for f2 in ('read', 'read_blob', 'read_by_type', 'read_multiple'):
                    out.append(('read', perms_bit, first, f1, f2))
    for perms_bit in (W_ENC, W_AUTHN):
        for first in ('auth', 'plain'):
            for f1 in ('write_request', 'write_command'):
                for f2 in ('write_request', 'write_command'):
                    out.append(('write', perms_bit, first, f1, f2))
    return out


def run_concurrent(tw: TwoLinkWorld, case):
    """-> [(check, sig, msg)]"""
    import asyncio

    from bumble import att, gatt

    kind, bit, first, f1, f2 = case
    loop = tw.w.loop
    gates = []
    state = {'value': bytes(SECRET7), 'reads': 0, 'writes': 0}

    async def rd(connection):
        state['reads'] += 1
        g = loop.create_future()
        gates.append(g)
        await g
        return state['value']

    async def wr(connection, value):
        g = loop.create_future()
        gates.append(g)
        await g
        state['writes'] += 1
        state['value'] = bytes(value)

    server = tw.server
    server.attributes = []
    server.services = []
    server.attributes_by_handle = {}
    server.subscribers = {}
    ch = gatt.Characteristic('A001', gatt.Characteristic.Properties(P_R | P_W | P_WNR), att.Attribute.Permissions(RWP | bit), gatt.CharacteristicValue(read=rd, write=wr))
    pub = gatt.Characteristic('A0F0', gatt.Characteristic.Properties(P_R), att.Attribute.Permissions(RWP), bytes(PUB[0]))
    server.add_service(gatt.Service('A000', [ch, pub]))
    h = ch.handle
    for v in tw.sent.values():
        del v[:]

    def pdu_of(form):
        if form == 'read':
            return A.req_read(h)
        if form == 'read_blob':
            return A.req_read_blob(h, 1)
        if form == 'read_by_type':
            return A.req_read_by_type(h, h, A.uuid_bytes('A001'))
        if form == 'read_multiple':
            return A.req_read_multiple([h, pub.handle])
        if form == 'write_request':
            return A.req_write(h, b'\x0b\xad\xf0\x0d')
        if form == 'write_command':
            return A.req_write(h, b'\x0b\xad\xf0\x0d', op=0x52)
        raise ValueError(form)

    conns = {'auth': tw.s_auth, 'plain': tw.s_plain}
    second = 'plain' if first == 'auth' else 'auth'
    tw.inject(conns[first], pdu_of(f1 if first == 'auth' else f2))
    tw.inject(conns[second], pdu_of(f2 if first == 'auth' else f1))
    for _ in range(6):  # release every application callback that was held, including ones started meanwhile
        for g in list(gates):
            if not g.done():
                g.set_result(None)
        loop.run_quiescent()
    loop.collect_exceptions()
    out = []
    plain_form = f2
    rep = tw.sent[tw.s_plain.handle]
    where = f'[concurrent {kind}, requirement bit 0x{bit:02X}, {first} link first: authorised link {f1}, plain link {plain_form}]'
    sig = {'kind': kind, 'path': plain_form, 'lacking': 'encryption' if bit in (R_ENC, W_ENC) else 'authentication', 'order': first + '_first'}
    if kind == 'read':
        if any(contains_secret(r, SECRET7) for r in rep):
            out.append(('concurrent_disclosed', sig, f'{where}: the plain link was answered {[r.hex() for r in rep]} (contains the secret)'))
        elif len(rep) != 1 or A.error_rsp_fields(rep[0]) is None:
            out.append(('concurrent_refusal_not_an_error', sig, f'{where}: the plain link was answered {[r.hex() for r in rep]} instead of one Error Response'))
        arep = tw.sent[tw.s_auth.handle]
        # (Read Blob of a short value is legitimately answered 'Attribute Not Long')
        if f1 != 'read_blob' and not any(contains_secret(r, SECRET7) for r in arep):
            out.append(('concurrent_authorised_not_served', dict(sig, path=f1), f'{where}: the authorised link was answered {[r.hex() for r in arep]} (its value is missing)'))
    else:
        # exactly the authorised link's write may take effect
        if state['writes'] != 1:
            out.append(('concurrent_modified', sig, f'{where}: the application write callback ran {state["writes"]} time(s), only the authorised link may write (plain link answered {[r.hex() for r in rep]})'))
        if plain_form == 'write_request' and (len(rep) != 1 or A.error_rsp_fields(rep[0]) is None):
            out.append(('concurrent_refusal_not_an_error', sig, f'{where}: the plain link was answered {[r.hex() for r in rep]} instead of one Error Response'))
    return out


def w_concurrent(cases):
    st = core.Stats('concurrent')
    tw = TwoLinkWorld()
    try:
        for case in cases:
            res = run_concurrent(tw, case)
            st.case(case, None)
            for check, sig, msg in res:
                st.violation(check, sig, msg, {'mode': 'concurrent', 'case': list(case)})
        if cases:
            st.samples.append({'case': list(cases[0])})
    finally:
        tw.close()
    return st
