"""C14 — Both crypto back ends agree with each other and with the specification.

Bounded-exhaustive enumeration (engine 2.4) of inputs to the REAL
`bumble.crypto.builtin` and `bumble.crypto.cryptography` primitives and to the
toolbox functions of `bumble.crypto` (run once per back end by rebinding the
module globals `e / aes_cmac / EccKey`, exactly as tests/smp_test.py does).

Oracle = `vp/harness/c14_ref.py`: AES-128 from FIPS-197 (S-box computed from the
field definition), AES-CMAC from RFC 4493, the Security Manager functions from
Core Vol 3 Part H 2.2 in the spec's own byte order, and *affine* short-Weierstrass
arithmetic.  The specification's sample data is typed in below as literals.

Sub-checks
  spec_vectors   every literal against builtin, cryptography and the reference
  aes_e          structured key/block space
  aes_cmac       every message length 0..N x keys (all 4 sub-key branches) x fills
  toolbox        ah c1 s1 f4 f5 f6 g2 h6 h7 : <= k arguments off the spec vector
  p256           public-key derivation, ECDH vs reference, ECDH symmetry in/across back ends
  p256_invalid   peer keys that are not points of P-256 must be rejected by both back ends
  ec_small_dh    the real EccKey/_EllipticCurve/_JacobianPoint code instantiated on tiny
                 prime-order curves (a = p-3): ALL (x, y) in F_p^2 x ALL scalars 1..n-1
  ec_small_arith the Jacobian group law itself (add / double / mul, non-normalised z,
                 infinity, y = 0 on even-order curves, scalars 0..2n+1) vs the affine reference
  rpa            generate_private_address(irk) resolves under irk; under an unrelated key the
                 resolver's answer equals an independent recomputation of ah
  history        per primitive (e, aes_cmac, each toolbox function, long-lived EccKey objects,
                 generate_private_address + long-lived resolvers): all call sequences of length <= 3
                 over {valid K1, valid K2, K1 other data, malformed-length data/key, repeat}; every
                 valid call vs its history-free reference (malformed calls: any outcome, ignored)
  rpa_history    every sequence (length <= 3 quick / 4 thorough) of resolve() calls on ONE
                 long-lived AddressResolver over {genuine RPA, other prand, unrelated IRK with the
                 same prand, flipped hash bit, RPA of a second key, static, identity, generated}
"""
from __future__ import annotations

import contextlib
import itertools

from .. import core
from ..harness import c14_ref as R

LEVEL = 'exploration'


def H(s: str) -> bytes:
    return bytes.fromhex(s.replace(' ', ''))


def RH(s: str) -> bytes:
    """Spec notation (most significant octet first) -> little-endian bytes used by the toolbox."""
    return H(s)[::-1]


# ---------------------------------------------------------------------------
# back ends
# ---------------------------------------------------------------------------
def backends():
    from bumble.crypto import builtin, cryptography

    return {'builtin': builtin, 'cryptography': cryptography}


@contextlib.contextmanager
def use_backend(mod):
    """Rebind the toolbox's primitives (what tests/smp_test.py's fixture does)."""
    import bumble.crypto as bc

    saved = (bc.e, bc.aes_cmac, bc.EccKey)
    bc.e, bc.aes_cmac, bc.EccKey = mod.e, mod.aes_cmac, mod.EccKey
    try:
        yield bc
    finally:
        bc.e, bc.aes_cmac, bc.EccKey = saved


def attempt(fn, *args):
    """('ok', value) or ('exc', 'TypeName: text')."""
    try:
        return ('ok', fn(*args))
    except Exception as ex:  # noqa: BLE001 - any exception is an observable outcome here
        return ('exc', f'{type(ex).__name__}: {ex}')


def show(v):
    if isinstance(v, (bytes, bytearray)):
        return bytes(v).hex()
    if isinstance(v, tuple) and len(v) == 2 and v[0] in ('ok', 'exc'):
        return show(v[1]) if v[0] == 'ok' else f'raised {v[1]}'
    if isinstance(v, tuple):
        return '(' + ', '.join(show(x) for x in v) + ')'
    if isinstance(v, int):
        return hex(v)
    return repr(v)


def jsonable(v):
    if isinstance(v, (bytes, bytearray)):
        return bytes(v).hex()
    if isinstance(v, (tuple, list)):
        return [jsonable(x) for x in v]
    return v


# ---------------------------------------------------------------------------
# Specification sample data (typed in; each literal is verified against both
# back ends and the reference by the spec_vectors sub-check)
# ---------------------------------------------------------------------------
# (name, key, plaintext, ciphertext) most significant octet first
AES_VECTORS = [
    ('FIPS-197 App.B', '2b7e1516 28aed2a6 abf71588 09cf4f3c', '3243f6a8 885a308d 313198a2 e0370734', '3925841d 02dc09fb dc118597 196a0b32'),
    ('FIPS-197 App.C.1', '00010203 04050607 08090a0b 0c0d0e0f', '00112233 44556677 8899aabb ccddeeff', '69c4e0d8 6a7b0430 d8cdb780 70b4c55a'),
    ('Core Vol6 PartC 1 (SK = e(LTK, SKD))', '4C683841 39F574D8 36BCF34E 9DFB01BF', '02132435 46576879 acbdcedf e0f10213', '99AD1B52 26A37E3E 058E3B8E 27C2C666'),
    ('Core Vol3 PartH D.7 (ah intermediate)', 'ec0234a3 57c8ad05 341010a6 0a397d9b', '00000000 00000000 00000000 00708194', '159d5fb7 2ebe2311 a48c1bdc c40dfbaa'),
    ('RFC 4493 subkey L = AES(K, 0)', '2b7e1516 28aed2a6 abf71588 09cf4f3c', '00000000 00000000 00000000 00000000', '7df76b0c 1ab899b3 3e42f047 b91b546f'),
]

RFC4493_KEY = '2b7e1516 28aed2a6 abf71588 09cf4f3c'
RFC4493_K1 = 'fbeed618 35713366 7c85e08f 7236a8de'
RFC4493_K2 = 'f7ddac30 6ae266cc f90bc11e e46d513b'
RFC4493_MSG = (
    '6bc1bee2 2e409f96 e93d7e11 7393172a ae2d8a57 1e03ac9c 9eb76fac 45af8e51'
    '30c81c46 a35ce411 e5fbc119 1a0a52ef f69f2445 df4f9b17 ad2b417b e66c3710'
)
# (length, mac)  RFC 4493 section 4 examples 1-4 == Core Vol 3 Part H D.1
CMAC_VECTORS = [
    (0, 'bb1d6929 e9593728 7fa37d12 9b756746'),
    (16, '070a16b4 6b4d4144 f79bdd9d d04a287c'),
    (40, 'dfa66747 de9ae630 30ca3261 1497c827'),
    (64, '51f0bebf 7e3b9d92 fc497417 79363cfe'),
]

# Core Vol 2 Part G 7.1.2 (P-256 sample data); set 1 private/public A is also the
# Security Manager debug key pair of Vol 3 Part H 2.3.5.6.1
P256_SETS = [
    dict(
        name='P-256 data set 1 / SM debug key',
        priv_a='3f49f6d4 a3c55f38 74c9b3e3 d2103f50 4aff607b eb40b799 5899b8a6 cd3c1abd',
        priv_b='55188b3d 32f6bb9a 900afcfb eed4e72a 59cb9ac2 f19d7cfb 6b4fdd49 f47fc5fd',
        pub_ax='20b003d2 f297be2c 5e2c83a7 e9f9a5b9 eff49111 acf4fddb cc030148 0e359de6',
        pub_ay='dc809c49 652aeb6d 63329abf 5a52155c 766345c2 8fed3024 741c8ed0 1589d28b',
        pub_bx='1ea1f0f0 1faf1d96 09592284 f19e4c00 47b58afd 8615a69f 559077b2 2faaa190',
        pub_by='4c55f33e 429dad37 7356703a 9ab85160 472d1130 e28e3676 5f89aff9 15b1214a',
        dhkey='ec0234a3 57c8ad05 341010a6 0a397d9b 99796b13 b4f866f1 868d34f3 73bfa698',
    ),
    dict(
        name='P-256 data set 2',
        priv_a='06a51669 3c9aa31a 6084545d 0c5db641 b48572b9 7203ddff b7ac73f7 d0457663',
        priv_b='529aa067 0d72cd64 97502ed4 73502b03 7e8803b5 c60829a5 a3caa219 505530ba',
        pub_ax='2c31a47b 5779809e f44cb5ea af5c3e43 d5f8faad 4a8794cb 987e9b03 745c78dd',
        pub_ay='91951218 3898dfbe cd52e240 8e43871f d0211091 17bd3ed4 eaf84377 43715d4f',
        pub_bx='f465e43f f23d3f1b 9dc7dfc0 4da87581 84dbc966 204796ec cf0d6cf5 e16500cc',
        pub_by='0201d048 bcbbd899 eeefc424 164e33c2 01c2b010 ca6b4d43 a8a155ca d8ecb279',
        dhkey='ab85843a 2f6d883f 62e5684b 38e30733 5fe6e194 5ecd1960 4105c6f2 3221eb69',
    ),
]
# 2G on P-256 (well-known multiple, used as a literal check of the reference and both back ends)
P256_2G = (
    '7CF27B18 8D034F7E 8A523803 04B51AC3 C08969E2 77F21B35 A60B48FC 47669978',
    '07775510 DB8ED040 293D9AC6 9F7430DB BA7DADE6 3CE98229 9E04B79D 227873D1',
)

_U = '20b003d2 f297be2c 5e2c83a7 e9f9a5b9 eff49111 acf4fddb cc030148 0e359de6'
_V = '55188b3d 32f6bb9a 900afcfb eed4e72a 59cb9ac2 f19d7cfb 6b4fdd49 f47fc5fd'
_X = 'd5cb8454 d177733e ffffb2ec 712baeab'
_Y = 'a6e8e7cc 25a75f6e 216583f7 ff3dc4cf'
_DH = 'ec0234a3 57c8ad05 341010a6 0a397d9b 99796b13 b4f866f1 868d34f3 73bfa698'
_A1 = '00561237 37bfce'
_A2 = '00a71370 2dcfc1'
_MACKEY = '2965f176 a1084a02 fd3f6a20 ce636e20'
_LTK = '69867911 69d7cd23 980522b5 94750a38'
_KEY16 = 'ec0234a3 57c8ad05 341010a6 0a397d9b'


def toolbox_vectors():
    """name -> (function name, args (toolbox byte order), expected).  Core Vol 3 Part H
    2.2.3 / 2.2.4 (c1, s1 worked examples) and Appendix D.2 - D.12."""
    return {
        'c1 (2.2.3 example)': (
            'c1',
            (bytes(16), RH('5783D52156AD6F0E6388274EC6702EE0'), RH('07071000000101'), RH('05000800000302'), 1, 0, RH('A1A2A3A4A5A6'), RH('B1B2B3B4B5B6')),
            RH('1e1e3fef878988ead2a74dc5bef13b86'),
        ),
        's1 (2.2.4 example)': (
            's1',
            (bytes(16), RH('000F0E0D0C0B0A091122334455667788'), RH('010203040506070899AABBCCDDEEFF00')),
            RH('9a1fe1f0e8b0f49b5b4216ae796da062'),
        ),
        'f4 (D.2)': ('f4', (RH(_U), RH(_V), RH(_X), b'\x00'), RH('f2c916f1 07a9bd1c f1eda1be a974872d')),
        'f5 (D.3)': ('f5', (RH(_DH), RH(_X), RH(_Y), RH(_A1), RH(_A2)), (RH(_MACKEY), RH(_LTK))),
        'f6 (D.4)': (
            'f6',
            (RH(_MACKEY), RH(_X), RH(_Y), RH('12a3343b b453bb54 08da42d2 0c2d0fc8'), RH('010102'), RH(_A1), RH(_A2)),
            RH('e3c47398 9cd0e8c5 d26c0b09 da958f61'),
        ),
        'g2 (D.5)': ('g2', (RH(_U), RH(_V), RH(_X), RH(_Y)), 0x2F9ED5BA),
        'h6 (D.6)': ('h6', (RH(_KEY16), H('6c656272')), RH('2d9ae102 e76dc91c e8d3a9e2 80b16399')),
        'ah (D.7)': ('ah', (RH(_KEY16), RH('708194')), RH('0dfbaa')),
        'h7 (D.8)': ('h7', (H('00000000 00000000 00000000 746D7031'), RH(_KEY16)), RH('fb173597 c6a3c0ec d2998c2a 75a57011')),
    }


# D.9 - D.12: key conversion chains built from h6 / h7  (keyIDs: tmp1, lebr, tmp2, brle)
CHAIN_VECTORS = [
    ('LTK->link key CT2=1 (D.9)', '368df9bc e3264b58 bd066c33 334fbf64', True, '746D7031', '6c656272', '287ad379 dca40253 0a39f1f4 3047b835'),
    ('LTK->link key CT2=0 (D.10)', '368df9bc e3264b58 bd066c33 334fbf64', False, '746D7031', '6c656272', 'bc1ca4ef 633fc1bd 0d8230af ee388fb0'),
    ('link key->LTK CT2=1 (D.11)', '05040302 01000908 07060504 03020100', True, '746D7032', '62726c65', 'e85e09eb 5eccb3e2 69418a13 3211bc79'),
    ('link key->LTK CT2=0 (D.12)', '05040302 01000908 07060504 03020100', False, '746D7032', '62726c65', 'a813fb72 f1a3dfa1 8a2c9a43 f10d0a30'),
]

REF_FN = {
    'ah': R.sm_ah, 'c1': R.sm_c1, 's1': R.sm_s1, 'f4': R.sm_f4, 'f5': R.sm_f5,
    'f6': R.sm_f6, 'g2': R.sm_g2, 'h6': R.sm_h6, 'h7': R.sm_h7,
}  # fmt: skip


# ---------------------------------------------------------------------------
# generic three-way comparison
# ---------------------------------------------------------------------------
def compare3(st, check, sig_base, case, ref_value, outcomes, what):
    """outcomes: {backend name: ('ok', v) | ('exc', text)}.  The reference stands for the
    specification; each back end must equal it (hence each other)."""
    bad = False
    for name, out in outcomes.items():
        if out != ('ok', ref_value):
            bad = True
            st.violation(
                check,
                dict(sig_base, backend=name),
                f'{what}: {name} back end gives {show(out)}, specification/reference gives {show(ref_value)}'
                + ''.join(f'; {o} gives {show(v)}' for o, v in outcomes.items() if o != name),
                case,
            )
    return not bad


# ---------------------------------------------------------------------------
# spec_vectors
# ---------------------------------------------------------------------------
def w_spec_vectors(_arg):
    st = core.Stats('spec_vectors')
    bes = backends()

    def ref_must(name, got, want):
        if got != want:
            raise core.HarnessError(f'C14 reference or literal wrong for {name}: reference {show(got)} literal {show(want)}')

    for name, k, p, c in AES_VECTORS:
        k, p, c = H(k), H(p), H(c)
        ref_must(name, R.aes128(k, p), c)
        ref_must(name + ' (fast)', R.FastAES(k).encrypt(p), c)
        outs = {b: attempt(lambda m=m: m.e(k[::-1], p[::-1])[::-1]) for b, m in bes.items()}
        st.case(('aes', name))
        st.add('vectors', name)
        compare3(st, 'spec_vector', {'vector': name}, {'kind': 'aes', 'key': k.hex(), 'pt': p.hex(), 'ct': c.hex()}, c, outs, f'e on {name}')

    key = H(RFC4493_KEY)
    L, k1, k2 = R.cmac_subkeys(key)
    ref_must('RFC4493 K1', k1, H(RFC4493_K1))
    ref_must('RFC4493 K2', k2, H(RFC4493_K2))
    # builtin sub-key derivation observed directly
    # (an internal of the fallback, observed when it exists under this name; the MACs below are what counts)
    try:
        cm = ('ok', (lambda o: (o._k1, o._k2))(bes['builtin']._CMAC(key=key, msg=b'')))
    except (AttributeError, TypeError):
        cm = None
        st.count('builtin_cmac_subkeys_not_observable')
    if cm is not None:
        st.case(('cmac-subkeys',))
        st.add('vectors', 'RFC4493 subkeys')
        compare3(st, 'spec_vector', {'vector': 'RFC4493 subkeys K1,K2'}, {'kind': 'subkeys', 'key': key.hex(), 'k1': k1.hex(), 'k2': k2.hex()}, (k1, k2), {'builtin': cm}, 'CMAC sub-keys')
    msg = H(RFC4493_MSG)
    for n, mac in CMAC_VECTORS:
        mac = H(mac)
        name = f'RFC4493 example len={n}'
        ref_must(name, R.aes_cmac(key, msg[:n]), mac)
        outs = {b: attempt(m.aes_cmac, msg[:n], key) for b, m in bes.items()}
        st.case(('cmac', n))
        st.add('vectors', name)
        compare3(st, 'spec_vector', {'vector': name}, {'kind': 'cmac', 'key': key.hex(), 'msg': msg[:n].hex(), 'mac': mac.hex()}, mac, outs, f'aes_cmac on {name}')

    for name, (fn, args, want) in toolbox_vectors().items():
        ref_must(name, REF_FN[fn](*args), want)
        outs = {}
        for b, m in bes.items():
            with use_backend(m) as bc:
                outs[b] = attempt(getattr(bc, fn), *args)
        st.case(('toolbox', name))
        st.add('vectors', name)
        compare3(st, 'spec_vector', {'vector': name}, {'kind': 'toolbox', 'fn': fn, 'args': jsonable(args), 'want': jsonable(want)}, want, outs, name)

    for name, src, ct2, id1, id2, want in CHAIN_VECTORS:
        src, want, id1, id2 = RH(src), RH(want), H(id1), H(id2)

        def chain(h6, h7):
            inter = h7(bytes(12) + id1, src) if ct2 else h6(src, id1)
            return h6(inter, id2)

        ref_must(name, chain(R.sm_h6, R.sm_h7), want)
        outs = {}
        for b, m in bes.items():
            with use_backend(m) as bc:
                outs[b] = attempt(chain, bc.h6, bc.h7)
        st.case(('chain', name))
        st.add('vectors', name)
        compare3(st, 'spec_vector', {'vector': name}, {'kind': 'chain', 'src': src.hex(), 'ct2': ct2, 'id1': id1.hex(), 'id2': id2.hex(), 'want': want.hex()}, want, outs, name)

    I = lambda s: int.from_bytes(H(s), 'big')
    for ds in P256_SETS:
        name = ds['name']
        A = (I(ds['pub_ax']), I(ds['pub_ay']))
        Bp = (I(ds['pub_bx']), I(ds['pub_by']))
        ref_must(name + ' pubA', R.p256_mul(I(ds['priv_a'])), A)
        ref_must(name + ' pubB', R.p256_mul(I(ds['priv_b'])), Bp)
        ref_must(name + ' dhkey', R.p256_mul(I(ds['priv_a']), Bp)[0], I(ds['dhkey']))
        for who, priv, pub, peer in (('A', 'priv_a', ('pub_ax', 'pub_ay'), ('pub_bx', 'pub_by')), ('B', 'priv_b', ('pub_bx', 'pub_by'), ('pub_ax', 'pub_ay'))):
            want = (H(ds[pub[0]]), H(ds[pub[1]]), H(ds['dhkey']))

            def run(m):
                k = m.EccKey.from_private_key_bytes(H(ds[priv]))
                return (k.x, k.y, k.dh(H(ds[peer[0]]), H(ds[peer[1]])))

            outs = {b: attempt(run, m) for b, m in bes.items()}
            st.case(('p256', name, who))
            st.add('vectors', f'{name} side {who}')
            compare3(st, 'spec_vector', {'vector': f'{name} side {who}'}, {'kind': 'p256', 'priv': ds[priv], 'peer': [ds[peer[0]], ds[peer[1]]], 'want': jsonable(want)}, want, outs, f'{name} (public key x, y, DHKey) side {who}')
    g2 = (I(P256_2G[0]), I(P256_2G[1]))
    ref_must('2G', R.p256_mul(2), g2)
    want = (H(P256_2G[0]), H(P256_2G[1]))
    outs = {b: attempt(lambda m=m: (lambda k: (k.x, k.y))(m.EccKey.from_private_key_bytes((2).to_bytes(32, 'big')))) for b, m in bes.items()}
    st.case(('p256', '2G'))
    st.add('vectors', 'P-256 2G')
    compare3(st, 'spec_vector', {'vector': 'P-256 2G'}, {'kind': 'p256pub', 'priv': (2).to_bytes(32, 'big').hex(), 'want': jsonable(want)}, want, outs, 'public key of d=2')
    # debug key constants in bumble.smp are the spec's
    from bumble import smp

    got = (smp.SMP_DEBUG_KEY_PRIVATE, smp.SMP_DEBUG_KEY_PUBLIC_X, smp.SMP_DEBUG_KEY_PUBLIC_Y)
    want = (H(P256_SETS[0]['priv_a']), H(P256_SETS[0]['pub_ax']), H(P256_SETS[0]['pub_ay']))
    st.case(('debugkey',))
    st.add('vectors', 'smp debug key constants')
    if got != want:
        st.violation('spec_vector', {'vector': 'smp debug key constants', 'backend': 'smp'}, f'bumble.smp debug key constants {show(got)} differ from the specification {show(want)}', {'kind': 'debugconst'})
    st.samples.append({'vector': 'f5 (D.3)', 'args': jsonable(toolbox_vectors()['f5 (D.3)'][1])})
    return st


# ---------------------------------------------------------------------------
# aes_e
# ---------------------------------------------------------------------------
ZERO16, ONES16 = bytes(16), b'\xff' * 16
COUNTER16 = bytes(range(16))


def bit_block(i: int) -> bytes:
    return (1 << i).to_bytes(16, 'big')


def byte_at(pos: int, val: int, base: bytes = ZERO16) -> bytes:
    b = bytearray(base)
    b[pos] = val
    return bytes(b)


def e_space(quick: bool):
    """Yields (class, key, block), spec byte order."""
    for i in range(128):
        for other in (ZERO16, ONES16):
            yield ('single_bit_key', bit_block(i), other)
            yield ('single_bit_block', other, bit_block(i))
    for b in range(256):
        rep = bytes([b]) * 16
        yield ('byte_replicated', rep, rep)
        yield ('byte_replicated', rep, ZERO16)
        yield ('byte_replicated', ZERO16, rep)
    for pos in range(16):
        for val in range(256):
            yield ('byte_position_key', byte_at(pos, val), COUNTER16)
            yield ('byte_position_block', ZERO16, byte_at(pos, val))
        for val in (0x00, 0x01, 0x80, 0xFF):
            yield ('byte_position_key', byte_at(pos, val, COUNTER16), COUNTER16)
            yield ('byte_position_block', COUNTER16, byte_at(pos, val, COUNTER16))
    if not quick:
        for i in range(128):
            for j in range(128):
                yield ('bit_key_x_bit_block', bit_block(i), bit_block(j))
        for pi in range(16):
            for pj in range(16):
                for vi in (0x01, 0x80, 0xFF):
                    for vj in (0x01, 0x80, 0xFF):
                        yield ('byte_key_x_byte_block', byte_at(pi, vi), byte_at(pj, vj))


def eval_e(st, bes, cls, key, block):
    ref = R.aes128(key, block)[::-1]
    kl, bl = key[::-1], block[::-1]
    outs = {b: attempt(m.e, kl, bl) for b, m in bes.items()}
    return compare3(st, 'e_mismatch', {'fn': 'e', 'space': cls}, {'cls': cls, 'key': key.hex(), 'block': block.hex()}, ref, outs, f'e(key={key.hex()}, block={block.hex()}) [spec byte order]')


def w_aes_e(cases):
    st = core.Stats('aes_e')
    bes = backends()
    for cls, key, block in cases:
        st.case((key, block))
        st.add('classes', cls)
        eval_e(st, bes, cls, key, block)
    if cases:
        st.samples.append({'class': cases[0][0], 'key': cases[0][1].hex(), 'block': cases[0][2].hex()})
    return st


# ---------------------------------------------------------------------------
# aes_cmac
# ---------------------------------------------------------------------------
def cmac_keys():
    """Structured keys, plus the first byte-replicated key for each of the four
    (msb(L), msb(K1)) sub-key derivation branches (found with the reference)."""
    keys = [H(RFC4493_KEY), ZERO16, ONES16, COUNTER16, bit_block(0), bit_block(127)]
    need = {(a, b) for a in (0, 1) for b in (0, 1)}
    for b in range(256):
        k = bytes([b]) * 16
        L, k1, _ = R.cmac_subkeys(k)
        br = (L[0] >> 7, k1[0] >> 7)
        if br in need:
            need.discard(br)
            if k not in keys:
                keys.append(k)
        if not need:
            break
    return keys


BOUNDARY_BYTES = (0x00, 0x01, 0x7F, 0x80, 0x81, 0xFE, 0xFF)
_SUBKEY_SEARCH = {}


def subkey_first_bytes(key: bytes):
    """(L[0], K1[0]) for a CMAC key, with the reference."""
    L = R.FastAES(key).encrypt(bytes(16))
    return L[0], ((L[0] << 1) | (L[1] >> 7)) & 0xFF  # the Rb xor only touches the last byte


def subkey_boundary_keys(all_values: bool = False):
    """Deterministic search (keys 0, 1, 2, ... as 128-bit big-endian integers) for CMAC keys
    whose L = AES_K(0) and whose K1 have a FIRST BYTE equal to each wanted value: the branch
    conditions of the sub-key derivation look at that byte, so every boundary value of it is a
    distinct input class.  Returns {('L', v) | ('K1', v): key}; wanted values are the 7
    boundary bytes, or all 256 (all_values)."""
    if all_values in _SUBKEY_SEARCH:
        return _SUBKEY_SEARCH[all_values]
    wanted = range(256) if all_values else BOUNDARY_BYTES
    need = {(w, v) for w in ('L', 'K1') for v in wanted}
    found = {}
    i = 0
    while need:
        key = i.to_bytes(16, 'big')
        l0, k10 = subkey_first_bytes(key)
        for tag in (('L', l0), ('K1', k10)):
            if tag in need:
                need.discard(tag)
                found[tag] = key
        i += 1
        assert i < 1 << 20, 'sub-key boundary search did not converge'
    # second opinion from the textbook reference
    for (w, v), key in found.items():
        L, k1, _ = R.cmac_subkeys(key)
        assert (L[0] if w == 'L' else k1[0]) == v
    _SUBKEY_SEARCH[all_values] = found
    return found


def cmac_fill(kind: str, n: int) -> bytes:
    if kind == 'zeros':
        return bytes(n)
    if kind == 'ones':
        return b'\xff' * n
    if kind == 'counter':
        return bytes((i * 7 + 1) & 0xFF for i in range(n))
    if kind == 'pad_like':  # looks like RFC 4493 padding: ...80 00 00
        return bytes(0x80 if i % 16 == (n - 1) % 16 // 2 else 0 for i in range(n))
    raise ValueError(kind)


def cmac_len_class(n: int) -> str:
    if n == 0:
        return 'empty'
    blocks = (n + 15) // 16
    return ('full' if n % 16 == 0 else 'partial') + ('_1' if blocks == 1 else '_2' if blocks == 2 else '_n')


def cmac_space(quick: bool):
    lengths = list(range(0, 81)) if quick else list(range(0, 161)) + [255, 256, 257, 1023, 1024, 1025, 4095, 4096, 4097]
    fills = ['zeros', 'counter', 'ones'] + ([] if quick else ['pad_like'])
    base_keys = cmac_keys()
    for key in base_keys:
        for n in lengths:
            for f in fills:
                yield (key, n, f)
    # sub-key derivation boundaries: first byte of L and of K1 at every boundary value,
    # crossed with every length 0..80 (all residues, empty / partial / full last block)
    seen = set(base_keys)
    for _tag, key in sorted(subkey_boundary_keys(False).items()):
        if key in seen:
            continue
        seen.add(key)
        for n in range(0, 81):
            for f in fills[:3]:
                yield (key, n, f)
    # ... and at all 256 values, crossed with block-boundary lengths (quick) / 0..48 (thorough)
    short = [0, 1, 15, 16, 17, 31, 32, 33] if quick else list(range(0, 49))
    for _tag, key in sorted(subkey_boundary_keys(True).items()):
        if key in seen:
            continue
        seen.add(key)
        for n in short:
            for f in (['counter'] if quick else ['counter', 'zeros']):
                yield (key, n, f)


def eval_cmac(st, bes, key, n, fill):
    msg = cmac_fill(fill, n)
    ref = R.aes_cmac(key, msg)
    outs = {b: attempt(m.aes_cmac, msg, key) for b, m in bes.items()}
    return compare3(st, 'cmac_mismatch', {'fn': 'aes_cmac', 'len_class': cmac_len_class(n)}, {'key': key.hex(), 'n': n, 'fill': fill}, ref, outs, f'aes_cmac(len={n}, fill={fill}, key={key.hex()})')


def w_aes_cmac(cases):
    st = core.Stats('aes_cmac')
    bes = backends()
    for key, n, fill in cases:
        st.case((key, n, fill), nontrivial=True)
        st.add('len_mod_16', n % 16)
        st.add('len_classes', cmac_len_class(n))
        L, k1, _ = R.cmac_subkeys(key)
        st.add('subkey_branches', (L[0] >> 7, k1[0] >> 7))
        st.add('keys', key)
        st.add('L_first_byte_values', L[0])
        st.add('K1_first_byte_values', k1[0])
        if L[0] in BOUNDARY_BYTES:
            st.add('L_first_byte_boundary_x_len_mod_16', (L[0], n % 16))
        if k1[0] in BOUNDARY_BYTES:
            st.add('K1_first_byte_boundary_x_len_mod_16', (k1[0], n % 16))
        eval_cmac(st, bes, key, n, fill)
    if cases:
        st.samples.append({'key': cases[0][0].hex(), 'len': cases[0][1], 'fill': cases[0][2]})
    return st


# ---------------------------------------------------------------------------
# toolbox
# ---------------------------------------------------------------------------
def arg_domain(base):
    """Alternatives for one argument (the spec-vector value is the base)."""
    if isinstance(base, int):
        return [v for v in (0, 1) if v != base]
    n = len(base)
    alts = [bytes(n), b'\xff' * n, bytes(range(1, n + 1)), b'\x01' + bytes(n - 1), bytes(n - 1) + b'\x80']
    out = []
    for a in alts:
        if a != base and a not in out:
            out.append(a)
    return out


def toolbox_space(max_off: int):
    """(fn, args) with <= max_off arguments off the spec vector."""
    for name, (fn, base, _want) in toolbox_vectors().items():
        doms = [arg_domain(a) for a in base]
        for k in range(0, max_off + 1):
            for idxs in itertools.combinations(range(len(base)), k):
                for vals in itertools.product(*(doms[i] for i in idxs)):
                    args = list(base)
                    for i, v in zip(idxs, vals):
                        args[i] = v
                    yield (fn, tuple(args), k)


# which argument is the AES-CMAC key, and whether the toolbox byte-reverses it first
CMAC_KEY_ARG = {'f4': (2, True), 'g2': (2, True), 'f6': (0, True), 'h6': (0, True), 'h7': (0, False)}


def f5_boundary_w(all_values: bool):
    """f5 keys its second CMAC with T = AES-CMAC_SALT(W): search W = 0, 1, 2, ... (256-bit
    big-endian) until T's L / K1 first bytes have taken every wanted value."""
    wanted = range(256) if all_values else BOUNDARY_BYTES
    need = {(w, v) for w in ('L', 'K1') for v in wanted}
    out = []
    i = 0
    while need:
        w_be = i.to_bytes(32, 'big')
        t = R.aes_cmac(R.F5_SALT, w_be)
        l0, k10 = subkey_first_bytes(t)
        hit = {('L', l0), ('K1', k10)} & need
        if hit:
            need -= hit
            out.append(w_be[::-1])
        i += 1
        assert i < 1 << 20
    return out


def toolbox_key_space(quick: bool):
    """(fn, args, k): every CMAC-based toolbox function with its KEY argument at each
    sub-key boundary key (first byte of L / K1 in the boundary set; thorough: all 256 values),
    alone and together with one other argument off the spec vector."""
    vec = {fn: base for (fn, base, _w) in toolbox_vectors().values()}
    keys = [k for _t, k in sorted(subkey_boundary_keys(False).items())]
    more = [] if quick else [k for _t, k in sorted(subkey_boundary_keys(True).items()) if k not in keys]
    for fn, (idx, rev) in CMAC_KEY_ARG.items():
        base = vec[fn]
        doms = [arg_domain(a) for a in base]
        for n, key in enumerate(keys + more):
            args = list(base)
            args[idx] = key[::-1] if rev else key
            yield (fn, tuple(args), 1)
            if n >= len(keys):
                continue
            for j in range(len(base)):
                if j == idx:
                    continue
                for alt in doms[j]:
                    a2 = list(args)
                    a2[j] = alt
                    yield (fn, tuple(a2), 2)
    base = vec['f5']
    doms = [arg_domain(a) for a in base]
    ws = f5_boundary_w(False)
    for n, w in enumerate(ws + ([] if quick else [w for w in f5_boundary_w(True) if w not in ws])):
        args = list(base)
        args[0] = w
        yield ('f5', tuple(args), 1)
        if n >= len(ws):
            continue
        for j in range(1, len(base)):
            for alt in doms[j]:
                a2 = list(args)
                a2[j] = alt
                yield ('f5', tuple(a2), 2)


def cmac_key_of(fn, args):
    """The AES-CMAC key(s) a toolbox call uses (most significant octet first), for coverage."""
    if fn in CMAC_KEY_ARG:
        idx, rev = CMAC_KEY_ARG[fn]
        return [args[idx][::-1] if rev else args[idx]]
    if fn == 'f5':
        return [R.F5_SALT, R.aes_cmac(R.F5_SALT, args[0][::-1])]
    return []


def eval_toolbox(st, bes, fn, args):
    ref = REF_FN[fn](*args)
    outs = {}
    for b, m in bes.items():
        with use_backend(m) as bc:
            outs[b] = attempt(getattr(bc, fn), *args)
    return compare3(st, 'toolbox_mismatch', {'fn': fn}, {'fn': fn, 'args': jsonable(args)}, ref, outs, f'{fn}{show(tuple(args))}')


def w_toolbox(cases):
    st = core.Stats('toolbox')
    bes = backends()
    for fn, args, k in cases:
        st.case((fn, args), nontrivial=k > 0)
        st.add('functions', fn)
        st.add('args_off_vector', k)
        for key in cmac_key_of(fn, args):
            l0, k10 = subkey_first_bytes(key)
            if l0 in BOUNDARY_BYTES:
                st.add('fn_x_L_first_byte_boundary', (fn, l0))
            if k10 in BOUNDARY_BYTES:
                st.add('fn_x_K1_first_byte_boundary', (fn, k10))
        eval_toolbox(st, bes, fn, args)
    if cases:
        st.samples.append({'fn': cases[-1][0], 'args': jsonable(cases[-1][1]), 'args_off_spec_vector': cases[-1][2]})
    return st


# ---------------------------------------------------------------------------
# P-256
# ---------------------------------------------------------------------------
N = R.P256_N
P = R.P256_P


def p256_scalars(quick: bool):
    s = [1, 2, 3, 4, 5, N - 1, N - 2, N - 3, (N - 1) // 2, (N + 1) // 2]
    ks = range(8, 256, 31) if quick else range(2, 256)
    for k in ks:
        for d in (-1, 0, 1):
            s.append((1 << k) + d)
    s.append(int('55' * 32, 16) % N)
    s.append(int('aa' * 32, 16) % N)
    s.append(((1 << 256) - 1) % N)
    s.append(P % N)  # p reduced mod n
    for ds in P256_SETS:
        s.append(int.from_bytes(H(ds['priv_a']), 'big'))
        s.append(int.from_bytes(H(ds['priv_b']), 'big'))
    out = []
    for v in s:
        assert 1 <= v < N
        if v not in out:
            out.append(v)
    return out


def p256_small_x_points(count: int):
    pts, x = [], 0
    while len(pts) < count:
        pt = R.p256_lift_x(x)
        if pt:
            pts.append(pt)
        x += 1
    return pts


def p256_points():
    """Peer public keys (all on the curve): small multiples of G, -G, -2G, points with the
    smallest x coordinates (both signs of y), the spec sample public keys."""
    pts = [R.P256_G, R.p256_mul(2), R.p256_mul(3), R.p256_mul(N - 1), R.p256_mul(N - 2), R.p256_mul((N + 1) // 2)]
    for x, y in p256_small_x_points(4):
        pts.append((x, y))
        pts.append((x, P - y))
    I = lambda s: int.from_bytes(H(s), 'big')
    for ds in P256_SETS:
        pts.append((I(ds['pub_ax']), I(ds['pub_ay'])))
        pts.append((I(ds['pub_bx']), I(ds['pub_by'])))
    for pt in pts:
        assert R.p256_on_curve(pt)
    return pts


def b32(v: int) -> bytes:
    return v.to_bytes(32, 'big')


def eval_pub(st, bes, d):
    ref = R.p256_mul(d)
    want = (b32(ref[0]), b32(ref[1]))

    def run(m):
        k = m.EccKey.from_private_key_bytes(b32(d))
        return (k.x, k.y)

    outs = {b: attempt(run, m) for b, m in bes.items()}
    return compare3(st, 'p256_mismatch', {'op': 'public_key'}, {'op': 'pub', 'd': hex(d)}, want, outs, f'public key of d={hex(d)}')


def eval_dh(st, bes, d, pt):
    ref = R.p256_mul(d, pt)
    want = b32(ref[0])
    outs = {b: attempt(lambda m=m: m.EccKey.from_private_key_bytes(b32(d)).dh(b32(pt[0]), b32(pt[1]))) for b, m in bes.items()}
    return compare3(st, 'p256_mismatch', {'op': 'dh'}, {'op': 'dh', 'd': hex(d), 'x': hex(pt[0]), 'y': hex(pt[1])}, want, outs, f'dh(d={hex(d)}, peer=({hex(pt[0])}, {hex(pt[1])}))')


def eval_sym(st, bes, da, db):
    """d_a * (d_b G) == d_b * (d_a G), inside each back end and across them."""
    ref = R.p256_mul(da * db % N)
    want = b32(ref[0])
    ok = True
    for na, ma in bes.items():
        for nb, mb in bes.items():

            def run():
                ka = ma.EccKey.from_private_key_bytes(b32(da))
                kb = mb.EccKey.from_private_key_bytes(b32(db))
                return (ka.dh(kb.x, kb.y), kb.dh(ka.x, ka.y))

            out = attempt(run)
            if out != ('ok', (want, want)):
                ok = False
                st.violation(
                    'p256_mismatch',
                    {'op': 'symmetry', 'backend': f'{na}/{nb}'},
                    f'ECDH not symmetric/correct: side A ({na}, d_a={hex(da)}) and side B ({nb}, d_b={hex(db)}) computed {show(out)}; expected both {want.hex()}',
                    {'op': 'sym', 'da': hex(da), 'db': hex(db)},
                )
    return ok


def w_p256(items):
    st = core.Stats('p256')
    bes = backends()
    for it in items:
        op = it[0]
        st.add('ops', op)
        if op == 'pub':
            st.case(('pub', it[1]))
            st.add('scalars', it[1])
            eval_pub(st, bes, it[1])
        elif op == 'dh':
            st.case(('dh', it[1], it[2]))
            st.add('scalars', it[1])
            st.add('peer_points', it[2])
            eval_dh(st, bes, it[1], it[2])
        else:
            st.case(('sym', it[1], it[2]))
            eval_sym(st, bes, it[1], it[2])
    if items:
        st.samples.append({'op': items[0][0], 'operands': [hex(v) if isinstance(v, int) else [hex(c) for c in v] for v in items[0][1:]]})
    return st


# -- invalid peer keys -------------------------------------------------------
M256 = (1 << 256) - 1


def invalid_class(x: int, y: int) -> str:
    """Class of a pair that does not satisfy the curve equation.  A pair with a coordinate
    >= p whose residues DO satisfy the equation ('alias_mod_p') is *not* treated as an invalid
    key: the statement only speaks of keys that are 'not a point on P-256', and such a pair
    names an on-curve point in a non-canonical way; for it the oracle only demands that a back
    end which accepts it yields the secret of the reduced point (rejecting it is fine too)."""
    if (x >= P or y >= P) and R.p256_on_curve((x % P, y % P)):
        return 'alias_mod_p'
    if x >= P or y >= P:
        return 'coordinate_out_of_range'
    if y == 0:
        return 'y_zero'
    return 'off_curve'


def p256_invalid_points():
    """(class, note, x, y): pairs of 32-byte integers that are NOT points of P-256
    (classified by the reference, not by construction)."""
    bases = [R.P256_G, R.p256_mul(2)] + p256_small_x_points(3)
    I = lambda s: int.from_bytes(H(s), 'big')
    bases.append((I(P256_SETS[0]['pub_bx']), I(P256_SETS[0]['pub_by'])))
    bases.append((I(P256_SETS[1]['pub_ax']), I(P256_SETS[1]['pub_ay'])))
    bases.append(R.p256_mul(N - 1))
    cands = []
    for x, y in bases:
        cands += [
            ('y+1', x, (y + 1) % P), ('y-1', x, (y - 1) % P), ('x+1', (x + 1) % P, y), ('swapped', y, x),
            ('-y+1', x, (P - y + 1) % P), ('y=0', x, 0), ('x=0', 0, y), ('y=p', x, P), ('x=p', P, y),
            ('x+p', x + P, y), ('y+p', x, y + P), ('y=2^256-1', x, M256), ('x=2^256-1', M256, y),
        ]  # fmt: skip
    cands += [('(0,0)', 0, 0), ('(0,1)', 0, 1), ('(1,1)', 1, 1), ('(p-1,p-1)', P - 1, P - 1), ('(p,p)', P, P), ('(p,0)', P, 0), ('(max,max)', M256, M256), ('(1,0)', 1, 0)]
    out, seen = [], set()
    for note, x, y in cands:
        if x > M256 or y > M256 or (x, y) in seen:
            continue
        seen.add((x, y))
        if R.p256_on_curve((x, y)):
            continue  # e.g. x=0 when (0, y) happens to be the base point itself
        out.append((invalid_class(x, y), note, x, y))
    return out


def p256_invalid_scalars():
    I = lambda s: int.from_bytes(H(s), 'big')
    return [1, 2, 3, 4, I(P256_SETS[0]['priv_a']), I(P256_SETS[0]['priv_b']), N - 1, N - 2, 1 << 128]


def eval_invalid(st, bes, cls, note, x, y, d):
    """Any exception counts as rejection; returning bytes is 'producing a shared secret'."""
    ok = True
    if cls == 'alias_mod_p':
        want = b32(R.p256_mul(d, (x % P, y % P))[0])
        outs = {name: attempt(lambda m=m: m.EccKey.from_private_key_bytes(b32(d)).dh(b32(x), b32(y))) for name, m in bes.items()}
        kinds = {o[0] for o in outs.values()}
        case = {'curve': 'P-256', 'x': hex(x), 'y': hex(y), 'd': hex(d), 'class': cls, 'note': note}
        for name, out in outs.items():
            st.add('outcomes', (name, cls, 'rejected' if out[0] == 'exc' else 'accepted'))
            st.count(f'{name}_alias_' + ('rejected' if out[0] == 'exc' else 'accepted'))
            if out[0] == 'ok' and out[1] != want:
                ok = False
                st.violation('alias_mismatch', {'backend': name, 'what': 'wrong_secret'}, f'{name} dh on non-canonical coordinates x={hex(x)} y={hex(y)} d={hex(d)} gives {show(out)}, the reduced point gives {want.hex()}', case)
        if len(kinds) > 1:
            # outside the quantified domain (coordinate pairs are field elements): one back end
            # validating the range and the other reducing mod p is recorded, not flagged
            st.count('alias_accept_vs_reject_differences')
        return ok
    for name, m in bes.items():
        out = attempt(lambda: m.EccKey.from_private_key_bytes(b32(d)).dh(b32(x), b32(y)))
        st.add('outcomes', (name, cls, 'rejected' if out[0] == 'exc' else 'accepted'))
        if out[0] == 'exc':
            st.count(f'{name}_rejected')
            continue
        st.count(f'{name}_accepted')
        ok = False
        st.violation(
            'invalid_public_key_accepted',
            {'backend': name, 'class': cls},
            f'{name} EccKey.dh accepted a peer public key that is not a point of the curve [{cls}: {note}]: '
            f'x={hex(x)} y={hex(y)} d={hex(d)} -> shared secret {show(out[1])}',
            {'curve': 'P-256', 'x': hex(x), 'y': hex(y), 'd': hex(d), 'class': cls, 'note': note},
        )
    return ok


def w_p256_invalid(items):
    st = core.Stats('p256_invalid')
    bes = backends()
    for cls, note, x, y, d in items:
        st.case((x, y, d))
        st.add('classes', cls)
        st.add('points', (x, y))
        eval_invalid(st, bes, cls, note, x, y, d)
    if items:
        st.samples.append({'class': items[0][0], 'note': items[0][1], 'x': hex(items[0][2]), 'y': hex(items[0][3]), 'd': hex(items[0][4])})
    return st


# ---------------------------------------------------------------------------
# small curves: the builtin EC code on F_p, p in {23, 97, 251}
# ---------------------------------------------------------------------------
def make_curve(p, b, n, g):
    from bumble.crypto import builtin

    return builtin._EllipticCurve(p=p, a=p - 3, b=b, n=n, g_x=g[0], g_y=g[1])


def small_dh_one(curve_mod, keys, tabs, p, a, b, x, y, st=None):
    """All scalars 1..n-1 against the peer pair (x, y).  Returns list of (class, k, detail)."""
    bad = []
    xb, yb = b32(x), b32(y)
    onc = R.on_curve((x, y), a, b, p)
    alias = (not onc) and R.on_curve((x % p, y % p), a, b, p)
    if alias:
        # non-canonical name of an on-curve point: may be rejected, but an accepted one must
        # give the secret of the reduced point (see invalid_class)
        tab = tabs[(x % p, y % p)]
        acc = 0
        for k, key in keys:
            try:
                got = key.dh(xb, yb)
            except Exception:  # noqa: BLE001
                continue
            acc += 1
            if got != b32(tab[k][0]):
                bad.append(('on_curve_wrong', k, got.hex() if isinstance(got, bytes) else repr(got), b32(tab[k][0]).hex()))
        if st is not None:
            st.count('alias_dh_accepted', acc)
            st.count('alias_dh_rejected', len(keys) - acc)
    elif onc:
        tab = tabs[(x, y)]
        for k, key in keys:
            try:
                got = key.dh(xb, yb)
            except Exception as ex:  # noqa: BLE001
                bad.append(('on_curve_wrong', k, f'raised {type(ex).__name__}: {ex}', b32(tab[k][0]).hex()))
                continue
            if got != b32(tab[k][0]):
                bad.append(('on_curve_wrong', k, got.hex() if isinstance(got, bytes) else repr(got), b32(tab[k][0]).hex()))
    else:
        cls = invalid_class_small(x, y, p)
        acc = 0
        for k, key in keys:
            try:
                got = key.dh(xb, yb)
            except Exception:  # noqa: BLE001
                continue
            acc += 1
            bad.append((cls, k, got.hex() if isinstance(got, bytes) else repr(got), None))
        if st is not None:
            st.count('offcurve_dh_accepted', acc)
            st.count('offcurve_dh_rejected', len(keys) - acc)
    return onc, bad


def invalid_class_small(x, y, p):
    if x >= p or y >= p:
        return 'coordinate_out_of_range'
    if y == 0:
        return 'y_zero'
    return 'off_curve'


def small_setup(p, b):
    from bumble.crypto import builtin

    a = p - 3
    pts = R.curve_points(p, a, b)
    n = len(pts) + 1
    curve = make_curve(p, b, n, pts[0])
    keys = [(k, builtin.EccKey(builtin._EllipticCurve.PrivateKey(k, curve))) for k in range(1, n)]
    return a, pts, n, curve, keys


def report_small(st, p, b, n, x, y, bad):
    for cls, k, got, want in bad:
        if cls == 'on_curve_wrong':
            st.violation(
                'ec_small_dh_mismatch',
                {'p': p, 'what': 'dh'},
                f'builtin EC code on y^2=x^3-3x+{b} over F_{p} (order {n}): dh(k={k}, ({x},{y})) gives {got}, affine reference gives {want}',
                {'p': p, 'b': b, 'x': x, 'y': y, 'k': k},
            )
        else:
            st.violation(
                'invalid_public_key_accepted',
                {'backend': 'builtin', 'class': cls},
                f'builtin EccKey.dh on the small curve y^2=x^3-3x+{b} over F_{p} accepted ({x},{y}), which is not a point of the curve [{cls}], '
                f'with k={k}: shared secret {got}',
                {'curve': 'small', 'p': p, 'b': b, 'x': x, 'y': y, 'k': k, 'class': cls},
            )


def w_ec_small_dh(arg):
    p, b, xs, full_plane, with_range = arg
    st = core.Stats('ec_small_dh')
    a, pts, n, curve, keys = small_setup(p, b)
    on_x = {}
    for x, y in pts:
        on_x.setdefault(x, []).append(y)
    xset = set(xs)
    # reference multiples k*P, k = 0..n, by repeated affine addition, for the peers this slice owns
    tabs = {pt: R.multiples_table(pt, n, a, p) for pt in pts if pt[0] in xset or pt == pts[0]}
    st.add('curves', (p, b, n))
    for x in xs:
        ys = range(p) if full_plane else on_x.get(x, [])
        for y in ys:
            onc, bad = small_dh_one(None, keys, tabs, p, a, b, x, y, st)
            st.evaluations += len(keys)
            st.distinct.add(f'{p}/{b}/{x}/{y}')
            st.count('on_curve_points' if onc else 'off_curve_pairs')
            report_small(st, p, b, n, x, y, bad)
            if not onc and with_range and y in (0, 1, p - 1):
                # an off-curve pair with a coordinate >= p
                for x2, y2 in ((x + p, y), (x, y + p)):
                    _, bad2 = small_dh_one(None, keys, tabs, p, a, b, x2, y2, st)
                    st.evaluations += len(keys)
                    st.distinct.add(f'{p}/{b}/{x2}/{y2}')
                    st.count('out_of_range_pairs')
                    report_small(st, p, b, n, x2, y2, bad2)
            if onc and with_range:
                # the same point with a coordinate shifted by p (non-canonical alias)
                for x2, y2 in ((x + p, y), (x, y + p), (x + p, y + p)):
                    _, bad2 = small_dh_one(None, keys, tabs, p, a, b, x2, y2, st)
                    st.evaluations += len(keys)
                    st.distinct.add(f'{p}/{b}/{x2}/{y2}')
                    st.count('alias_mod_p_pairs')
                    report_small(st, p, b, n, x2, y2, bad2)
    # public-key derivation for every scalar (done by the worker that owns x == first x)
    if xs and xs[0] == 0:
        g = pts[0]
        gtab = tabs[g]
        for k, key in keys:
            st.evaluations += 1
            st.distinct.add(f'{p}/{b}/pub/{k}')
            out = attempt(lambda: (key.x, key.y))
            want = (b32(gtab[k][0]), b32(gtab[k][1]))
            if out != ('ok', want):
                st.violation(
                    'ec_small_dh_mismatch',
                    {'p': p, 'what': 'public_key'},
                    f'builtin EC code on y^2=x^3-3x+{b} over F_{p}: public key of k={k} (G={g}) is {show(out)}, reference {show(want)}',
                    {'p': p, 'b': b, 'k': k, 'pub': True},
                )
        st.samples.append({'p': p, 'a': a, 'b': b, 'order': n, 'G': list(g), 'peer_pairs': 'all of F_p^2' if full_plane else 'all on-curve points', 'scalars': f'1..{n - 1}'})
    return st


# -- group law -----------------------------------------------------------------
def jac(builtin, curve, pt, z, p):
    if pt is None:
        # infinity in a non-canonical form as well: any (x, y, 0)
        return builtin._JacobianPoint(curve=curve, x=(z * z) % p, y=(z * z * z) % p, z=0)
    return builtin._JacobianPoint(curve=curve, x=pt[0] * z * z % p, y=pt[1] * z * z * z % p, z=z % p)


def aff(point):
    """builtin _Point -> None | (x, y)"""
    if point.infinite:
        return None
    return (point.x, point.y)


def w_ec_small_arith(arg):
    p, b, quick = arg
    from bumble.crypto import builtin

    st = core.Stats('ec_small_arith')
    a = p - 3
    pts = R.curve_points(p, a, b)
    n = len(pts) + 1
    curve = make_curve(p, b, n, pts[0])
    allp = [None] + pts
    zs = [1, 2, p - 1] if (p < 200 or not quick) else [1, 2]
    kmax = 2 * n + 1
    st.add('curves', (p, b, n, 'prime' if R.is_prime(n) else 'composite'))
    if any(y == 0 for _, y in pts):
        st.add('two_torsion_curves', (p, b))

    def viol(op, msg, case):
        st.violation('ec_small_arith_mismatch', {'p': p, 'op': op}, f'builtin _JacobianPoint on y^2=x^3-3x+{b} over F_{p} (order {n}): {msg}', dict(case, p=p, b=b, op=op))

    # double and to_affine/from_affine round trip
    for pt in allp:
        for z in zs:
            st.evaluations += 1
            st.distinct.add(f'{p}/{b}/dbl/{pt}/{z}')
            j = jac(builtin, curve, pt, z, p)
            if aff(j.to_affine()) != pt:
                viol('to_affine', f'to_affine of {pt} with z={z} gives {aff(j.to_affine())}', {'P': pt, 'z': z})
            got = aff(j.double().to_affine())
            want = R.ec_add(pt, pt, a, p)
            if pt is not None and pt[1] == 0:
                st.count('double_of_two_torsion')
            if got != want:
                viol('double', f'double({pt}, z={z}) = {got}, reference {want}', {'P': pt, 'z': z})
    for pt in pts:
        st.evaluations += 1
        j = builtin._JacobianPoint.from_affine(builtin._Point(curve=curve, x=pt[0], y=pt[1]))
        if aff(j.to_affine()) != pt:
            viol('from_affine', f'from_affine/to_affine of {pt} gives {aff(j.to_affine())}', {'P': pt, 'z': 1})
    st.evaluations += 1
    if aff(builtin._JacobianPoint.from_affine(builtin._Point(curve=curve, infinite=True)).to_affine()) is not None:
        viol('from_affine', 'from_affine(infinity) is not infinity', {'P': None, 'z': 1})

    # addition: all ordered pairs, several representations
    zpairs = [(1, 1), (2, 3), (p - 1, 2)] if (p < 200 or not quick) else [(1, 1), (2, 3)]
    for P1 in allp:
        for P2 in allp:
            want = R.ec_add(P1, P2, a, p)
            kind = 'inf' if (P1 is None or P2 is None) else 'dbl' if P1 == P2 else 'neg' if want is None else 'gen'
            st.add('add_kinds', kind)
            for z1, z2 in zpairs:
                st.evaluations += 1
                got = aff((jac(builtin, curve, P1, z1, p) + jac(builtin, curve, P2, z2, p)).to_affine())
                if got != want:
                    viol('add', f'({P1}, z={z1}) + ({P2}, z={z2}) = {got}, reference {want} [{kind}]', {'P': P1, 'Q': P2, 'z1': z1, 'z2': z2})
            st.distinct.add(f'{p}/{b}/add/{P1}/{P2}')

    # scalar multiplication: every point, every k in 0..2n+1
    for pt in allp:
        tab = R.multiples_table(pt, kmax, a, p)
        for z in zs[:2]:
            j = jac(builtin, curve, pt, z, p)
            for k in range(kmax + 1):
                st.evaluations += 1
                got = aff((j * k).to_affine())
                if got != tab[k]:
                    viol('mul', f'{k} * ({pt}, z={z}) = {got}, reference {tab[k]}', {'P': pt, 'z': z, 'k': k})
        st.distinct.add(f'{p}/{b}/mul/{pt}')
        j = jac(builtin, curve, pt, 1, p)
        for k in (0, 1, 2, n - 1, n, n + 1):
            st.evaluations += 1
            got = aff((k * j).to_affine())
            if got != tab[k]:
                viol('rmul', f'{k} * {pt} (reflected) = {got}, reference {tab[k]}', {'P': pt, 'z': 1, 'k': k})
    # generate_public_key for every k
    gtab = R.multiples_table(pts[0], kmax, a, p)
    for k in range(kmax + 1):
        st.evaluations += 1
        got = aff(curve.generate_public_key(k))
        if got != gtab[k]:
            viol('generate_public_key', f'generate_public_key({k}) = {got}, reference {gtab[k]}', {'k': k})
    st.samples.append({'p': p, 'b': b, 'order': n, 'points': len(pts), 'z_representations': zs, 'scalars': f'0..{kmax}'})
    return st


# ---------------------------------------------------------------------------
# RPA
# ---------------------------------------------------------------------------
IRKS = [RH(_KEY16), bytes(16), b'\xff' * 16, bytes(range(16))]
IDENTITIES = [('C0:01:02:03:04:05', 0), ('F1:F2:F3:F4:F5:F6', 1), ('00:00:00:00:00:01', 0), ('C9:88:77:66:55:44', 1)]


class _FixedSecrets:
    """Stands in for the `secrets` module inside bumble.crypto for the RPA sweep."""

    def __init__(self):
        self.next = bytes(6)

    @property
    def next(self):
        return self._next

    @next.setter
    def next(self, v):  # a new draw under test: forget what was served for the previous one
        self._next = v
        self.served = []
        self.below = []

    def token_bytes(self, n=32):
        assert n == 6, n
        # the draw under test first; should the implementation reject it and draw again (the specification forbids a
        # prand whose random part is all zeros or all ones), later draws differ so that such a loop terminates
        k = len(self.served)
        d = self.next if k == 0 else bytes([(0x21 + 7 * k) & 0xFF, 0x43, 0x15]) + self.next[3:]
        self.served.append(d)
        return d

    def randbelow(self, n):
        # an implementation that draws an integer instead of bytes: the draw under test read as a little-endian number
        # (later draws differ, as above)
        k = len(self.below)
        self.below.append(n)
        v = int.from_bytes(self.next[:3], 'little') + 0x1F3B7 * k
        return v % n


def rpa_raw_space(quick: bool, irk_index: int, backend: str):
    """Raw 3-byte draws (b0, b1, b2) fed to generate_prand (b2's two top bits get overwritten)."""
    b2_all_tops = [0x00, 0x3F, 0x40, 0x55, 0x7F, 0x80, 0xAA, 0xC0, 0xFF]
    b1_struct = [0x00, 0x01, 0x7F, 0x80, 0xFF, 0xA5]
    structured = [(b0, b1, b2) for b2 in b2_all_tops for b1 in b1_struct for b0 in range(256)]
    if quick:
        return structured
    full = irk_index == 0 or (backend == 'cryptography' and irk_index == 3)
    if not full:
        # budget: all 2^22 prands for the spec IRK (both back ends) and the counter IRK (cryptography)
        return structured + [(b0, b1, 0x2A) for b1 in range(256) for b0 in range(256)]
    return None  # means: all 2^22 (b2 in 0..63 raw top bits 00) + the structured top-bit sweep


def rpa_eval(bc, fs, Address, AddressResolver, irk, ident, irk2, ident2, own_aes, other_aes, raw, st, backend, irk_index):
    """One raw draw.  Returns None or (sig_what, message)."""
    fs.next = bytes(raw) + b'\xa5\x5a\xc3'
    addr = Address.generate_private_address(irk)
    used = fs.served[-1] if fs.served else fs.next
    if len(fs.served) > 1:
        st.count('draws_rejected_by_generate', len(fs.served) - 1)
    ab = bytes(addr)
    if fs.served:
        want_prand = bytes([used[0], used[1], (used[2] & 0x3F) | 0x40])
    else:
        # the random part was not taken from token_bytes (e.g. drawn as an integer): judged by what the specification says
        # about a prand - top bits 01, random part neither all zeros nor all ones - and by the hash that goes with it
        want_prand = ab[3:6]
        part = want_prand[0] | want_prand[1] << 8 | (want_prand[2] & 0x3F) << 16
        if len(ab) != 6 or want_prand[2] & 0xC0 != 0x40 or part in (0, 0x3FFFFF):
            return ('generate', f'generate_private_address gave {ab.hex()}: its prand {want_prand.hex()} is not a legal one (top bits 01, random part not all zeros / ones)')
        st.count('prands_not_drawn_as_bytes')
    want_hash = own_aes.encrypt(bytes(13) + want_prand[::-1])[-3:][::-1]
    if ab != want_hash + want_prand:
        return ('generate', f'generate_private_address gave {ab.hex()} for raw draw {bytes(used).hex()}, expected hash||prand = {(want_hash + want_prand).hex()}')
    if not addr.is_resolvable:
        return ('generate', f'generated address {ab.hex()} is not of the resolvable-private form')
    r = AddressResolver([(irk, ident)]).resolve(addr)
    if r is None or bytes(r) != bytes(ident):
        return ('own_key', f'address {ab.hex()} generated from the IRK does not resolve under it (got {r})')
    # the same for an address built independently of bumble's generator from the draw under test (any conformant peer
    # may have generated it), unless the random part of that prand is all zeros / all ones, which the specification forbids
    raw_prand = bytes([raw[0], raw[1], (raw[2] & 0x3F) | 0x40])
    rnd = raw[0] | raw[1] << 8 | (raw[2] & 0x3F) << 16
    if rnd not in (0, 0x3FFFFF) and raw_prand != want_prand:
        h0 = own_aes.encrypt(bytes(13) + raw_prand[::-1])[-3:][::-1]
        a0 = Address(h0 + raw_prand, Address.RANDOM_DEVICE_ADDRESS)
        r0 = AddressResolver([(irk, ident)]).resolve(a0)
        if r0 is None or bytes(r0) != bytes(ident):
            return ('own_key', f'address {bytes(a0).hex()} (ah(IRK, prand) || prand built by the reference) does not resolve under the IRK (got {r0})')
    other_hash = other_aes.encrypt(bytes(13) + want_prand[::-1])[-3:][::-1]
    collide = other_hash == want_hash
    r2 = AddressResolver([(irk2, ident2)]).resolve(addr)
    if collide:
        st.count('legit_hash_collisions')
        if r2 is None or bytes(r2) != bytes(ident2):
            return ('unrelated_key', f'ah(irk2, prand) equals the hash of {ab.hex()} but the resolver returned {r2}')
    elif r2 is not None:
        return ('unrelated_key', f'address {ab.hex()} resolved to {r2} under an unrelated IRK whose ah is {other_hash.hex()} != {want_hash.hex()}')
    return None


def w_rpa(arg):
    backend, irk_index, raws, lo, hi, deep = arg
    import bumble.crypto as bc
    from bumble.hci import Address
    from bumble.smp import AddressResolver

    st = core.Stats('rpa')
    mod = backends()[backend]
    irk = IRKS[irk_index]
    irk2 = IRKS[(irk_index + 1) % len(IRKS)]
    ident = Address(IDENTITIES[irk_index][0], IDENTITIES[irk_index][1])
    ident2 = Address(IDENTITIES[(irk_index + 1) % 4][0], IDENTITIES[(irk_index + 1) % 4][1])
    own_aes, other_aes = R.FastAES(irk[::-1]), R.FastAES(irk2[::-1])
    fs = _FixedSecrets()
    saved = bc.secrets
    bc.secrets = fs
    try:
        with use_backend(mod):
            if raws is None:
                it = ((v & 0xFF, (v >> 8) & 0xFF, v >> 16) for v in range(lo, hi))
            else:
                it = iter(raws)
            cnt = 0
            for raw in it:
                cnt += 1
                res = rpa_eval(bc, fs, Address, AddressResolver, irk, ident, irk2, ident2, own_aes, other_aes, raw, st, backend, irk_index)
                if res:
                    st.violation('rpa', {'backend': backend, 'what': res[0]}, f'[{backend} back end, IRK #{irk_index}] ' + res[1], {'backend': backend, 'irk_index': irk_index, 'raw': list(raw)})
            st.evaluations += cnt
            st.count(f'{backend}_draws', cnt)
            if deep:
                # several keys in one resolver, both orders; plus the slow textbook AES as a second opinion
                for raw in [(0, 0, 0), (0x94, 0x81, 0x70), (0xFF, 0xFF, 0xFF), (1, 2, 3)]:
                    fs.next = bytes(raw) + bytes(3)
                    addr = Address.generate_private_address(irk)
                    prand = bytes(addr)[3:]
                    st.evaluations += 1
                    if bytes(addr)[:3] != R.sm_ah(irk, prand):
                        st.violation('rpa', {'backend': backend, 'what': 'generate'}, f'[{backend}] hash part of {bytes(addr).hex()} differs from textbook ah', {'backend': backend, 'irk_index': irk_index, 'raw': list(raw)})
                    for keys in ([(irk2, ident2), (irk, ident)], [(irk, ident), (irk2, ident2)]):
                        r = AddressResolver(keys).resolve(addr)
                        first_other = keys[0][0] == irk2 and R.sm_ah(irk2, prand) == bytes(addr)[:3]
                        want = ident2 if first_other else ident
                        if r is None or bytes(r) != bytes(want):
                            st.violation('rpa', {'backend': backend, 'what': 'multi_key'}, f'[{backend}] resolver with two keys returned {r} for {bytes(addr).hex()}, expected {want}', {'backend': backend, 'irk_index': irk_index, 'raw': list(raw), 'multi': True})
    finally:
        bc.secrets = saved
    st.distinct.add(f'{backend}/{irk_index}/{lo}/{hi}/{0 if raws is None else len(raws)}')
    st.add('irks', irk_index)
    st.add('backends', backend)
    if deep:
        st.samples.append({'backend': backend, 'irk': irk.hex(), 'identity': IDENTITIES[irk_index][0], 'unrelated_irk': irk2.hex()})
    return st


# ---------------------------------------------------------------------------
# rpa_history: ONE long-lived AddressResolver, every short sequence of queries
# ---------------------------------------------------------------------------
HIST_IRK_A = RH(_KEY16)
HIST_IRK_B = bytes(range(16))
HIST_IRK_X = H('00112233445566778899aabbccddeeff')  # never loaded into the resolver
HIST_ID_A = ('C0:01:02:03:04:05', 0)
HIST_ID_B = ('F1:F2:F3:F4:F5:F6', 1)
HIST_SYMBOLS = ['gA1', 'gA2', 'xX1', 'flip1', 'gB1', 'static', 'identity', 'genA1', 'genX1']
# raw draw pairs (first prand, another prand): the D.7 prand, and small values
HIST_DRAWS = [((0x94, 0x81, 0x30), (0x01, 0x02, 0x03)), ((0x01, 0x02, 0x03), (0xFF, 0xFF, 0x3F))]


def _prand_of(raw):
    return bytes([raw[0], raw[1], (raw[2] & 0x3F) | 0x40])


def hist_address(sym, draws, Address, fs, aes):
    """The address presented for one alphabet symbol (built with the reference ah, except
    gen*: produced by the real generate_private_address under the active back end)."""
    p1, p2 = _prand_of(draws[0]), _prand_of(draws[1])
    ref_ah = lambda irk, prand: aes[irk].encrypt(bytes(13) + prand[::-1])[-3:][::-1]
    if sym == 'gA1':
        return Address(ref_ah(HIST_IRK_A, p1) + p1, Address.RANDOM_DEVICE_ADDRESS)
    if sym == 'gA2':
        return Address(ref_ah(HIST_IRK_A, p2) + p2, Address.RANDOM_DEVICE_ADDRESS)
    if sym == 'xX1':  # RPA of an unrelated IRK that uses the SAME prand as gA1
        return Address(ref_ah(HIST_IRK_X, p1) + p1, Address.RANDOM_DEVICE_ADDRESS)
    if sym == 'flip1':  # gA1 with one hash bit flipped
        h = ref_ah(HIST_IRK_A, p1)
        return Address(bytes([h[0] ^ 0x01]) + h[1:] + p1, Address.RANDOM_DEVICE_ADDRESS)
    if sym == 'gB1':  # RPA of IRK B with the same prand (B is loaded in configuration 'AB' only)
        return Address(ref_ah(HIST_IRK_B, p1) + p1, Address.RANDOM_DEVICE_ADDRESS)
    if sym == 'static':
        return Address('D5:D4:D3:D2:D1:D0', Address.RANDOM_DEVICE_ADDRESS)
    if sym == 'identity':
        return Address(*HIST_ID_A)
    if sym in ('genA1', 'genX1'):
        fs.next = bytes(draws[0]) + b'\x11\x22\x33'
        return Address.generate_private_address(HIST_IRK_A if sym == 'genA1' else HIST_IRK_X)
    raise ValueError(sym)


def hist_expected(addr_bytes, keys, aes):
    """History-free recomputation: the first loaded key whose ah(irk, prand) equals the hash."""
    h, prand = addr_bytes[0:3], addr_bytes[3:6]
    for irk, ident in keys:
        if aes[irk].encrypt(bytes(13) + prand[::-1])[-3:][::-1] == h:
            return ident
    return None


def hist_run(seq, config, draws, backend, Address, AddressResolver, fs, aes):
    """Returns None or (position, symbol, history_dependent, message)."""
    id_a, id_b = Address(*HIST_ID_A), Address(*HIST_ID_B)
    keys = [(HIST_IRK_A, id_a)] if config == 'A' else [(HIST_IRK_A, id_a), (HIST_IRK_B, id_b)] if config == 'AB' else [(HIST_IRK_B, id_b), (HIST_IRK_A, id_a)]
    resolver = AddressResolver(list(keys))
    for pos, sym in enumerate(seq):
        addr = hist_address(sym, draws, Address, fs, aes)
        ab = bytes(addr)
        if sym.startswith('gen'):
            irk = HIST_IRK_A if sym == 'genA1' else HIST_IRK_X
            p1 = _prand_of(draws[0])
            if not fs.served and len(ab) == 6 and ab[5] & 0xC0 == 0x40 and (ab[3] | ab[4] << 8 | (ab[5] & 0x3F) << 16) not in (0, 0x3FFFFF):
                p1 = ab[3:6]  # the random part was not drawn as bytes: a legal prand of the implementation's choosing
            want_ab = aes[irk].encrypt(bytes(13) + p1[::-1])[-3:][::-1] + p1
            if ab != want_ab:
                return (pos, sym, pos > 0, f'generate_private_address gave {ab.hex()}, expected {want_ab.hex()}')
        want = hist_expected(ab, keys, aes)
        got = resolver.resolve(addr)
        ok = (got is None) if want is None else (got is not None and bytes(got) == bytes(want))
        if not ok:
            fresh = AddressResolver(list(keys)).resolve(addr)
            fresh_ok = (fresh is None) if want is None else (fresh is not None and bytes(fresh) == bytes(want))
            return (
                pos, sym, fresh_ok,
                f'resolver({config}) after {list(seq[:pos])} resolved {sym} address {ab.hex()} to {got}; independent recomputation of ah over the loaded keys gives {want}'
                + (' (a fresh resolver answers correctly: the result depends on the query history)' if fresh_ok else ''),
            )
    return None


def hist_sequences(max_len: int):
    for n in range(1, max_len + 1):
        yield from itertools.product(HIST_SYMBOLS, repeat=n)


def w_rpa_history(arg):
    backend, config, di, seqs = arg
    import bumble.crypto as bc
    from bumble.hci import Address
    from bumble.smp import AddressResolver

    st = core.Stats('rpa_history')
    aes = {irk: R.FastAES(irk[::-1]) for irk in (HIST_IRK_A, HIST_IRK_B, HIST_IRK_X)}
    fs = _FixedSecrets()
    saved = bc.secrets
    bc.secrets = fs
    try:
        with use_backend(backends()[backend]):
            for seq in seqs:
                st.case((backend, config, di, seq), nontrivial=len(seq) > 1)
                st.add('symbols', seq[-1])
                st.add('lengths', len(seq))
                st.add('configs', (backend, config, di))
                res = hist_run(seq, config, HIST_DRAWS[di], backend, Address, AddressResolver, fs, aes)
                if res:
                    pos, sym, hd, msg = res
                    st.violation(
                        'rpa_history',
                        {'backend': backend, 'symbol': sym, 'history_dependent': bool(hd)},
                        f'[{backend} back end] ' + msg,
                        {'backend': backend, 'config': config, 'draws': di, 'seq': list(seq[: pos + 1])},
                    )
    finally:
        bc.secrets = saved
    if seqs:
        st.samples.append({'backend': backend, 'resolver_keys': config, 'sequence': list(seqs[-1]), 'prands': [_prand_of(d).hex() for d in HIST_DRAWS[di]]})
    return st


# ---------------------------------------------------------------------------
# history: results must not depend on what was computed before
# ---------------------------------------------------------------------------
IGN = ('ignored',)  # result of a malformed call: anything (value or exception) is acceptable
BAD_LENGTHS = (0, 3, 6, 15, 17, 32)
# toolbox function -> (index of the key argument, index of a data argument)
TB_ROLES = {'ah': (0, 1), 'c1': (0, 1), 's1': (0, 1), 'f4': (2, 0), 'f5': (0, 1), 'f6': (0, 1), 'g2': (2, 0), 'h6': (0, 1), 'h7': (0, 1)}
HISTORY_FAMILIES = ['e', 'aes_cmac'] + list(TB_ROLES) + ['ecdh', 'rpa']


def history_ops(family: str, backend: str):
    """Alphabet of one family: {label: (thunk, expected)}.  Must be called with the toolbox
    bound to the back end (use_backend) and, for 'rpa', bc.secrets replaced.  `expected` is the
    history-free reference value, or IGN for calls with a malformed argument."""
    import bumble.crypto as bc

    mod = backends()[backend]
    ops = {}
    if family == 'e':
        k1, k2 = RH(_KEY16), bytes(range(1, 17))
        d1, d2 = RH('708194') + bytes(13), b'\xff' * 16
        for lab, k, d in (('v1', k1, d1), ('v2', k2, d1), ('v1b', k1, d2)):
            ops[lab] = (lambda k=k, d=d: mod.e(k, d), R.sm_e(k, d))
        for n in BAD_LENGTHS:
            ops[f'badD{n}'] = (lambda n=n: mod.e(k1, bytes(range(n))), IGN)
        for n in (0, 17):
            ops[f'badK{n}'] = (lambda n=n: mod.e(bytes(n), d1), IGN)
    elif family == 'aes_cmac':
        k1, k2 = H(RFC4493_KEY), bytes(range(1, 17))
        msg = H(RFC4493_MSG)
        for lab, k, m in (('v1', k1, msg[:40]), ('v2', k2, msg[:40]), ('v1b', k1, msg[:16])):
            ops[lab] = (lambda k=k, m=m: mod.aes_cmac(m, k), R.aes_cmac(k, m))
        for n in BAD_LENGTHS:  # every message length is valid for CMAC: these are checked too
            ops[f'len{n}'] = (lambda n=n: mod.aes_cmac(msg[:n], k1), R.aes_cmac(k1, msg[:n]))
        for n in (0, 15, 17):
            ops[f'badK{n}'] = (lambda n=n: mod.aes_cmac(msg[:40], bytes(n)), IGN)
    elif family in TB_ROLES:
        ki, di = TB_ROLES[family]
        base = [b for (fn, b, _w) in toolbox_vectors().values() if fn == family][0]
        fn = getattr(bc, family)

        def with_(i, v, j=None, w=None):
            a = list(base)
            a[i] = v
            if j is not None:
                a[j] = w
            return tuple(a)

        k2 = bytes(range(1, len(base[ki]) + 1))
        d2 = b'\xff' * len(base[di])
        for lab, args in (('v1', tuple(base)), ('v2', with_(ki, k2)), ('v1b', with_(di, d2))):
            ops[lab] = (lambda args=args: fn(*args), REF_FN[family](*args))
        for n in BAD_LENGTHS:
            if n != len(base[di]):
                ops[f'badD{n}'] = (lambda n=n: fn(*with_(di, bytes(range(n)))), IGN)
        for n in (0, 17):
            if n != len(base[ki]):
                ops[f'badK{n}'] = (lambda n=n: fn(*with_(ki, bytes(n))), IGN)
    elif family == 'ecdh':
        I = lambda t: int.from_bytes(H(t), 'big')
        ds = P256_SETS[0]
        # ONE long-lived key object per private key (cached properties, OpenSSL key handles)
        key1 = mod.EccKey.from_private_key_bytes(H(ds['priv_a']))
        key2 = mod.EccKey.from_private_key_bytes(H(ds['priv_b']))
        g2 = R.p256_mul(2)
        ops['v1'] = (lambda: key1.dh(H(ds['pub_bx']), H(ds['pub_by'])), H(ds['dhkey']))
        ops['v2'] = (lambda: key2.dh(H(ds['pub_ax']), H(ds['pub_ay'])), H(ds['dhkey']))
        ops['v1b'] = (lambda: key1.dh(b32(g2[0]), b32(g2[1])), b32(R.p256_mul(I(ds['priv_a']), g2)[0]))
        ops['pub1'] = (lambda: (key1.x, key1.y), (H(ds['pub_ax']), H(ds['pub_ay'])))
        for n in (0, 17, 33):
            ops[f'badD{n}'] = (lambda n=n: key1.dh(bytes(range(n)), H(ds['pub_by'])), IGN)
        ops['badOff'] = (lambda: key1.dh(H(ds['pub_bx']), b32(I(ds['pub_by']) ^ 1)), IGN)
        ops['badZero'] = (lambda: key1.dh(bytes(32), bytes(32)), IGN)
    elif family == 'rpa':
        from bumble.hci import Address
        from bumble.smp import AddressResolver

        fs = bc.secrets
        irk1, irk2 = RH(_KEY16), bytes(range(16))
        id1, id2 = Address('C0:11:22:33:44:55'), Address('C0:AA:BB:CC:DD:EE')
        res1, res2 = AddressResolver([(irk1, id1)]), AddressResolver([(irk2, id2)])  # long-lived
        aes = {irk1: R.FastAES(irk1[::-1]), irk2: R.FastAES(irk2[::-1])}
        ref_ah = lambda irk, prand: aes[irk].encrypt(bytes(13) + prand[::-1])[-3:][::-1]
        bid = lambda a: None if a is None else bytes(a)

        def gen(irk, raw):
            fs.next = bytes(raw) + b'\x01\x02\x03'
            a = Address.generate_private_address(irk)
            got = (bytes(a), bid(res1.resolve(a)), bid(res2.resolve(a)))
            if not fs.served and len(got[0]) == 6:
                # the random part was not drawn as bytes: the address is judged by its own prand (legal, and the hash and
                # the resolutions that go with it); a conforming result counts as the reference result
                pa = got[0][3:6]
                part = pa[0] | pa[1] << 8 | (pa[2] & 0x3F) << 16
                ha = ref_ah(irk, pa)
                own = (ha + pa, bytes(id1) if ref_ah(irk1, pa) == ha else None, bytes(id2) if ref_ah(irk2, pa) == ha else None)
                if pa[2] & 0xC0 == 0x40 and part not in (0, 0x3FFFFF) and got == own:
                    return gen_expected(irk, raw)
            return got

        def gen_expected(irk, raw):
            prand = _prand_of(raw)
            h = ref_ah(irk, prand)
            return (h + prand, bytes(id1) if ref_ah(irk1, prand) == h else None, bytes(id2) if ref_ah(irk2, prand) == h else None)

        r1, r2 = (0x94, 0x81, 0x30), (0x0A, 0x0B, 0x0C)
        for lab, irk, raw in (('v1', irk1, r1), ('v2', irk2, r1), ('v1b', irk1, r2)):
            ops[lab] = (lambda irk=irk, raw=raw: gen(irk, raw), gen_expected(irk, raw))
        fixed = Address(ref_ah(irk1, _prand_of(r2)) + _prand_of(r2), Address.RANDOM_DEVICE_ADDRESS)
        ops['res1'] = (lambda: (bid(res1.resolve(fixed)), bid(res2.resolve(fixed))), (bytes(id1), bytes(id2) if ref_ah(irk2, _prand_of(r2)) == bytes(fixed)[:3] else None))
        for n in (0, 6, 15, 17, 32):  # e.g. the whole 6-byte address where the 3-byte prand belongs
            ops[f'badD{n}'] = (lambda n=n: bc.ah(irk1, bytes(range(0x4A, 0x4A + n))), IGN)
        ops['badK15'] = (lambda: Address.generate_private_address(irk1[:15]), IGN)
    else:
        raise ValueError(family)
    return ops


def history_sequences(labels, max_len):
    alpha = list(labels) + ['rep']
    for n in range(1, max_len + 1):
        yield from itertools.product(alpha, repeat=n)


def history_exec(st, family, backend, ops, labels, log):
    """Run labels in order (appending to log); report the first valid call whose result
    differs from its history-free reference."""
    for lab in labels:
        thunk, want = ops[lab]
        out = attempt(thunk)
        log.append(lab)
        if want is IGN:
            st.count('malformed_calls')
            st.count('malformed_calls_raising' if out[0] == 'exc' else 'malformed_calls_returning')
            continue
        st.count('valid_calls_checked')
        if out != ('ok', want):
            tail = log[-40:]
            st.violation(
                'history',
                {'family': family, 'backend': backend, 'op': lab},
                f'[{backend} back end] {family}: valid call {lab!r} gives {show(out)} after the call history {tail[:-1]}; '
                f'history-free reference gives {show(want)} (malformed calls in the history are outside the domain, this call is inside it)',
                {'family': family, 'backend': backend, 'ops': tail},
            )
            return False
    return True


def w_history(arg):
    family, backend, max_len, part, nparts = arg
    import bumble.crypto as bc

    st = core.Stats('history')
    fs = _FixedSecrets()
    saved = bc.secrets
    bc.secrets = fs
    try:
        with use_backend(backends()[backend]):
            ops = history_ops(family, backend)
            seqs = list(history_sequences(list(ops), max_len))[part::nparts]
            log = []
            for seq in seqs:
                labels = [(seq[0] if seq[0] != 'rep' else 'v1') if lab == 'rep' else lab for lab in seq]
                st.case((family, backend, seq), nontrivial=len(seq) > 1)
                st.add('families', (family, backend))
                if any(ops[l][1] is IGN for l in labels[:-1]) and ops[labels[-1]][1] is not IGN:
                    st.count('valid_call_after_malformed_sequences')
                history_exec(st, family, backend, ops, labels, log)
            if part == 0:
                st.samples.append({'family': family, 'backend': backend, 'alphabet': list(ops) + ['rep'], 'max_len': max_len})
    finally:
        bc.secrets = saved
    return st


# ---------------------------------------------------------------------------
# dispatcher / run
# ---------------------------------------------------------------------------
WORKERS = {
    'spec_vectors': w_spec_vectors, 'aes_e': w_aes_e, 'aes_cmac': w_aes_cmac, 'toolbox': w_toolbox, 'p256': w_p256,
    'p256_invalid': w_p256_invalid, 'ec_small_dh': w_ec_small_dh, 'ec_small_arith': w_ec_small_arith, 'rpa': w_rpa, 'rpa_history': w_rpa_history, 'history': w_history,
}  # fmt: skip


def w_dispatch(item):
    name, arg = item
    return name, WORKERS[name](arg)


def chunks(seq, size):
    seq = list(seq)
    return [seq[i : i + size] for i in range(0, len(seq), size)]


def build_items(ctx):
    quick = ctx.quick
    only = getattr(ctx, 'only', None)
    want = lambda n: (not only) or n in only
    heavy, light = [], []
    info = {}

    if want('spec_vectors'):
        light.append(('spec_vectors', None))

    if want('aes_e'):
        cases = list(e_space(quick))
        info['aes_e_cases'] = len(cases)
        for part in core.split(cases, ctx.jobs * 2):
            light.append(('aes_e', part))

    if want('aes_cmac'):
        cases = list(cmac_space(quick))
        cases.sort(key=lambda c: -c[1])
        info['aes_cmac_cases'] = len(cases)
        for part in core.split(cases, ctx.jobs * 2):
            light.append(('aes_cmac', part))

    if want('toolbox'):
        cases = list(toolbox_space(2 if quick else 3))
        seen_tb = {(fn, a) for fn, a, _ in cases}
        for c in toolbox_key_space(quick):
            if (c[0], c[1]) not in seen_tb:
                seen_tb.add((c[0], c[1]))
                cases.append(c)
        info['toolbox_cases'] = len(cases)
        for part in core.split(cases, ctx.jobs * 2):
            light.append(('toolbox', part))

    if want('p256'):
        scalars = p256_scalars(quick)
        points = p256_points()
        items = [('pub', d) for d in scalars]
        items += [('dh', d, pt) for d in scalars for pt in points]
        sym = p256_scalars(True)
        sym = sym[:8] + sym[-5:] if quick else sym
        items += [('sym', a, b) for i, a in enumerate(sym) for b in sym[i:]]
        info['p256_scalars'] = len(scalars)
        info['p256_peer_points'] = len(points)
        info['p256_symmetry_scalars'] = len(sym)
        for part in core.split(items, ctx.jobs * 4):
            heavy.append(('p256', part))

    if want('p256_invalid'):
        pts = p256_invalid_points()
        ds = p256_invalid_scalars()
        items = [(cls, note, x, y, d) for (cls, note, x, y) in pts for d in ds]
        info['p256_invalid_points'] = len(pts)
        for part in core.split(items, ctx.jobs * 2):
            heavy.append(('p256_invalid', part))

    if want('ec_small_dh') or want('ec_small_arith'):
        plan_dh, plan_ar = [], []
        for p in (23, 97, 251):
            prime = R.small_curves(p, True)
            even = R.small_curves(p, False)
            assert prime, f'no prime-order curve with a=p-3 over F_{p}'
            info[f'prime_order_curves_p{p}'] = [(b, n) for b, n, _ in prime]
            if p == 23:
                sel = prime  # all four
            elif p == 97:
                sel = prime[:1] if quick else prime[:4]
            else:
                sel = prime[:1] if quick else prime[:2]
            for i, (b, n, _pts) in enumerate(sel):
                full = (p < 200) or (not quick and i == 0)
                plan_dh.append((p, b, full))
            ar = [(b, n) for b, n, _ in (prime[:2] + [c for c in even if any(y == 0 for _, y in c[2])][:2])]
            if p == 251 and quick:
                ar = ar[:1]
            for b, n in ar:
                plan_ar.append((p, b))
        if want('ec_small_dh'):
            for p, b, full in plan_dh:
                step = 1 if p > 200 and full else (4 if p > 90 else p)
                xs = list(range(p))
                for part in chunks(xs, step):
                    (heavy if p > 90 else light).append(('ec_small_dh', (p, b, part, full, True)))
            info['ec_small_dh_curves'] = [(p, b, 'all of F_p^2' if full else 'on-curve points only') for p, b, full in plan_dh]
        if want('ec_small_arith'):
            for p, b in plan_ar:
                (heavy if p > 200 else light).append(('ec_small_arith', (p, b, quick)))
            info['ec_small_arith_curves'] = plan_ar

    if want('rpa'):
        for backend in ('builtin', 'cryptography'):
            for i in range(len(IRKS)):
                raws = rpa_raw_space(quick, i, backend)
                if raws is None:
                    structured = rpa_raw_space(True, i, backend)
                    light.append(('rpa', (backend, i, structured, 0, 0, True)))
                    size = 1 << 16
                    for lo in range(0, 1 << 22, size):
                        heavy.append(('rpa', (backend, i, None, lo, lo + size, False)))
                    info[f'rpa_{backend}_irk{i}'] = 'all 2^22 prand values + structured raw-top-bit sweep'
                else:
                    parts = chunks(raws, 1 << 13)
                    for j, part in enumerate(parts):
                        (heavy if not quick else light).append(('rpa', (backend, i, part, 0, 0, j == 0)))
                    info[f'rpa_{backend}_irk{i}'] = f'{len(raws)} structured raw draws'
    if want('history'):
        for backend in ('builtin', 'cryptography'):
            for family in HISTORY_FAMILIES:
                nparts = 8 if (family == 'ecdh' and backend == 'builtin') else (2 if quick else 4)
                for part in range(nparts):
                    (heavy if family == 'ecdh' else light).append(('history', (family, backend, 3, part, nparts)))
        info['history_families'] = HISTORY_FAMILIES

    if want('rpa_history'):
        seqs = list(hist_sequences(3 if quick else 4))
        info['rpa_history_sequences'] = len(seqs)
        info['rpa_history_alphabet'] = HIST_SYMBOLS
        for backend in ('builtin', 'cryptography'):
            for config in ('A', 'AB', 'BA'):
                for di in range(len(HIST_DRAWS)):
                    for part in core.split(seqs, 2 if quick else 8):
                        (light if quick else heavy).append(('rpa_history', (backend, config, di, part)))
    return heavy + light, info


def run(ctx: core.Context) -> int:
    R.self_test()
    items, info = build_items(ctx)
    ctx.log(f'work items: {len(items)}')
    done = 0
    for name, st in core.pmap(w_dispatch, items, ctx.jobs):
        ctx.sub(name).merge(st)
        done += 1
    for name, st in ctx.subs.items():
        # set-valued coverage counters hold big tuples; keep them as sets (summary prints sizes)
        ctx.log(f'{name}: evaluations={st.evaluations} distinct={len(st.distinct)} violations={len(st.violations)}')
    rule = (
        'every case = one input tuple evaluated on builtin, cryptography and the independent reference; '
        'aes_e: single-bit / byte-replicated / byte-position key and block families'
        + ('' if ctx.quick else ' plus bit x bit and byte x byte products')
        + '; aes_cmac: every length 0..'
        + ('80' if ctx.quick else '160 and 255..257, 1023..1025, 4095..4097')
        + ' x keys covering all four sub-key branches x fills; toolbox: <= '
        + ('2' if ctx.quick else '3')
        + ' arguments off the spec vector over {zeros, ones, counter, low bit, high bit}; p256: structured scalars x on-curve peers, '
        'symmetry over scalar pairs in and across back ends; p256_invalid: not-on-curve pairs (classified by the reference; pairs with a coordinate >= p whose residues are on the curve may be accepted or rejected, but an accepted one must give the secret of the reduced point) x 9 scalars; '
        'ec_small_dh: ALL pairs of F_p^2 (+ coordinates shifted by p) x ALL scalars 1..n-1 on prime-order curves a=p-3, p in {23, 97'
        + (', 251 on-curve only}' if ctx.quick else ', 251}')
        + '; ec_small_arith: all ordered point pairs / all scalars 0..2n+1 in several Jacobian representations; '
        'rpa: raw prand draws ('
        + ('13824 structured (all b0 x 6 b1 x 9 raw b2 incl. every top-bit pattern) per IRK and back end' if ctx.quick else 'all 2^22 prands for the spec IRK with both back ends and for a second IRK with cryptography; 13824 structured + 2^16 for the other (IRK, back end) combinations')
        + '); history: per primitive family (13) and back end, all call sequences of length <= 3 over valid calls with 2 keys / other data / malformed argument lengths {0,3,6,15,17,32} / repeat, each valid result vs a history-free reference'
        '; rpa_history: all sequences of <= '
        + ('3' if ctx.quick else '4')
        + ' queries over a 9-symbol alphabet on one resolver instance x 3 key configurations x 2 prand pairs x 2 back ends, every answer vs a history-free recomputation'
        '; aes_cmac/toolbox keys include a deterministic search for keys whose L and K1 first byte take every boundary value {00,01,7F,80,81,FE,FF} x all lengths 0..80, and all 256 values x '
        + ('block-boundary lengths' if ctx.quick else 'lengths 0..48')
        + '. distinct_nontrivial counts distinct input tuples (per peer pair for ec_small_dh, per point pair for ec_small_arith, per work slice for rpa)'
    )
    return core.finish(
        ctx,
        LEVEL,
        rule=rule,
        assumptions=[
            'small-scope coverage of a 2^128 / 2^256 input space: inputs outside the stated families are not visited',
            'the reference (vp/harness/c14_ref.py) stands for the specification on inputs that are not spec sample data; it is itself validated against every literal first',
            'any exception raised by dh counts as rejection of an invalid peer key',
            'small curves exercise the same builtin _EllipticCurve/_JacobianPoint/EccKey.dh code that runs on P-256, with different constants',
            'private scalars are confined to [1, n-1] for the EccKey-level checks (ec_small_arith additionally drives _JacobianPoint.__mul__ with 0..2n+1)',
        ],
        extra={'space': info},
    )


# ---------------------------------------------------------------------------
# replay
# ---------------------------------------------------------------------------
def replay(v: core.Violation):
    st = core.Stats('replay')
    bes = backends()
    c = v.case
    if v.check == 'spec_vector':
        r = w_spec_vectors(None)
        return [x.message for x in r.violations if x.key == v.key]
    if v.check == 'e_mismatch':
        eval_e(st, bes, c['cls'], H(c['key']), H(c['block']))
    elif v.check == 'cmac_mismatch':
        eval_cmac(st, bes, H(c['key']), c['n'], c['fill'])
    elif v.check == 'toolbox_mismatch':
        args = tuple(a if isinstance(a, int) else H(a) for a in c['args'])
        eval_toolbox(st, bes, c['fn'], args)
    elif v.check == 'p256_mismatch':
        if c['op'] == 'pub':
            eval_pub(st, bes, int(c['d'], 16))
        elif c['op'] == 'dh':
            eval_dh(st, bes, int(c['d'], 16), (int(c['x'], 16), int(c['y'], 16)))
        else:
            eval_sym(st, bes, int(c['da'], 16), int(c['db'], 16))
    elif v.check in ('invalid_public_key_accepted', 'alias_mismatch'):
        if c.get('curve') == 'P-256':
            x, y = int(c['x'], 16), int(c['y'], 16)
            if R.p256_on_curve((x, y)):
                return []
            eval_invalid(st, bes, invalid_class(x, y), c['note'], x, y, int(c['d'], 16))
        else:
            p, b = c['p'], c['b']
            a, pts, n, curve, keys = small_setup(p, b)
            keys = [(k, key) for k, key in keys if k == c['k']]
            _, bad = small_dh_one(None, keys, {}, p, a, b, c['x'], c['y'])
            report_small(st, p, b, n, c['x'], c['y'], bad)
    elif v.check == 'ec_small_dh_mismatch':
        p, b = c['p'], c['b']
        if c.get('pub'):
            r = w_ec_small_dh((p, b, [0], False, False))
            return [x.message for x in r.violations if x.key == v.key]
        a, pts, n, curve, keys = small_setup(p, b)
        keys = [(k, key) for k, key in keys if k == c['k']]
        pt = (c['x'] % p, c['y'] % p)
        _, bad = small_dh_one(None, keys, {pt: R.multiples_table(pt, n, a, p)}, p, a, b, c['x'], c['y'])
        report_small(st, p, b, n, c['x'], c['y'], bad)
    elif v.check == 'ec_small_arith_mismatch':
        r = w_ec_small_arith((c['p'], c['b'], False))
        return [x.message for x in r.violations if x.key == v.key]
    elif v.check == 'history':
        import bumble.crypto as bc

        fs = _FixedSecrets()
        saved, bc.secrets = bc.secrets, fs
        try:
            with use_backend(bes[c['backend']]):
                history_exec(st, c['family'], c['backend'], history_ops(c['family'], c['backend']), c['ops'], [])
        finally:
            bc.secrets = saved
    elif v.check == 'rpa_history':
        r = w_rpa_history((c['backend'], c['config'], c['draws'], [tuple(c['seq'])]))
        return [x.message for x in r.violations if x.key == v.key]
    elif v.check == 'rpa':
        r = w_rpa((c['backend'], c['irk_index'], [tuple(c['raw'])], 0, 0, bool(c.get('multi'))))
        return [x.message for x in r.violations if x.key == v.key]
    return [x.message for x in st.violations if x.key == v.key]
