"""C01 -- HCI packets survive serialise/parse unchanged, for every packet class.

Bounded-exhaustive enumeration (engine 2.4).  Every class found at run time in the live
registries (commands, events, LE / extended sub-events, return-parameter classes of sync
commands, vendor modules) is instantiated for every assignment with <= k fields off their
simplest value (vp/fieldenum.py), and for every case:

  (a) build_parse    cls(**kwargs) -> bytes -> HCI_Packet.from_bytes: same class, every field equal
  (a') wire_format   bytes(cls(**kwargs)) equals the reference encoding (written here / in fieldenum
                     from the field-spec documentation in hci.py and Vol 4 Part E 5.4 headers)
  (b) parse_rebuild  reference bytes -> from_bytes -> FRESH instance built from the parsed field
                     values -> bytes == reference bytes (parsed objects cache `parameters`, so
                     bytes(parsed) would be vacuous); the parsed fields equal the encoded ones
  (c) generic        unknown opcodes / event codes / sub-event codes / vendor events are carried as
                     generic packets with parameters preserved byte for byte
  (d) framing        bytes(pkt) fed to the real PacketParser gives exactly that one packet

plus the three data-packet classes over full boundary grids with an independent header
codec, Command Complete events for every sync command (success, error status, versioned
prefixes for classes that override parse_return_parameters), and the primitive field codec
(`HCI_Object.dict_to_bytes` / `dict_and_offset_from_bytes`) for every distinct spec kind.
"""
from __future__ import annotations

import dataclasses
import importlib
import itertools
import pkgutil
import struct

from .. import core, fieldenum as fe

LEVEL = 'exploration'

# Error Command Complete events: bumble deliberately parses only the status ("Don't parse
# further, just return the status", hci.py HCI_StatusReturnParameters.from_parameters).  With
# False, a long-form error response that comes back as a bare status is counted
# (`cc_error_short_parse`) but not reported.  Set True to demand the statement literally.
STRICT_ERROR_RETURN_PARAMETERS = False

MAX_VIOLATIONS_PER_ITEM = 12
ERROR_STATUSES = (0x01, 0x0C, 0xFF)

# Hand-written codecs (no `fields`): parameters described as a pseudo field list whose repeated
# group has NO count byte on the wire; the item count is the number of bits set in `phys`.
SPECIAL = {
    'HCI_LE_Set_Extended_Scan_Parameters_Command': dict(
        head=[('own_address_type', 1), ('scanning_filter_policy', 1), ('scanning_phys', 1)],
        group=[('scan_types', 1), ('scan_intervals', 2), ('scan_windows', 2)],
        phys='scanning_phys',
    ),
    'HCI_LE_Extended_Create_Connection_Command': dict(
        head=[
            ('initiator_filter_policy', 1),
            ('own_address_type', 1),
            ('peer_address_type', 1),
            ('peer_address', 'ADDRESS_PRECEDED_BY_TYPE'),
            ('initiating_phys', 1),
        ],
        group=[
            ('scan_intervals', 2),
            ('scan_windows', 2),
            ('connection_interval_mins', 2),
            ('connection_interval_maxs', 2),
            ('max_latencies', 2),
            ('supervision_timeouts', 2),
            ('min_ce_lengths', 2),
            ('max_ce_lengths', 2),
        ],
        phys='initiating_phys',
    ),
}
DOCUMENTED_SPECS = (1, 2, 3, 4, -1, -2, '>2', '>4', '*', 'v', 5, 6, 16, 256)
PHYS_VALUES = (0x01, 0x00, 0x04, 0x05, 0x07, 0xFF)  # 1, 0, 1, 2, 3, 8 per-PHY entries

# Domain restrictions that follow from the meaning of a field (value outside = another packet).
OVERRIDES = {
    # Android BQR: only these report ids use this layout (bumble/vendor/android/hci.py:237)
    'HCI_Bluetooth_Quality_Report_Event': {'quality_report_id': [0x01, 0x02, 0x03, 0x04, 0x07, 0x08, 0x09]},
}


# ---------------------------------------------------------------------------
# registries
# ---------------------------------------------------------------------------
_REG = None


def registries():
    """{'cmd': {code: cls}, 'evt': {...}, 'sub:<Owner>': {...}}, import failures, discovered at run time."""
    global _REG
    if _REG is not None:
        return _REG
    from bumble import hci

    failures = []
    for pkgname in ('bumble.vendor', 'bumble.drivers'):
        try:
            pkg = importlib.import_module(pkgname)
        except Exception as e:  # noqa
            failures.append(f'{pkgname}: {type(e).__name__}')
            continue
        for m in pkgutil.walk_packages(pkg.__path__, pkgname + '.'):
            try:
                importlib.import_module(m.name)
            except Exception as e:  # noqa
                failures.append(f'{m.name}: {type(e).__name__}')
    regs = {'cmd': dict(hci.HCI_Command.command_classes), 'evt': dict(hci.HCI_Event.event_classes)}
    seen = set()
    stack = [hci.HCI_Extended_Event]
    while stack:
        c = stack.pop(0)
        stack.extend(sorted(c.__subclasses__(), key=lambda k: k.__qualname__))
        d = c.__dict__.get('subevent_classes')
        if isinstance(d, dict) and id(d) not in seen:
            seen.add(id(d))
            if d:
                regs[f'sub:{c.__name__}'] = dict(d)
    _REG = (regs, failures)
    return _REG


def base_inits():
    from bumble import hci

    return (hci.HCI_Command.__init__, hci.HCI_Event.__init__, hci.HCI_Extended_Event.__init__)


def is_standard(cls) -> bool:
    return dataclasses.is_dataclass(cls) or cls.__init__ in base_inits()


def header(reg: str, cls, params_len_plus: int = 0):
    """Returns (prefix_before_length, extra_parameter_prefix) per Vol 4 Part E 5.4.1 / 5.4.4."""
    if reg == 'cmd':
        return bytes([0x01]) + struct.pack('<H', cls.op_code), b''
    if reg == 'evt':
        return bytes([0x04, cls.event_code]), b''
    return bytes([0x04, cls.event_code]), bytes([cls.subevent_code])


def frame(prefix: bytes, params: bytes) -> bytes:
    if len(params) > 255:
        raise ValueError('parameters longer than 255')
    return prefix + bytes([len(params)]) + params


def special_fields(cls):
    from bumble import hci

    sp = SPECIAL[cls.__name__]
    head = [(n, hci.Address.parse_address_preceded_by_type if s == 'ADDRESS_PRECEDED_BY_TYPE' else s) for n, s in sp['head']]
    key = '_c01_pseudo_fields'
    cached = sp.get(key)
    if cached is None:
        cached = head + [list(sp['group'])]
        sp[key] = cached
        sp['_count_offset'] = len(fe.ref_encode(head, fe.build(head, [])))
    return cached


# ---------------------------------------------------------------------------
# one class = one work item
# ---------------------------------------------------------------------------
class Item:
    """Runs the oracle over the cases of one class and attributes failures to minimal cases.

    A failing case with >= 2 deviations is not reported when a case with a proper subset of
    its deviations fails the same check in the same way (that smaller case is reported instead, by whichever
    worker owns it): first the failures already seen are consulted, then the subsets are
    re-run on the spot (`rerun(dev) -> set of failing checks`)."""

    def __init__(self, sub: str, sig_base: dict, scratch: bool = False):
        self.st = core.Stats(sub)
        self.sig_base = sig_base
        self.failed: dict[tuple, list[frozenset]] = {}
        self.nviol = 0
        self.scratch = scratch
        self.rerun = None
        self.checks_failed: set[tuple] = set()

    def fail(self, check, how, dev, message, case):
        key = (check, how)
        self.checks_failed.add(key)
        if self.scratch:
            return
        devset = frozenset(tuple(d) for d in dev)
        for prev in self.failed.get(key, ()):
            if prev < devset:
                self.st.count('failures_explained_by_smaller_case')
                return
        if len(dev) >= 2 and self.rerun is not None:
            for r in range(len(dev)):
                for subset in itertools.combinations(dev, r):
                    if key in self.rerun(list(subset)):
                        self.failed.setdefault(key, []).append(frozenset(tuple(d) for d in subset))
                        self.st.count('failures_explained_by_smaller_case')
                        return
        self.failed.setdefault(key, []).append(devset)
        names = sorted({('#count' if d[0] == '#' else d[0]) for d in dev})
        sig = dict(self.sig_base, fields=names, how=how)
        if self.nviol >= MAX_VIOLATIONS_PER_ITEM:
            self.st.count('violations_not_recorded_over_per_class_limit')
            self.st.cap(f'more than {MAX_VIOLATIONS_PER_ITEM} distinct violations in one class: the rest are only counted')
            return
        before = len(self.st.violations)
        self.st.violation(check, sig, message, case)
        if len(self.st.violations) > before:
            self.nviol += 1


def parser_frames(data: bytes):
    from bumble.transport.common import PacketParser

    got = []

    class Sink:
        def on_packet(self, p):
            got.append(bytes(p))

    parser = PacketParser(Sink())
    parser.feed_data(data)
    clean = parser.state == PacketParser.NEED_TYPE and parser.bytes_needed == 1 and len(parser.packet) == 0
    return got, clean


def short(b: bytes, n=40) -> str:
    h = bytes(b).hex()
    return h if len(h) <= 2 * n else f'{h[:2 * n]}...({len(b)} bytes)'


def check_case(item: Item, cls, fields, kwargs, ref: bytes, dev, case, build=None, rebuild=None, compare=None):
    """The oracle for one (class, kwargs).  `build(kwargs)` makes the packet, `rebuild(parsed)`
    makes a fresh packet from the parsed object's field values, `compare(kwargs, parsed)` lists
    differing fields."""
    from bumble import hci

    st = item.st
    name = cls.__name__
    build = build or (lambda kw: cls(**kw))
    rebuild = rebuild or (lambda p: type(p)(**fe.rebuild_kwargs(fields, p)))
    compare = compare or (lambda kw, p: fe.diff(fields, kw, p))
    if len(dev) <= 2:
        st.case(ref)
    else:  # not hashed into the distinct set (memory); byte strings of one class differ by construction
        st.case(None)
        st.count('cases_with_3_deviations')

    # (a) fields -> bytes -> parse
    b = None
    try:
        pkt = build(kwargs)
    except Exception as e:  # noqa
        item.fail('build_parse', f'build_raises:{type(e).__name__}', dev, f'{name}({dev}) cannot be built: {type(e).__name__}: {e}', case)
        pkt = None
    if pkt is not None:
        try:
            b = bytes(pkt)
        except Exception as e:  # noqa
            item.fail('build_parse', f'bytes_raises:{type(e).__name__}', dev, f'bytes({name}) for case {dev} raises {type(e).__name__}: {e}', case)
    parsed_b = None
    if b is not None:
        if b != ref:
            item.fail('wire_format', 'bytes_differ', dev, f'{name} case {dev}: serialises to {short(b)}, reference encoding is {short(ref)}', case)
        try:
            parsed_b = hci.HCI_Packet.from_bytes(b)
        except Exception as e:  # noqa
            item.fail('build_parse', f'parse_raises:{type(e).__name__}', dev, f'{name} case {dev}: own bytes {short(b)} do not parse: {type(e).__name__}: {e}', case)
        if parsed_b is not None:
            if type(parsed_b) is not cls:
                item.fail('build_parse', f'class:{type(parsed_b).__name__}', dev, f'{name} case {dev}: bytes {short(b)} parse back as {type(parsed_b).__name__}', case)
            else:
                bad = compare(kwargs, parsed_b)
                if bad:
                    item.fail('build_parse', 'fields:' + ','.join(bad), dev, f'{name} case {dev}: fields {bad} changed across serialise/parse (bytes {short(b)})', case)
        # (d) framing
        try:
            frames, clean = parser_frames(b)
        except Exception as e:  # noqa
            frames, clean = [f'{type(e).__name__}'], False
        if frames != [b] or not clean:
            item.fail('framing', 'frames', dev, f'{name} case {dev}: PacketParser turned {short(b)} into {len(frames)} packet(s) (parser idle afterwards: {clean})', case)

    # (b) reference bytes -> parse -> fresh instance from parsed field values -> bytes
    if b == ref and parsed_b is None:
        return  # the same bytes already failed to parse under (a)
    if b == ref:
        parsed_r = parsed_b
    else:
        st.count('ref_differs_from_built')
        try:
            parsed_r = hci.HCI_Packet.from_bytes(ref)
        except Exception as e:  # noqa
            item.fail('parse_rebuild', f'parse_raises:{type(e).__name__}', dev, f'{name} case {dev}: well-formed bytes {short(ref)} do not parse: {type(e).__name__}: {e}', case)
            return
        if type(parsed_r) is not cls:
            item.fail('parse_rebuild', f'class:{type(parsed_r).__name__}', dev, f'{name} case {dev}: well-formed bytes {short(ref)} parse as {type(parsed_r).__name__}', case)
            return
        bad = compare(kwargs, parsed_r)
        if bad:
            item.fail('parse_rebuild', 'decoded_fields:' + ','.join(bad), dev, f'{name} case {dev}: fields {bad} decoded from {short(ref)} are not the encoded values', case)
    if type(parsed_r) is not cls:
        return
    try:
        again = bytes(rebuild(parsed_r))
    except Exception as e:  # noqa
        item.fail('parse_rebuild', f'rebuild_raises:{type(e).__name__}', dev, f'{name} case {dev}: instance rebuilt from parsed fields of {short(ref)} fails: {type(e).__name__}: {e}', case)
        return
    if again != ref:
        item.fail('parse_rebuild', 'rebuild_bytes_differ', dev, f'{name} case {dev}: {short(ref)} parsed and rebuilt from field values gives {short(again)}', case)


# ---- registered classes -----------------------------------------------------
def class_cases(reg, cls, k):
    """Yield (fields, kwargs, ref_params, dev, variant) for one registered class."""
    budget = 254 if reg.startswith('sub:') else 255
    if cls.__name__ in SPECIAL:
        fields = special_fields(cls)
        sp = SPECIAL[cls.__name__]
        off = sp['_count_offset']
        for vi, phys in enumerate(PHYS_VALUES):
            n = bin(phys).count('1')
            kk = k if n <= 3 else min(k, 1)  # 8 per-PHY entries: single deviations only
            for kw, dev in fe.enumerate_kwargs(fields, kk, counts=(n,), budget=budget + 1, overrides={sp['phys']: [phys]}):
                enc = fe.ref_encode(fields, kw)
                assert enc[off] == n
                yield fields, kw, enc[:off] + enc[off + 1:], dev, vi
        return
    fields = cls.fields
    ov = OVERRIDES.get(cls.__name__)
    if cls.__name__ == 'HCI_Command_Complete_Event':
        ov = {'command_opcode': boundary_unknown_opcodes()}
    for kw, dev in fe.enumerate_kwargs(fields, k, budget=budget, overrides=ov):
        yield fields, kw, fe.ref_encode(fields, kw), dev, 0


def class_case_from(reg, cls, dev, variant):
    budget = 254 if reg.startswith('sub:') else 255
    if cls.__name__ in SPECIAL:
        fields = special_fields(cls)
        sp = SPECIAL[cls.__name__]
        off = sp['_count_offset']
        phys = PHYS_VALUES[variant]
        kw = fe.build(fields, dev, counts=(bin(phys).count('1'),), budget=budget + 1, overrides={sp['phys']: [phys]})
        enc = fe.ref_encode(fields, kw)
        return fields, kw, enc[:off] + enc[off + 1:]
    ov = OVERRIDES.get(cls.__name__)
    if cls.__name__ == 'HCI_Command_Complete_Event':
        ov = {'command_opcode': boundary_unknown_opcodes()}
    kw = fe.build(cls.fields, dev, budget=budget, overrides=ov)
    return cls.fields, kw, fe.ref_encode(cls.fields, kw)


def run_class(reg, code, k, only_dev=None, only_variant=None, part=0, nparts=1) -> core.Stats:
    regs, _ = registries()
    cls = regs[reg][code]
    sub = 'commands' if reg == 'cmd' else 'events'
    item = Item(sub, {'kind': reg, 'cls': cls.__name__})
    st = item.st
    st.add('classes_registered', (reg, code))
    if cls.__name__ not in SPECIAL and not is_standard(cls):
        st.add('classes_unbuildable', cls.__name__)
        st.cap(f'{cls.__name__} has a hand-written constructor unknown to the check: not enumerated')
        return st
    if cls.__name__ not in SPECIAL and not cls.fields and dataclasses.is_dataclass(cls) and [f for f in dataclasses.fields(cls) if f.init]:
        st.add('classes_unbuildable', cls.__name__)
        st.cap(f'{cls.__name__} has constructor fields but no field spec: not enumerated')
        return st
    prefix, pre = header(reg, cls)

    def one(it, fields, kw, refp, dev, variant):
        ref = frame(prefix, pre + refp)
        case = {'fill_seed': fe.fill_seed(), 'sub': 'class', 'reg': reg, 'code': code, 'dev': dev, 'variant': variant}
        check_case(it, cls, fields, kw, ref, dev, case)
        return ref

    if only_dev is not None:
        fields, kw, refp = class_case_from(reg, cls, only_dev, only_variant)
        one(item, fields, kw, refp, only_dev, only_variant)
        return st
    n = 0
    idx = 0
    fields = cls.fields
    for fields, kw, refp, dev, variant in class_cases(reg, cls, k):
        idx += 1
        if (part != 0) if len(dev) <= 1 else (idx % nparts != part):
            continue

        def rerun(sub_dev, variant=variant):
            scratch = Item(sub, {}, scratch=True)
            f2, kw2, refp2 = class_case_from(reg, cls, sub_dev, variant)
            if kw2 is not None:
                one(scratch, f2, kw2, refp2, sub_dev, variant)
            return scratch.checks_failed

        item.rerun = rerun
        ref = one(item, fields, kw, refp, dev, variant)
        n += 1
        for d in dev:
            st.add('field_deviations_exercised', (cls.__name__, d[0] if d[0] != '#' else f'#{d[1]}'))
        if n == 1 and part == 0 and code % 16 == 1:
            st.samples.append({'class': cls.__name__, 'case': 'all fields simplest', 'bytes': short(ref, 24)})
    if n:
        st.add('classes_enumerated', cls.__name__)
    for fname, label in fe.probed_specs(fields):
        st.add('probed_parser_specs', f'{cls.__name__}.{fname}:{label}')
    return st


def class_case_count(reg, cls, k) -> int:
    if cls.__name__ in SPECIAL or not is_standard(cls):
        return 2000
    return sum(1 for _ in fe._plan(cls, (1, 0, 2, 3), None, 1).devs(k))


# ---- Command Complete for every sync command ----------------------------------
def cc_fields(rp_cls):
    return [('num_hci_command_packets', 1)] + list(rp_cls.fields)


def cc_split(rp_cls, kw):
    kw = dict(kw)
    num = kw.pop('num_hci_command_packets')
    return num, kw


def run_cc(code, k, only=None) -> core.Stats:
    from bumble import hci

    regs, _ = registries()
    cmd = regs['cmd'][code]
    rp_cls = cmd.return_parameters_class
    item = Item('command_complete', {'kind': 'command_complete', 'cls': cmd.__name__})
    st = item.st
    st.add('sync_commands', code)
    st.add('return_parameter_classes', rp_cls.__name__)
    fields = cc_fields(rp_cls)
    has_status = issubclass(rp_cls, hci.HCI_StatusReturnParameters)
    prefix = bytes([0x04, 0x0E])
    CC = hci.HCI_Command_Complete_Event

    def make_ref(num, rp_bytes):
        return frame(prefix, bytes([num]) + struct.pack('<H', code) + rp_bytes)

    def build(kw):
        num, rkw = cc_split(rp_cls, kw)
        return CC(num_hci_command_packets=num, command_opcode=code, return_parameters=rp_cls(**rkw))

    def compare(kw, p):
        num, rkw = cc_split(rp_cls, kw)
        bad = []
        if type(p.num_hci_command_packets) is not int or p.num_hci_command_packets != num:
            bad.append('num_hci_command_packets')
        if p.command_opcode != code:
            bad.append('command_opcode')
        rp = p.return_parameters
        if type(rp) is not rp_cls:
            bad.append(f'return_parameters(type {type(rp).__name__})')
        else:
            bad += ['return_parameters.' + n for n in fe.diff(rp_cls.fields, rkw, rp)]
        return bad

    def rebuild(p):
        rp = p.return_parameters
        rp2 = type(rp)(**fe.rebuild_kwargs(type(rp).fields, rp))
        return CC(num_hci_command_packets=p.num_hci_command_packets, command_opcode=p.command_opcode, return_parameters=rp2)

    ov_ok = {'status': [hci.HCI_ErrorCode.SUCCESS]} if has_status else None

    def one(variant, dev):
        case = {'fill_seed': fe.fill_seed(), 'sub': 'cc', 'code': code, 'variant': variant, 'dev': dev}
        if variant == 'success':
            kw = fe.build(fields, dev, budget=252, overrides=ov_ok)
            if kw is None:
                return
            ref = make_ref(*_cc_ref(rp_cls, kw))
            check_case(item, CC, fields, kw, ref, dev, case, build=build, rebuild=rebuild, compare=compare)
        elif variant.startswith('error_long:'):
            err = int(variant.split(':')[1])
            kw = fe.build(fields, dev, budget=252, overrides={'status': [hci.HCI_ErrorCode(err)]})
            ref = make_ref(*_cc_ref(rp_cls, kw))
            st.case(ref)
            cc_error_long(item, CC, cmd, rp_cls, kw, ref, build, compare, rebuild, case)
        elif variant.startswith('error_short:'):
            err = int(variant.split(':')[1])
            ref = make_ref(1, bytes([err]))
            st.case(ref)
            cc_error_short(item, CC, cmd, code, err, ref, case)
        elif variant.startswith('prefix:'):
            n = int(variant.split(':')[1])
            cc_prefix(item, CC, cmd, rp_cls, code, n, case)

    if only is not None:
        one(only[0], only[1])
        return st
    plan_ok = fe.enumerate_kwargs(fields, k, budget=252, overrides=ov_ok)
    first = True

    def rerun(sub_dev):
        scratch = Item('command_complete', {}, scratch=True)
        kw2 = fe.build(fields, sub_dev, budget=252, overrides=ov_ok)
        if kw2 is not None:
            check_case(scratch, CC, fields, kw2, make_ref(*_cc_ref(rp_cls, kw2)), sub_dev, {}, build=build, rebuild=rebuild, compare=compare)
        return scratch.checks_failed

    item.rerun = rerun
    for kw, dev in plan_ok:
        ref = make_ref(*_cc_ref(rp_cls, kw))
        case = {'fill_seed': fe.fill_seed(), 'sub': 'cc', 'code': code, 'variant': 'success', 'dev': dev}
        check_case(item, CC, fields, kw, ref, dev, case, build=build, rebuild=rebuild, compare=compare)
        if first and code % 64 == 1:
            st.samples.append({'command': cmd.__name__, 'return_parameters': rp_cls.__name__, 'bytes': short(ref, 24)})
        first = False
    custom = 'parse_return_parameters' in cmd.__dict__
    if has_status:
        for err in ERROR_STATUSES:
            one(f'error_long:{err}', [])
            if not custom:
                one(f'error_short:{err}', [])
    if 'parse_return_parameters' in cmd.__dict__:
        st.add('commands_with_custom_return_parsing', cmd.__name__)
        for n in range(1, len(rp_cls.fields) + 1):
            one(f'prefix:{n}', [])
    return st


def _cc_ref(rp_cls, kw):
    num, rkw = cc_split(rp_cls, kw)
    return num, fe.ref_encode(rp_cls.fields, rkw)


def cc_error_long(item, CC, cmd, rp_cls, kw, ref, build, compare, rebuild, case):
    """Command Complete with an error status and the full set of return parameters."""
    from bumble import hci

    st = item.st
    name = cmd.__name__
    try:
        b = bytes(build(kw))
    except Exception as e:  # noqa
        item.fail('cc_error', f'build_raises:{type(e).__name__}', [], f'{name}: error-status Command Complete cannot be built: {type(e).__name__}: {e}', case)
        return
    if b != ref:
        item.fail('wire_format', 'bytes_differ', [], f'{name}: error-status Command Complete serialises to {short(b)}, reference {short(ref)}', case)
    try:
        p = hci.HCI_Packet.from_bytes(ref)
    except Exception as e:  # noqa
        item.fail('cc_error', f'parse_raises:{type(e).__name__}', [], f'{name}: error-status Command Complete {short(ref)} does not parse: {type(e).__name__}: {e}', case)
        return
    if type(p) is not CC:
        item.fail('cc_error', f'class:{type(p).__name__}', [], f'{name}: error-status Command Complete parses as {type(p).__name__}', case)
        return
    rp = p.return_parameters
    num, rkw = cc_split(rp_cls, kw)
    if type(rp) is hci.HCI_StatusReturnParameters and rp_cls is not hci.HCI_StatusReturnParameters:
        # documented short path: only the status is kept
        st.count('cc_error_short_parse')
        ok = int(rp.status) == int(rkw['status']) and p.command_opcode == cmd.op_code and p.num_hci_command_packets == num
        if not ok:
            item.fail('cc_error', 'short_parse_status', [], f'{name}: error status {int(rkw["status"])} parsed as {rp.status!r}', case)
        elif STRICT_ERROR_RETURN_PARAMETERS:
            item.fail('cc_error', 'fields_after_error_status_dropped', [], f'{name}: return parameters after an error status are dropped by the parser', case)
        if bytes(p) != ref:
            item.fail('cc_error', 'reserialise', [], f'{name}: parsed error Command Complete re-serialises to {short(bytes(p))}, was {short(ref)}', case)
        return
    bad = compare(kw, p)
    if bad:
        item.fail('cc_error', 'fields:' + ','.join(bad), [], f'{name}: error-status Command Complete fields {bad} changed', case)
        return
    again = bytes(rebuild(p))
    if again != ref:
        item.fail('cc_error', 'rebuild_bytes_differ', [], f'{name}: error-status Command Complete {short(ref)} rebuilt as {short(again)}', case)


def cc_error_short(item, CC, cmd, code, err, ref, case):
    """Command Complete carrying only an error status (what bumble's parser itself produces)."""
    from bumble import hci

    name = cmd.__name__
    try:
        ev = CC(num_hci_command_packets=1, command_opcode=code, return_parameters=hci.HCI_StatusReturnParameters(status=hci.HCI_ErrorCode(err)))
        b = bytes(ev)
    except Exception as e:  # noqa
        item.fail('cc_error', f'short_build_raises:{type(e).__name__}', [], f'{name}: status-only Command Complete cannot be built: {e}', case)
        return
    if b != ref:
        item.fail('wire_format', 'short_bytes_differ', [], f'{name}: status-only Command Complete serialises to {short(b)}, reference {short(ref)}', case)
    try:
        p = hci.HCI_Packet.from_bytes(ref)
        rp = p.return_parameters
        if 'parse_return_parameters' in cmd.__dict__:
            ok = int(rp.status) == err
        else:
            ok = type(p) is CC and type(rp) is hci.HCI_StatusReturnParameters and int(rp.status) == err
        ok = ok and p.command_opcode == code and p.num_hci_command_packets == 1
        if not ok:
            item.fail('cc_error', 'short_fields', [], f'{name}: status-only Command Complete {short(ref)} parsed with different fields ({type(rp).__name__})', case)
            return
        if type(rp) is hci.HCI_StatusReturnParameters:
            rp2 = hci.HCI_StatusReturnParameters(status=rp.status)
            again = bytes(CC(num_hci_command_packets=p.num_hci_command_packets, command_opcode=p.command_opcode, return_parameters=rp2))
            if again != ref:
                item.fail('cc_error', 'short_rebuild_bytes_differ', [], f'{name}: {short(ref)} rebuilt as {short(again)}', case)
    except Exception as e:  # noqa
        item.fail('cc_error', f'short_parse_raises:{type(e).__name__}', [], f'{name}: status-only Command Complete {short(ref)} does not parse: {type(e).__name__}: {e}', case)


def cc_prefix(item, CC, cmd, rp_cls, code, n, case):
    """Classes that override parse_return_parameters accept several versions (lengths) of the
    structure: every prefix that ends on a field boundary must parse, with the signalled fields
    intact, and (cached) re-serialise to itself."""
    from bumble import hci

    st = item.st
    fields = list(rp_cls.fields)
    ov = {'status': [hci.HCI_ErrorCode.SUCCESS]} if fields and fields[0][0] == 'status' else None
    # a case with every field at a distinct non-simplest value where possible
    kw = {}
    for i, (fname, spec) in enumerate(fields):
        dom = fe.build([(fname, spec)], [[fname, -1, min(1, fe.domain_size([(fname, spec)])[fname] - 1)]])
        kw[fname] = dom[fname]
    if ov:
        kw['status'] = hci.HCI_ErrorCode.SUCCESS
    head = fields[:n]
    rp_bytes = fe.ref_encode(head, kw)
    ref = frame(bytes([0x04, 0x0E]), bytes([1]) + struct.pack('<H', code) + rp_bytes)
    st.case(ref)
    st.count('cc_prefix_cases')
    try:
        p = hci.HCI_Packet.from_bytes(ref)
    except Exception as e:  # noqa
        item.fail('cc_prefix', f'parse_raises:{type(e).__name__}', [], f'{cmd.__name__}: return parameters cut after field {n} ({fields[n - 1][0]}, {len(rp_bytes)} bytes) do not parse: {type(e).__name__}: {e}', dict(case))
        return
    bad = fe.diff(head, kw, p.return_parameters)
    if bad:
        item.fail('cc_prefix', 'fields:' + ','.join(bad), [], f'{cmd.__name__}: signalled fields {bad} changed when return parameters end after {fields[n - 1][0]}', dict(case))
    if bytes(p) != ref:
        item.fail('cc_prefix', 'reserialise', [], f'{cmd.__name__}: {short(ref)} re-serialises to {short(bytes(p))}', dict(case))


# ---- generic (unknown) packets ---------------------------------------------------
def unknown_opcodes():
    regs, _ = registries()
    known = set(regs['cmd'])
    cand = {0, 1, 0xFF, 0x100, 0x7FFF, 0x8000, 0xFFFF}
    for ogf in (0, 1, 2, 3, 4, 5, 6, 8, 0x3E, 0x3F):
        for ocf in (0, 1, 0x3FF):
            cand.add(ogf << 10 | ocf)
    for c in known:
        cand.add((c + 1) & 0xFFFF)
        cand.add((c - 1) & 0xFFFF)
    return sorted(cand - known)


def boundary_unknown_opcodes():
    regs, _ = registries()
    return [c for c in (0, 1, 0xFF, 0x100, 0x7FFF, 0x8000, 0xFFFF) if c not in regs['cmd']]


def generic_cases():
    regs, _ = registries()
    out = []
    for op in unknown_opcodes():
        for n in (0, 1, 255):
            out.append(('cmd', op, n))
    for ev in range(256):
        if ev in regs['evt'] or ev in (0x3E, 0xFF):
            continue
        for n in (0, 1, 255):
            out.append(('evt', ev, n))
    le = regs.get('sub:HCI_LE_Meta_Event', {})
    for se in range(256):
        if se in le:
            continue
        for n in (1, 2, 255):
            out.append(('le', se, n))
    # (a vendor event without parameters is HCI_Vendor_Event(data=b''), covered by the class enumeration)
    for first in range(256):
        for n in (1, 2, 255):
            out.append(('vendor', first, n))
    return out


def run_generic_case(st, kind, code, n):
    from bumble import hci

    body = fe.pattern(n, salt=3)
    sig = {'kind': 'unknown_' + kind, 'length': n}
    case = {'fill_seed': fe.fill_seed(), 'sub': 'generic', 'kind': kind, 'code': code, 'n': n}

    def fail(how, msg):
        st.violation('generic', dict(sig, how=how), msg, case)

    if kind == 'cmd':
        ref = bytes([0x01]) + struct.pack('<H', code) + bytes([n]) + body
        want_cls, params = hci.HCI_Command, body
    elif kind == 'evt':
        ref = bytes([0x04, code, n]) + body
        want_cls, params = hci.HCI_Event, body
    elif kind == 'le':
        params = bytes([code]) + body[: n - 1]
        ref = bytes([0x04, 0x3E, n]) + params
        want_cls = hci.HCI_LE_Meta_Event
    else:
        params = (bytes([code]) + body[: n - 1]) if n else b''
        if n >= 2 and code == 0x58 and params[1] in (1, 2, 3, 4, 7, 8, 9):
            params = params[:1] + b'\x05' + params[2:]  # an id the Android BQR layout does not cover
        ref = bytes([0x04, 0xFF, n]) + params
        want_cls = hci.HCI_Vendor_Event
    st.case(ref)
    try:
        p = hci.HCI_Packet.from_bytes(ref)
    except Exception as e:  # noqa
        fail(f'parse_raises:{type(e).__name__}', f'well-formed {kind} packet {short(ref)} does not parse: {type(e).__name__}: {e}')
        return
    if type(p) is not want_cls:
        fail(f'class:{type(p).__name__}', f'unknown {kind} code {code} parsed as {type(p).__name__}')
        return
    got = p.data if kind == 'vendor' else p.parameters
    if bytes(got) != params or not isinstance(got, (bytes, bytearray)):
        fail('parameters_changed', f'{kind} {short(ref)}: parameters carried as {short(bytes(got))}')
    if kind == 'cmd':
        idok = p.op_code == code
        fresh = hci.HCI_Command(parameters=bytes(p.parameters), op_code=p.op_code)
    elif kind == 'evt':
        idok = p.event_code == code
        fresh = hci.HCI_Event(parameters=bytes(p.parameters), event_code=p.event_code)
    elif kind == 'le':
        idok = p.subevent_code == code and p.event_code == 0x3E
        fresh = hci.HCI_LE_Meta_Event(parameters=bytes(p.parameters), subevent_code=p.subevent_code)
    else:
        idok = p.event_code == 0xFF
        fresh = hci.HCI_Vendor_Event(data=bytes(p.data))
    if not idok:
        fail('code_changed', f'{kind} {short(ref)}: code not preserved')
    try:
        again = bytes(fresh)
    except Exception as e:  # noqa
        fail(f'rebuild_raises:{type(e).__name__}', f'{kind} {short(ref)}: generic packet rebuilt from parsed values fails: {e}')
        return
    if again != ref:
        fail('rebuild_bytes_differ', f'{kind} {short(ref)} rebuilt as {short(again)}')
    frames, clean = parser_frames(again)
    if frames != [ref] or not clean:
        fail('framing', f'{kind} {short(ref)}: PacketParser produced {len(frames)} packets')


def run_generic(cases) -> core.Stats:
    st = core.Stats('generic')
    for kind, code, n in cases:
        run_generic_case(st, kind, code, n)
        st.add('generic_kinds', kind)
    if cases:
        st.samples.append({'kind': cases[0][0], 'code': cases[0][1], 'parameter_length': cases[0][2]})
    return st


# ---- data packets -----------------------------------------------------------------
HANDLES = (0, 1, 0xEFF, 0xFFF)
U16 = (0, 1, 0xFF, 0x100, 0x7FFF, 0x8000, 0xFFFF)
U32 = (0, 1, 0x7FFFFFFF, 0x80000000, 0xFFFFFFFF)


def acl_ref(handle, pb, bc, data):
    return bytes([0x02]) + struct.pack('<HH', handle | pb << 12 | bc << 14, len(data)) + data


def sco_ref(handle, status, data):
    return bytes([0x03]) + struct.pack('<HB', handle | status << 12, len(data)) + data


def iso_ref(handle, pb, ts, psn, sdu_len, status, frag):
    """Vol 4 Part E 5.4.5: handle(12) PB(2) TS(1) RFU | length(14) RFU(2) | [Time_Stamp(32)] |
    [Packet_Sequence_Number(16) ISO_SDU_Length(12) RFU(2) Packet_Status_Flag(2)] | data.
    The SDU header is present when PB is 0b00 (first fragment) or 0b10 (complete SDU)."""
    body = b''
    if ts is not None:
        body += struct.pack('<I', ts)
    if pb in (0, 2):
        body += struct.pack('<HH', psn, sdu_len | status << 14)
    body += frag
    return bytes([0x05]) + struct.pack('<HH', handle | pb << 12 | (1 if ts is not None else 0) << 14, len(body)) + body


def iso_decode(b):
    h, length = struct.unpack_from('<HH', b, 1)
    d = {'connection_handle': h & 0xFFF, 'pb_flag': h >> 12 & 3, 'ts_flag': h >> 14 & 1, 'data_total_length': length & 0x3FFF}
    pos = 5
    if d['ts_flag']:
        d['time_stamp'] = struct.unpack_from('<I', b, pos)[0]
        pos += 4
    if d['pb_flag'] in (0, 2):
        psn, info = struct.unpack_from('<HH', b, pos)
        d.update(packet_sequence_number=psn, iso_sdu_length=info & 0xFFF, packet_status_flag=info >> 14 & 3)
        pos += 4
    d['iso_sdu_fragment'] = bytes(b[pos:])
    return d


def data_cases(kind):
    if kind == 'acl':
        for handle, pb, bc, n in itertools.product(HANDLES, range(4), range(4), (0, 1, 27, 255, 256, 65535)):
            yield (handle, pb, bc, n)
    elif kind == 'sco':
        for handle, status, n in itertools.product(HANDLES, range(4), (0, 1, 255)):
            yield (handle, status, n)
    else:
        for handle in HANDLES:
            for pb in range(4):
                sdu = pb in (0, 2)
                for ts in ((None,) + U32) if sdu else (None,):
                    for psn in U16 if sdu else (None,):
                        for sdu_len in (0, 1, 0xFF, 0x100, 0xFFF) if sdu else (None,):
                            for status in range(4) if sdu else (None,):
                                for n in (0, 1, 960):
                                    yield (handle, pb, ts, psn, sdu_len, status, n)


def run_data_case(st, kind, c):
    from bumble import hci

    case = {'fill_seed': fe.fill_seed(), 'sub': 'data', 'kind': kind, 'c': list(c)}

    def fail(check, how, msg):
        st.violation(check, {'kind': kind, 'how': how}, msg, case)

    if kind == 'acl':
        handle, pb, bc, n = c
        data = fe.pattern(n, salt=5)
        ref = acl_ref(handle, pb, bc, data)
        kw = dict(connection_handle=handle, pb_flag=pb, bc_flag=bc, data_total_length=n, data=data)
        cls = hci.HCI_AclDataPacket
    elif kind == 'sco':
        handle, status, n = c
        data = fe.pattern(n, salt=5)
        ref = sco_ref(handle, status, data)
        kw = dict(connection_handle=handle, packet_status=hci.HCI_SynchronousDataPacket.Status(status), data_total_length=n, data=data)
        cls = hci.HCI_SynchronousDataPacket
    else:
        handle, pb, ts, psn, sdu_len, status, n = c
        frag = fe.pattern(n, salt=5)
        ref = iso_ref(handle, pb, ts, psn, sdu_len, status, frag)
        total = len(ref) - 5
        kw = dict(connection_handle=handle, data_total_length=total, iso_sdu_fragment=frag, pb_flag=pb, ts_flag=int(ts is not None),
                  time_stamp=ts, packet_sequence_number=psn, iso_sdu_length=sdu_len, packet_status_flag=status)
        cls = hci.HCI_IsoDataPacket
    names = [f.name for f in dataclasses.fields(cls)]
    st.case(ref)

    def differing(obj):
        bad = []
        for fname in names:
            got = getattr(obj, fname)
            exp = kw[fname]
            if isinstance(exp, bytes):
                same = isinstance(got, (bytes, bytearray)) and bytes(got) == exp
            elif exp is None:
                same = got is None
            else:
                same = got is not None and not isinstance(got, (bytes, str)) and int(got) == int(exp)
            if not same:
                bad.append(fname)
        return bad

    # (a) fields -> bytes -> parse
    b = None
    try:
        b = bytes(cls(**kw))
    except Exception as e:  # noqa
        off = 'packet_status_flag' if kind == 'iso' and status not in (None, 0, 1) else ''
        fail('build_parse', f'bytes_raises:{type(e).__name__}' + (f'({off})' if off else ''), f'{cls.__name__}({kw_short(kw)}) cannot be serialised: {type(e).__name__}: {e}')
    if b is not None:
        if b != ref:
            d = header_diff(kind, ref, b)
            fail('wire_format', 'header:' + ','.join(d), f'{cls.__name__}({kw_short(kw)}) serialises to {short(b, 16)}, reference {short(ref, 16)}')
        try:
            p = hci.HCI_Packet.from_bytes(b)
            if type(p) is not cls:
                fail('build_parse', f'class:{type(p).__name__}', f'{cls.__name__} parsed back as {type(p).__name__}')
            else:
                bad = differing(p)
                if bad:
                    fail('build_parse', 'fields:' + ','.join(bad), f'{cls.__name__}({kw_short(kw)}): fields {bad} changed across serialise/parse')
        except Exception as e:  # noqa
            fail('build_parse', f'parse_raises:{type(e).__name__}', f'{cls.__name__}: own bytes {short(b, 16)} do not parse: {e}')
        frames, clean = parser_frames(b)
        if frames != [b] or not clean:
            fail('framing', 'frames', f'{cls.__name__}: PacketParser turned {short(b, 16)} ({len(b)} bytes) into {len(frames)} packets')
    # (b) reference bytes -> parse -> rebuild from parsed field values -> bytes
    try:
        p = hci.HCI_Packet.from_bytes(ref)
    except Exception as e:  # noqa
        fail('parse_rebuild', f'parse_raises:{type(e).__name__}', f'well-formed {kind} packet {short(ref, 16)} does not parse: {type(e).__name__}: {e}')
        return
    if type(p) is not cls:
        fail('parse_rebuild', f'class:{type(p).__name__}', f'well-formed {kind} packet parses as {type(p).__name__}')
        return
    try:
        again = bytes(cls(**{fname: getattr(p, fname) for fname in names}))
    except Exception as e:  # noqa
        fail('parse_rebuild', f'rebuild_raises:{type(e).__name__}', f'{kind} packet {short(ref, 16)}: instance rebuilt from parsed fields fails: {e}')
        return
    if again != ref:
        d = header_diff(kind, ref, again)
        fail('parse_rebuild', 'header:' + ','.join(d), f'well-formed {kind} packet {short(ref, 16)} parsed and rebuilt from its field values gives {short(again, 16)} (differs in {d})')


def kw_short(kw):
    return ', '.join(f'{k}={("<%d bytes>" % len(v)) if isinstance(v, bytes) else v}' for k, v in kw.items())


def header_diff(kind, ref, got):
    """Names of the header fields (by the reference decoder) in which two packets differ."""
    try:
        if kind == 'iso':
            a, b = iso_decode(ref), iso_decode(got)
        elif kind == 'acl':
            dec = lambda x: dict(zip(('connection_handle', 'pb_flag', 'bc_flag', 'data_total_length', 'data'),
                                     (struct.unpack_from('<H', x, 1)[0] & 0xFFF, x[2] >> 4 & 3, x[2] >> 6 & 3, struct.unpack_from('<H', x, 3)[0], bytes(x[5:]))))
            a, b = dec(ref), dec(got)
        else:
            dec = lambda x: dict(zip(('connection_handle', 'packet_status', 'data_total_length', 'data'),
                                     (struct.unpack_from('<H', x, 1)[0] & 0xFFF, x[2] >> 4 & 3, x[3], bytes(x[4:]))))
            a, b = dec(ref), dec(got)
    except Exception:  # noqa
        return ['undecodable']
    return sorted(k for k in set(a) | set(b) if a.get(k) != b.get(k)) or ['reserved_bits']


def run_data(arg) -> core.Stats:
    kind, cases = arg
    st = core.Stats('data_packets')
    for c in cases:
        run_data_case(st, kind, c)
    st.add('data_packet_kinds', kind)
    if cases:
        st.samples.append({'kind': kind, 'case': list(cases[0])})
    return st


# ---- primitive field codec -----------------------------------------------------------
_SYNTHETIC: dict = {}


def distinct_specs():
    """One representative spec object per distinct spec description found in the registries."""
    from bumble import hci

    regs, _ = registries()
    found = {}

    def walk(fields):
        for f in fields:
            if isinstance(f, list):
                walk(f)
            else:
                kind = fe.classify(f[1])
                found.setdefault(kind.label, f[1])
                if kind.tag == 'nested':
                    walk(kind.sub)

    for reg in sorted(regs):
        for code in sorted(regs[reg]):
            cls = regs[reg][code]
            walk(cls.fields)
            rp = getattr(cls, 'return_parameters_class', None)
            if rp is not None:
                walk(rp.fields)
    # every spec form documented in hci.py ("Field Metadata"), whether an HCI class uses it or not
    # (the same codec serves L2CAP/ATT/SMP classes)
    walk([('x', s) for s in DOCUMENTED_SPECS])
    # SpecableEnum / SpecableFlag.type_spec for widths and byte orders no HCI class happens to use
    extra = []
    for cls in (hci.HCI_ErrorCode, hci.PhyBit):
        for size, order in ((2, 'little'), (2, 'big'), (3, 'big'), (4, 'little')):
            spec = _SYNTHETIC.setdefault((cls.__name__, size, order), cls.type_spec(size, order))
            extra.append(('x', spec))
    walk(extra)
    return sorted(found.items())


def run_field_codec(nested_k=1, only=None) -> core.Stats:
    from bumble import hci

    st = core.Stats('field_codec')
    for label, spec in distinct_specs():
        st.add('spec_kinds', label)
        kind = fe.classify(spec)
        # '*' and the padded length-prefixed field are only meaningful as the last field of a packet
        # (the parser of the latter does not consume the padding): no trailing field, no group.
        terminal = kind.tag in ('rest', 'vpad')
        tail = [] if terminal else [('post', 2)]
        shapes = {
            'scalar': ([('pre', 1), ('x', spec)] + tail, {'pre': [0x01], 'post': [0xA55A]}, 1),
            'group': ([[('x', spec), ('y', 1)]] if not terminal else None, None, 2),
        }
        for shape, (fields, ov, k) in shapes.items():
            if fields is None:
                continue
            nk = nested_k if shape == 'scalar' else 1
            for kw, dev in fe.enumerate_kwargs(fields, k, overrides=ov, budget=None, var_max=255, rest_max=64, nested_k=nk):
                if only is not None and (label, shape, dev) != only[:3]:
                    continue
                ref = fe.ref_encode(fields, kw)
                st.case((label, shape, ref))
                case = {'fill_seed': fe.fill_seed(), 'sub': 'field_codec', 'label': label, 'shape': shape, 'dev': dev, 'nested_k': nk}
                sig = {'spec': label, 'shape': shape}
                try:
                    b = hci.HCI_Object.dict_to_bytes(kw, fields)
                except Exception as e:  # noqa
                    st.violation('field_codec', dict(sig, how=f'serialise_raises:{type(e).__name__}'), f'spec {label} ({shape}) case {dev}: dict_to_bytes raises {type(e).__name__}: {e}', case)
                    b = None
                if b is not None and b != ref:
                    st.violation('field_codec', dict(sig, how='bytes_differ'), f'spec {label} ({shape}) case {dev}: serialised as {short(b)}, reference {short(ref)}', case)
                for src, data in (('own', b), ('ref', ref)):
                    if data is None or (src == 'ref' and b == ref):
                        continue
                    try:
                        off, d = hci.HCI_Object.dict_and_offset_from_bytes(data, 0, fields)
                    except Exception as e:  # noqa
                        st.violation('field_codec', dict(sig, how=f'parse_raises:{type(e).__name__}'), f'spec {label} ({shape}) case {dev}: {short(data)} does not parse: {type(e).__name__}: {e}', case)
                        continue

                    class Box:
                        pass

                    box = Box()
                    box.__dict__.update(d)
                    bad = fe.diff(fields, kw, box)
                    if bad or (off != len(data) and kind.tag != 'vpad'):
                        st.violation('field_codec', dict(sig, how='fields:' + ','.join(bad) if bad else 'offset'), f'spec {label} ({shape}) case {dev}: {short(data)} parsed with fields {bad} different, consumed {off} of {len(data)} bytes', case)
    st.samples.append({'specs': [l for l, _ in distinct_specs()][:6]})
    return st


# ---------------------------------------------------------------------------
# driver
# ---------------------------------------------------------------------------
def broken_enums(st: core.Stats):
    for name, (v, err) in sorted(fe.BROKEN_ENUMS.items()):
        st.violation('enum_value', {'enum': name}, f'{name}({v}) cannot be constructed ({err}): a field of this type cannot carry the value, so packets holding it neither build nor parse', {'mode': 'enum_value', 'enum': name, 'value': v})


def work(arg) -> core.Stats:
    st = _work(arg)
    broken_enums(st)
    return st


def _work(arg) -> core.Stats:
    what = arg[0]
    fe.set_fill_seed(arg[-1])
    if what == 'class':
        return run_class(arg[1], arg[2], arg[3], part=arg[4], nparts=arg[5])
    if what == 'cc':
        return run_cc(arg[1], arg[2])
    if what == 'generic':
        return run_generic(arg[1])
    if what == 'data':
        return run_data((arg[1], arg[2]))
    if what == 'field_codec':
        return run_field_codec(nested_k=arg[1])
    raise ValueError(what)


PART_SIZE = 40000
K3_CASE_LIMIT = 200000  # thorough: classes with more 3-deviation cases than this stay at 2 deviations


def run(ctx: core.Context) -> int:
    from bumble import hci

    fe.set_fill_seed(ctx.seed)
    regs, failures = registries()
    # quick: <= 2 deviations, in this process (the whole space costs less than starting the pool);
    # thorough: <= 3 deviations on 16 workers, big classes split into interleaved parts.
    k = 2 if ctx.quick else 3
    jobs = ctx.jobs
    seed = ctx.seed
    items = [('field_codec', 1 if ctx.quick else 2, seed)]
    weights = {}
    limited = []
    for reg in sorted(regs):
        for code in sorted(regs[reg]):
            kc = k
            n = class_case_count(reg, regs[reg][code], kc)
            if kc == 3 and n > K3_CASE_LIMIT:
                kc = 2
                limited.append(regs[reg][code].__name__)
                n = class_case_count(reg, regs[reg][code], kc)
            nparts = max(1, -(-n // PART_SIZE)) if jobs > 1 else 1
            for part in range(nparts):
                it = ('class', reg, code, kc, part, nparts, seed)
                weights[len(items)] = n / nparts
                items.append(it)
    sync = [c for c in sorted(regs['cmd']) if issubclass(regs['cmd'][c], hci.HCI_SyncCommand)]
    asyn = [c for c in sorted(regs['cmd']) if not issubclass(regs['cmd'][c], hci.HCI_SyncCommand)]
    for code in sync:
        it = ('cc', code, k, seed)
        weights[len(items)] = len(regs['cmd'][code].return_parameters_class.fields) ** k * 30
        items.append(it)
    for part in core.split(generic_cases(), 8 if jobs > 1 else 1):
        items.append(('generic', part, seed))
    for kind in ('acl', 'sco', 'iso'):
        cases = list(data_cases(kind))
        for part in core.split(cases, (8 if kind == 'iso' else 2) if jobs > 1 else 1):
            items.append(('data', kind, part, seed))
    # VERIF_SEED permutes the visiting order only
    rot = seed % len(items)
    # heaviest items first so that the pool drains evenly
    order = sorted(range(len(items)), key=lambda i: (-weights.get(i, 3000), (i + rot) % len(items)))
    results = core.pmap(work, [items[i] for i in order], jobs)
    for st in results:
        ctx.sub(st.name).merge(st)
    broken_enums(ctx.sub('field_codec'))

    total_classes = sum(len(d) for d in regs.values())
    ev = ctx.sub('events')
    cm = ctx.sub('commands')
    enumerated = len(ev.sets.get('classes_enumerated', ())) + len(cm.sets.get('classes_enumerated', ()))
    unbuildable = sorted(ev.sets.get('classes_unbuildable', set()) | cm.sets.get('classes_unbuildable', set()))
    probed = sorted(ev.sets.get('probed_parser_specs', set()) | cm.sets.get('probed_parser_specs', set()))
    ctx.log(f'registries: {({r: len(d) for r, d in regs.items()})} sync={len(sync)} async={len(asyn)} import failures={failures}')
    ctx.log(f'classes enumerated {enumerated}/{total_classes}; unbuildable={unbuildable}; probed specs={probed}')
    if limited:
        ctx.log(f'classes limited to 2 deviations (more than {K3_CASE_LIMIT} cases at 3): {limited}')
    if failures:
        cm.cap('vendor/driver modules that could not be imported: ' + '; '.join(failures))
    extra = {
        'k': k,
        'classes_limited_to_2_deviations': limited,
        'registries': {r: len(d) for r, d in regs.items()},
        'classes_registered': total_classes,
        'classes_enumerated': enumerated,
        'classes_unbuildable': unbuildable,
        'sync_commands': len(sync),
        'async_commands': len(asyn),
        'probed_parser_specs': probed,
        'spec_kinds': sorted(ctx.sub('field_codec').sets.get('spec_kinds', ())),
        'module_import_failures': failures,
        'strict_error_return_parameters': STRICT_ERROR_RETURN_PARAMETERS,
    }
    return core.finish(
        ctx,
        LEVEL,
        rule=(
            f'every class in the live registries x every assignment with <= {k} '
            + (f'(<= 2 for the {len(limited)} classes with more than {K3_CASE_LIMIT} such cases) ' if limited else '')
            + 'fields (or repeated-group item counts '
            '0/2/3, or one sub-field of one item) off their simplest value, values from per-spec boundary domains; a case '
            'is one packet, distinct = distinct reference byte strings; each case goes fields->bytes->parse and '
            'reference bytes->parse->fresh instance->bytes on the real code; data packets over full header grids; '
            'all unregistered event / LE sub-event / vendor first bytes and boundary opcodes x parameter lengths'
        ),
        assumptions=[
            'values between the boundary points of a field domain are not visited',
            'fixed-size byte-array fields are given arrays of exactly the declared length (shorter values are padded by design)',
            'an address field without a type on the wire is given the type its parser assigns; an address preceded by its type gets that type',
            'Command Complete events with an error status are only required to preserve the status (documented short parse path)'
            if not STRICT_ERROR_RETURN_PARAMETERS
            else 'Command Complete events with an error status must preserve every return parameter',
            'parsers not in the known table are exercised with values obtained from the real parser on three byte patterns',
            'ISO packets with a time stamp in a continuation fragment (not allowed by the specification) are not enumerated',
        ],
        extra=extra,
    )


def replay(v: core.Violation):
    c = v.case
    fe.set_fill_seed(c.get('fill_seed', 0))
    registries()
    if c.get('mode') == 'enum_value':
        import importlib

        mod, _, qual = c['enum'].partition('.bumble' if False else '\0')
        parts = c['enum'].split('.')
        for i in range(len(parts) - 1, 0, -1):
            try:
                obj = importlib.import_module('.'.join(parts[:i]))
            except ImportError:
                continue
            for a in parts[i:]:
                obj = getattr(obj, a)
            break
        import enum as _enum
        import inspect
        from bumble import hci as _hci

        def enums(ns, depth=0):
            for a in list(vars(ns).values()):
                if inspect.isclass(a) and a.__module__ == _hci.__name__:
                    if issubclass(a, _enum.IntEnum):
                        yield a
                    elif depth < 2:
                        yield from enums(a, depth + 1)

        for other in enums(_hci):  # the same value through every other enumeration of the module first
            try:
                other(c['value'])
            except Exception:  # noqa
                pass
        try:
            obj(c['value'])
            return []
        except ValueError:
            return []
        except Exception as e:  # noqa
            return [f'{c["enum"]}({c["value"]}) raises {type(e).__name__}: {e}']
    sub = c['sub']
    if sub == 'class':
        st = run_class(c['reg'], c['code'], 0, only_dev=[list(d) for d in c['dev']], only_variant=c['variant'])
    elif sub == 'cc':
        st = run_cc(c['code'], 0, only=(c['variant'], [list(d) for d in c['dev']]))
    elif sub == 'generic':
        st = core.Stats('generic')
        run_generic_case(st, c['kind'], c['code'], c['n'])
    elif sub == 'data':
        st = core.Stats('data_packets')
        run_data_case(st, c['kind'], tuple(c['c']))
    elif sub == 'field_codec':
        st = run_field_codec(nested_k=c.get('nested_k', 1), only=(c['label'], c['shape'], [list(d) for d in c['dev']]))
    else:
        raise ValueError(sub)
    return [x.message for x in st.violations if x.check == v.check and x.signature.get('how') == v.signature.get('how')]
