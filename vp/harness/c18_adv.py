"""C18 / adv_data and address_uuid.

adv_data     : AdvertisingData container (every AD type, length boundaries, several
               structures), every typed AD class registered in bumble.data_types, the
               legacy ad_data_to_object decoder.
address_uuid : hci.Address (bytes / string / typed parsers, every address type) and
               core.UUID (three widths, byte / string / integer forms).

Reference encodings: Core spec Vol 3 Part C 11 (AD structure = length, type, data),
Core Specification Supplement Part A (data types), Vol 3 Part B 2.5.1 (UUID), Vol 6
Part B 1.3 (address)."""
from __future__ import annotations

import struct

from . import c18_common as cm
from .c18_common import Rec


# ---------------------------------------------------------------------------
def check_container(rec: Rec, quick: bool):
    from bumble.core import AdvertisingData as AD

    known = sorted({int(t) for t in AD.Type})
    types = (known + [0x00, 0x13, 0x33, 0x7F, 0xFE]) if quick else list(range(256))
    lens = [0, 1, 29, 253, 254]
    n = 0
    for t in rec.seq(types):
        for ln in lens:
            data = rec.fill(ln, t)
            ref = bytes([ln + 1, t]) + data
            key = ('ad1', t, ln)
            case = {'unit': 'ad_container', 't': t, 'ln': ln}
            n += 1
            try:
                wire = bytes(AD([(t, data)]))
                b = AD.from_bytes(ref)
                structs = [(int(a), bytes(d)) for a, d in b.ad_structures]
                again = bytes(AD(list(b.ad_structures)))
                raw = b.get(t, raw=True)
            except Exception as e:
                rec.bad(key, 'ad_container', {'unit': 'AdvertisingData', 'how': f'exception:{cm.exc_name(e)}', 'len': ln}, f'AD type {t:#x} len {ln}: {cm.exc_name(e)}: {e}', case)
                continue
            if wire != ref or structs != [(t, data)] or again != ref or raw != data:
                rec.bad(key, 'ad_container', {'unit': 'AdvertisingData', 'how': 'mismatch', 'len': ln}, f'AD type {t:#x} len {ln}: wire {cm.short(wire)} ref {cm.short(ref)} parsed {[(a, len(d)) for a, d in structs]}', case)
            else:
                rec.ok(key)
    # several structures in one payload (ordered pairs / a triple), incl. duplicates of a type
    some = [(0x01, b'\x06'), (0x09, b'Name'), (0xFF, b'\x4c\x00\x01'), (0x03, b'\x0f\x18\x0a\x18'), (0x09, b''), (0x16, b'\x0f\x18\x64'), (0x7F, rec.fill(200, 1))]
    seqs = [[a, b] for a in some for b in some] + [[some[0], some[1], some[2]], some[:6]]
    for sq in rec.seq(seqs):
        ref = b''.join(bytes([len(d) + 1, t]) + d for t, d in sq)
        key = ('adN', tuple(t for t, _ in sq), len(ref))
        n += 1
        if len(ref) > 1650:
            continue
        try:
            wire = bytes(AD(list(sq)))
            b = AD.from_bytes(ref)
            structs = [(int(a), bytes(d)) for a, d in b.ad_structures]
            ok = wire == ref and structs == [(t, d) for t, d in sq] and bytes(AD(list(b.ad_structures))) == ref
            first = {t: d for t, d in reversed(sq)}
            ok = ok and all(b.get(t, raw=True) == d for t, d in first.items()) and all(b.get_all(t, raw=True) == [d for tt, d in sq if tt == t] for t in first)
            # append(): parsing in two pieces gives the same structures
            c = AD()
            cut = len(bytes([len(sq[0][1]) + 1, sq[0][0]]) + sq[0][1])
            c.append(ref[:cut])
            c.append(ref[cut:])
            ok = ok and bytes(c) == ref
        except Exception as e:
            ok = False
        if ok:
            rec.ok(key)
        else:
            rec.bad(key, 'ad_container', {'unit': 'AdvertisingData', 'how': 'multi_structure_mismatch', 'structures': len(sq)}, f'{len(sq)} structures {[hex(t) for t, _ in sq]} do not round-trip', {'unit': 'ad_multi'})
    rec.st.count('container_cases', n)
    rec.st.samples.append({'ad_types': len(types), 'ad_data_lengths': lens})


# ---------------------------------------------------------------------------
# typed AD classes.  For each class: [(label, make() -> instance, reference data bytes)]
# ---------------------------------------------------------------------------
def typed_cases(rec: Rec):
    from bumble import core, data_types as dt, hci

    U = cm.mk_uuid
    out: dict[str, list] = {}

    def add(cls, label, make, ref):
        out.setdefault(cls.__name__, []).append((label, cls, make, ref))

    u16 = [(0x180F).to_bytes(2, 'little'), cm.REG16.to_bytes(2, 'little'), b'\xff\xff']
    u32 = [cm.CUSTOM32.to_bytes(4, 'little'), (0x12345678).to_bytes(4, 'little')]
    u128 = [cm.CUSTOM128_LE, bytes(range(16))]
    for cls in (dt.IncompleteListOf16BitServiceUUIDs, dt.CompleteListOf16BitServiceUUIDs, dt.ListOf16BitServiceSolicitationUUIDs):
        for k in (1, 0, 2, 3):
            add(cls, f'n{k}', lambda cls=cls, k=k: cls([U(x) for x in u16[:k]]), b''.join(u16[:k]))
    for cls in (dt.IncompleteListOf32BitServiceUUIDs, dt.CompleteListOf32BitServiceUUIDs, dt.ListOf32BitServiceSolicitationUUIDs):
        for k in (1, 0, 2):
            add(cls, f'n{k}', lambda cls=cls, k=k: cls([U(x) for x in u32[:k]]), b''.join(u32[:k]))
        a = cm.REG16.to_bytes(4, 'little')
        add(cls, 'alias_of_registered16', lambda cls=cls, a=a: cls([U(a)]), a)
    for cls in (dt.IncompleteListOf128BitServiceUUIDs, dt.CompleteListOf128BitServiceUUIDs, dt.ListOf128BitServiceSolicitationUUIDs):
        for k in (1, 0, 2):
            add(cls, f'n{k}', lambda cls=cls, k=k: cls([U(x) for x in u128[:k]]), b''.join(u128[:k]))
        a = cm.BASE_LE + cm.REG16.to_bytes(2, 'little') + b'\x00\x00'
        add(cls, 'alias_of_registered16', lambda cls=cls, a=a: cls([U(a)]), a)
    for cls, pool in ((dt.ServiceData16BitUUID, u16), (dt.ServiceData32BitUUID, u32), (dt.ServiceData128BitUUID, u128)):
        for ln in (0, 1, 20):
            d = rec.fill(ln, 9)
            add(cls, f'data{ln}', lambda cls=cls, d=d, u=pool[0]: cls(U(u), d), pool[0] + d)
    for cls in (dt.CompleteLocalName, dt.ShortenedLocalName, dt.BroadcastName, dt.Uri):
        for s in ('Bumble', '', 'é€\U0001F3B5', 'x' * 248):
            add(cls, f'str{len(s.encode())}', lambda cls=cls, s=s: cls(s), s.encode('utf-8'))
    for v in (0x06, 0, 1, 0x1F, 0xFF):
        add(dt.Flags, hex(v), lambda v=v: dt.Flags(core.AdvertisingData.Flags(v)), bytes([v]))
    for cid in (0x004C, 0, 0xFFFF, 0x00FF):
        for ln in (0, 1, 27):
            d = rec.fill(ln, 3)
            add(dt.ManufacturerSpecificData, f'{cid:#x}/{ln}', lambda cid=cid, d=d: dt.ManufacturerSpecificData(cid, d), struct.pack('<H', cid) + d)
    for v in (0, -128, -1, 1, 127):
        add(dt.TxPowerLevel, str(v), lambda v=v: dt.TxPowerLevel(v), v.to_bytes(1, 'little', signed=True))
    for v in cm.U16:
        add(dt.AdvertisingInterval, hex(v), lambda v=v: dt.AdvertisingInterval(v), v.to_bytes(2, 'little'))
    for v in (0x010000, 0xFFFFFF, 0x1000000, 0xFFFFFFFF):
        add(dt.AdvertisingIntervalLong, hex(v), lambda v=v: dt.AdvertisingIntervalLong(v), v.to_bytes(4 if v > 0xFFFFFF else 3, 'little'))
    for cls, size in (
        (dt.SecureSimplePairingHashC192, 16), (dt.SecureSimplePairingRandomizerR192, 16), (dt.SecureSimplePairingHashC256, 16),
        (dt.SecureSimplePairingRandomizerR256, 16), (dt.LeSecureConnectionsConfirmationValue, 16), (dt.LeSecureConnectionsRandomValue, 16),
        (dt.SecurityManagerTKValue, 16), (dt.ResolvableSetIdentifier, 6),
    ):
        for label, pat in (('zeros', bytes(size)), ('count', bytes(range(1, size + 1))), ('ones', b'\xff' * size)):
            add(cls, label, lambda cls=cls, pat=pat: cls(pat), pat)
    # class of device: service classes (11 bits) | major (5) | minor (6) | format 00
    for svc, major, minor in ((0x100, 0x04, 0x01), (0, 0, 0), (0x7FF, 0x1F, 0x3F), (0x001, 0x01, 0x03), (0x400, 0x09, 0x0F), (0x002, 0x05, 0x10)):
        v = svc << 13 | major << 8 | minor << 2
        add(dt.ClassOfDevice, hex(v), lambda v=v: dt.ClassOfDevice.from_int(v), v.to_bytes(3, 'little'))
    for v in (0, 1, 2, 3):
        add(dt.SecurityManagerOutOfBandFlag, str(v), lambda v=v: dt.SecurityManagerOutOfBandFlag(core.SecurityManagerOutOfBandFlag(v)), bytes([v]))
    for a, b in ((6, 0x0C80), (0, 0), (0xFFFF, 0xFFFF), (0x00FF, 0xFF00)):
        add(dt.PeripheralConnectionIntervalRange, f'{a:#x}', lambda a=a, b=b: dt.PeripheralConnectionIntervalRange(a, b), struct.pack('<HH', a, b))
    for cat, sub in ((0, 0), (1, 0), (0x0F, 1), (0x3FF, 0x3F), (0x03, 0x02), (0x200, 0x00)):
        v = cat << 6 | sub
        add(dt.Appearance, hex(v), lambda v=v: dt.Appearance.from_int(v), v.to_bytes(2, 'little'))
    for label, ab in cm.ADDR_PATTERNS:
        add(dt.PublicTargetAddress, label, lambda ab=ab: dt.PublicTargetAddress(hci.Address(ab, hci.AddressType.PUBLIC_DEVICE)), ab)
        add(dt.RandomTargetAddress, label, lambda ab=ab: dt.RandomTargetAddress(hci.Address(ab, hci.AddressType.RANDOM_DEVICE)), ab)
        for t in (0, 1):
            add(dt.LeBluetoothDeviceAddress, f'{label}/{t}', lambda ab=ab, t=t: dt.LeBluetoothDeviceAddress(hci.Address(ab, hci.AddressType(t))), bytes([t]) + ab)
    for v in (0, 1, 2, 3):
        add(dt.LeRole, str(v), lambda v=v: dt.LeRole(core.LeRole(v)), bytes([v]))
    for v in (0, 1, 0xFF, 0x100, 0x8000, (1 << 63) | 1, (1 << 64) - 1):
        add(dt.LeSupportedFeatures, hex(v), lambda v=v: dt.LeSupportedFeatures(v), v.to_bytes(max(1, (v.bit_length() + 7) // 8), 'little'))
    for chm, inst in ((0x1FFFFFFFFF, 1), (0, 0), (0xFFFFFFFFFF, 0xFFFF), (0x0100000000, 0x0100)):
        add(dt.ChannelMapUpdateIndication, hex(chm), lambda chm=chm, inst=inst: dt.ChannelMapUpdateIndication(chm, inst), chm.to_bytes(5, 'little') + inst.to_bytes(2, 'little'))
    # broadcast code: UTF-8, 4..16 octets on the wire; 16-octet codes need no padding
    for s in ('0123456789abcdef', 'Børne House!éé€'):
        if len(s.encode()) == 16:
            add(dt.BroadcastCode, 'code16', lambda s=s: dt.BroadcastCode(s), s.encode())
    for rnd, pl in ((0x0102030405, b'\x01\x02\x03'), (0, b''), (0xFFFFFFFFFF, b'\xaa' * 30)):
        mic = b'\x11\x22\x33\x44'
        add(dt.EncryptedData, hex(rnd), lambda rnd=rnd, pl=pl, mic=mic: dt.EncryptedData(rnd, pl, mic), rnd.to_bytes(5, 'little') + pl + mic)
    for vals in ((0x8E89BED6, 1, 2, 3, 4), (0, 0, 0, 0, 0), (0xFFFFFFFF, 255, 255, 255, 255)):
        add(dt.PeriodicAdvertisingResponseTimingInformation, hex(vals[0]), lambda vals=vals: dt.PeriodicAdvertisingResponseTimingInformation(*vals), vals[0].to_bytes(4, 'little') + bytes(vals[1:]))
    return out


def check_typed(rec: Rec):
    from bumble import core, data_types as dt

    cases = typed_cases(rec)
    registered = {c.__name__: (t, c) for t, c in dt._AD_TO_DATA_TYPE_CLASS_MAP.items()}
    rec.st.count('typed_classes_registered', len(registered))
    for name in sorted(registered):
        if name not in cases:
            rec.st.add('unbuildable', name)
            rec.st.notes.append(f'typed AD class without generator: {name}')
    for name in rec.seq(sorted(cases)):
        rec.st.add('classes_reached', name)
        for label, cls, make, ref in rec.seq(cases[name]):
            key = ('typed', name, label)
            case = {'unit': 'typed_ad', 'cls': name, 'label': label}
            sig = {'unit': 'data_types.' + name}
            try:
                obj = make()
                wire = bytes(obj)
            except Exception as e:
                rec.bad(key, 'typed_ad', dict(sig, how=f'exception:{cm.exc_name(e)}', stage='serialise'), f'{name} {label}: {cm.exc_name(e)}: {e}', case)
                continue
            if wire != ref:
                rec.bad(key, 'typed_ad', dict(sig, how='serialised_differs_from_spec'), f'{name} {label}: {cm.short(wire)} spec {cm.short(ref)}', case)
                continue
            try:
                b = cls.from_bytes(ref)
                via_map = dt.data_type_from_advertising_data(cls.ad_type, ref)
                container = core.AdvertisingData([obj])
                cb = bytes(container)
                back = dt.data_types_from_advertising_data(core.AdvertisingData.from_bytes(cb))
                again = bytes(b)
            except Exception as e:
                if label.startswith('alias_of_registered16') and isinstance(e, TypeError) and 'incompatible UUID' in str(e):
                    # consequence of UUID.from_bytes handing back the registered 16-bit twin
                    rec.bad(key, 'uuid_width_alias', cm.UUID_ALIAS_SIG, f'adv_data {name}: a {len(ref)}-byte UUID equal to an assigned 16-bit UUID makes from_bytes raise {cm.exc_name(e)}: {e}', case)
                else:
                    rec.bad(key, 'typed_ad', dict(sig, how=f'exception:{cm.exc_name(e)}', stage='parse'), f'{name} {label}: parsing {cm.short(ref)}: {cm.exc_name(e)}: {e}', case)
                continue
            r = typed_same(obj, b)
            if r and 'uuid_width' in r:
                rec.bad(key, 'uuid_width_alias', cm.UUID_ALIAS_SIG, f'adv_data {name} {label}: {r}', case)
            elif r:
                rec.bad(key, 'typed_ad', dict(sig, how='parsed_value_differs'), f'{name} {label}: {r}', case)
            elif again != ref:
                rec.bad(key, 'typed_ad', dict(sig, how='reserialised_bytes_differ'), f'{name} {label}: {cm.short(again)} != {cm.short(ref)}', case)
            elif type(via_map) is not cls or typed_same(obj, via_map):
                rec.bad(key, 'typed_ad', dict(sig, how='type_map_gives_other_result'), f'{name} {label}: data_type_from_advertising_data gives {type(via_map).__name__}', case)
            elif cb != bytes([len(ref) + 1, int(cls.ad_type)]) + ref or len(back) != 1 or type(back[0]) is not cls or typed_same(obj, back[0]):
                rec.bad(key, 'typed_ad', dict(sig, how='container_round_trip'), f'{name} {label}: inside AdvertisingData: {cm.short(cb)}', case)
            else:
                rec.ok(key)
    # types with no class: generic holder
    for t in rec.seq([0x10 + 0x100 * 0, 0x25, 0x3D, 0x7E]):
        if core.AdvertisingData.Type(t) in dt._AD_TO_DATA_TYPE_CLASS_MAP:
            continue
        d = rec.fill(5, t)
        key = ('typed_generic', t)
        try:
            g = dt.data_type_from_advertising_data(core.AdvertisingData.Type(t), d)
            ok = type(g) is dt.GenericAdvertisingData and bytes(g) == d and int(g.ad_type) == t and bytes(core.AdvertisingData([g])) == bytes([6, t]) + d
        except Exception:
            ok = False
        if ok:
            rec.ok(key)
        else:
            rec.bad(key, 'typed_ad', {'unit': 'data_types.GenericAdvertisingData'}, f'generic AD type {t:#x}', {'unit': 'typed_generic', 't': t})


def typed_same(a, b) -> str | None:
    import dataclasses

    if type(a) is not type(b):
        return f'class {type(a).__name__} != {type(b).__name__}'
    if dataclasses.is_dataclass(a):
        for f in dataclasses.fields(a):
            r = cm.same(getattr(a, f.name), getattr(b, f.name), f.name)
            if r:
                return r
        return None
    from bumble import hci

    if isinstance(a, hci.Address):
        return cm.same(hci.Address(a.address_bytes, a.address_type), hci.Address(b.address_bytes, b.address_type), 'address')
    return None if a == b else f'{cm.short(a)} != {cm.short(b)}'


def check_legacy_objects(rec: Rec):
    """AdvertisingData.get(type) (non-raw) decodes a structure into a plain object."""
    from bumble.core import AdvertisingData as AD, Appearance

    T = AD.Type
    U = cm.mk_uuid
    u16 = [(0x180F).to_bytes(2, 'little'), cm.REG16.to_bytes(2, 'little')]
    cases = [
        (T.COMPLETE_LIST_OF_16_BIT_SERVICE_CLASS_UUIDS, b''.join(u16), [U(x) for x in u16]),
        (T.INCOMPLETE_LIST_OF_128_BIT_SERVICE_CLASS_UUIDS, cm.CUSTOM128_LE, [U(cm.CUSTOM128_LE)]),
        (T.LIST_OF_32_BIT_SERVICE_SOLICITATION_UUIDS, cm.CUSTOM32.to_bytes(4, 'little'), [U(cm.CUSTOM32.to_bytes(4, 'little'))]),
        (T.COMPLETE_LIST_OF_128_BIT_SERVICE_CLASS_UUIDS, cm.BASE_LE + cm.REG16.to_bytes(2, 'little') + b'\x00\x00', [U(cm.BASE_LE + cm.REG16.to_bytes(2, 'little') + b'\x00\x00')]),
        (T.SERVICE_DATA_16_BIT_UUID, u16[0] + b'\x64', (U(u16[0]), b'\x64')),
        (T.SERVICE_DATA_128_BIT_UUID, cm.CUSTOM128_LE + b'', (U(cm.CUSTOM128_LE), b'')),
        (T.COMPLETE_LOCAL_NAME, 'Bé'.encode(), 'Bé'),
        (T.URI, b'\x17//x', '\x17//x'),
        (T.TX_POWER_LEVEL, b'\x7f', 0x7F),
        (T.FLAGS, b'\x06', 6),
        (T.ADVERTISING_INTERVAL, b'\x34\x12', 0x1234),
        (T.CLASS_OF_DEVICE, b'\x04\x04\x20', 0x200404),
        (T.PERIPHERAL_CONNECTION_INTERVAL_RANGE, b'\x06\x00\x80\x0c', (6, 0x0C80)),
        (T.APPEARANCE, b'\xc1\x03', Appearance.from_int(0x03C1)),
        (T.MANUFACTURER_SPECIFIC_DATA, b'\x4c\x00\x02\x15', (0x004C, b'\x02\x15')),
        (T.LE_ROLE, b'\x01', b'\x01'),
    ]
    for t, data, exp in rec.seq(cases):
        key = ('legacy', int(t), len(data))
        try:
            got = AD([(t, data)]).get(t)
            r = cm.same(exp, got, 'value')
        except Exception as e:
            r = f'{cm.exc_name(e)}: {e}'
        if r is None:
            rec.ok(key)
        elif 'uuid_width' in r:
            rec.bad(key, 'uuid_width_alias', cm.UUID_ALIAS_SIG, f'adv_data get({t.name}): {r}', {'unit': 'legacy', 't': int(t)})
        else:
            rec.bad(key, 'ad_object', {'unit': 'AdvertisingData.get', 'ad_type': int(t)}, f'get({t.name}) of {data.hex()}: {r}', {'unit': 'legacy', 't': int(t)})


def run_adv(rec: Rec, quick: bool):
    check_container(rec, quick)
    check_typed(rec)
    check_legacy_objects(rec)


# ===========================================================================
# addresses and UUIDs
# ===========================================================================
def check_address(rec: Rec):
    from bumble import hci

    A = hci.Address
    n = 0
    for label, ab in rec.seq(cm.ADDR_PATTERNS):
        for t in (0, 1, 2, 3):
            at = hci.AddressType(t)
            key = ('addr', label, t)
            case = {'unit': 'address', 'label': label, 't': t}
            n += 1
            how = None
            try:
                a = A(ab, at)
                if bytes(a) != ab:
                    how = 'bytes'
                # typed parsers: the type comes from the parser / the preceding octet
                buf = b'\xEE' + bytes([t]) + ab + b'\xDD'
                end, p = A.parse_address_preceded_by_type(buf, 2)
                r = cm.same(a, p, 'addr')
                if how is None and (r or end != 8 or bytes(p) != ab):
                    how = 'parse_preceded_by_type' + (':' + cm.reason_kind(r) if r else '')
                end, p = A.parse_address(buf, 2)
                if how is None and (p.address_bytes != ab or int(p.address_type) != 0 or end != 8):
                    how = 'parse_address'
                end, p = A.parse_random_address(buf, 2)
                if how is None and (p.address_bytes != ab or int(p.address_type) != 1 or end != 8):
                    how = 'parse_random_address'
                end, p = A.parse_address_with_type(buf, 2, at)
                if how is None and cm.same(a, p, 'addr'):
                    how = 'parse_address_with_type'
                c = a.clone()
                if how is None and (cm.same(a, c, 'addr') or c != a or hash(c) != hash(a)):
                    how = 'clone'
                # string form carries public-ness only ('/P'); type must be supplied for the rest
                s = a.to_string()
                back = A(s, at)
                if how is None and (back.address_bytes != ab or back.is_public != a.is_public or back != a):
                    how = 'string'
                plain = a.to_string(with_type_qualifier=False)
                if how is None and (A(plain, at).address_bytes != ab or int(A(plain, at).address_type) != t or A(plain.replace(':', ''), at).address_bytes != ab):
                    how = 'string_plain'
                if how is None and plain != ':'.join(f'{x:02X}' for x in reversed(ab)):
                    how = 'string_format'
            except Exception as e:
                how = f'exception:{cm.exc_name(e)}'
            if how:
                rec.bad(key, 'address', {'unit': 'hci.Address', 'how': how, 'address_type': t}, f'Address {ab.hex()} type {t}: {how}', case)
            else:
                rec.ok(key)
    rec.st.count('address_cases', n)


def uuid_values():
    """Values in three disjoint families so that no value of one width has an equal-valued
    twin of another width anywhere in this sub-check (aliasing is probed separately)."""
    v16 = [0x0000, 0x0001, 0x00FF, 0x0100, 0x1800, 0x7FFF, 0x8000, 0xFFFF]
    v32 = [0x00010000, 0x7FFFFFFF, 0x80000000, 0xFFFFFFFF, 0xC18C18C1, 0x12345678]
    v128 = [cm.CUSTOM128_LE, bytes(range(16)), b'\xff' * 16, bytes(16), cm.BASE_LE[:-1] + b'\xFA' + b'\x01\x02\x03\x04']
    return v16, v32, v128


def check_uuid(rec: Rec):
    from bumble.core import UUID

    v16, v32, v128 = uuid_values()
    items = [('u16', v.to_bytes(2, 'little')) for v in v16] + [('u32', v.to_bytes(4, 'little')) for v in v32] + [('u128', le) for le in v128]
    for fam, le in rec.seq(items):
        key = ('uuid', fam, le.hex())
        case = {'unit': 'uuid', 'le': le.hex()}
        w = len(le)
        how = None
        try:
            hexs = le[::-1].hex()
            forms = [UUID(hexs), UUID(hexs.upper())]
            if w == 2:
                forms += [UUID(int.from_bytes(le, 'little')), UUID.from_16_bits(int.from_bytes(le, 'little'))]
            if w == 4:
                forms += [UUID.from_32_bits(int.from_bytes(le, 'little'))]
            if w == 16:
                forms += [UUID(f'{hexs[0:8]}-{hexs[8:12]}-{hexs[12:16]}-{hexs[16:20]}-{hexs[20:32]}')]
            forms += [UUID.from_bytes(le), UUID.parse_uuid(b'\xEE' + le, 1)[1]]
            if w == 2:
                end, p = UUID.parse_uuid_2(b'\xEE' + le + b'\xDD', 1)
                forms.append(p)
                if end != 3:
                    how = 'parse_uuid_2_offset'
            base128 = le if w == 16 else cm.BASE_LE + le + (b'\x00\x00' if w == 2 else b'')
            for i, u in enumerate(forms):
                if how:
                    break
                if bytes(u) != le or u.to_bytes() != le:
                    how = f'bytes(form{i})' + ('_width' if len(bytes(u)) != w else '')
                elif u.to_bytes(force_128=True) != base128:
                    how = 'to_bytes_force_128'
                elif u.to_pdu_bytes() != (base128 if w == 4 else le):
                    how = 'to_pdu_bytes'
                elif u != forms[0] or hash(u) != hash(forms[0]):
                    how = 'equality'
                else:
                    # text forms back to an equal UUID of the same width
                    t = u.to_hex_str()
                    v = UUID(t)
                    if bytes(v) != le:
                        how = 'to_hex_str'
                    elif w == 16 and bytes(UUID(u.to_hex_str('-'))) != le:
                        how = 'to_hex_str_dashed'
        except Exception as e:
            how = f'exception:{cm.exc_name(e)}'
        if how is None:
            rec.ok(key)
        elif how.endswith('_width'):
            rec.bad(key, 'uuid_width_alias', cm.UUID_ALIAS_SIG, f'UUID {le.hex()} ({w} bytes): {how}', case)
        else:
            rec.bad(key, 'uuid', {'unit': 'UUID', 'how': how, 'width': w}, f'UUID {le.hex()} ({w} bytes): {how}', case)
    rec.st.count('uuid_values', len(items))
    # a well-formed UUID whose value equals an *assigned* (import-time registered) 16-bit UUID,
    # written in 32- or 128-bit form
    for w in rec.seq([4, 16]):
        le = cm.REG16.to_bytes(4, 'little') if w == 4 else cm.BASE_LE + cm.REG16.to_bytes(2, 'little') + b'\x00\x00'
        key = ('uuid_assigned_twin', w)
        try:
            u = UUID.from_bytes(le)
            out = bytes(u)
        except Exception as e:
            out = None
        if out == le:
            rec.ok(key)
        else:
            rec.bad(key, 'uuid_width_alias', cm.UUID_ALIAS_SIG, f'UUID.from_bytes({le.hex()}) ({w} bytes, value of the assigned 16-bit UUID {cm.REG16:#06x}) re-serialises to {out.hex() if out else None}', {'unit': 'uuid_twin', 'w': w})


def run_address_uuid(rec: Rec):
    check_address(rec)
    check_uuid(rec)
